"""C05 - cross-target machine code preserves IR behaviour: x86_64 executed natively, riscv and riscv:rvc on the reference RV32IMC emulator,
arm and arm:thumb on the reference ARM/Thumb emulator (vf/sem/arm32.py)."""
import io
import os
import sys
import json
import math
import struct
import itertools
import subprocess

ID = "C05"
LEVEL = "exploration"
RULE = ("every IR function of the families L1 (all 1-instruction value programs over every executed type), cast (every ordered type pair), cmp (every "
        "condition x type), L1k (p0 op C / C op p0 for 18 constants around the 6/12/32-bit immediate limits), L1n (narrow-type arithmetic feeding a "
        "compare or a widening cast), L1c (2-instruction chains whose second instruction consumes the first; quick: i32, u8, f64), L2 (all sequences of "
        "<= 2 (thorough: 3) memory operations over aliasing stack slots, a global and an external call), L3 (every CFG skeleton with <= 3 (thorough: 4) "
        "blocks x 4 body/condition rotations), L4 (phi patterns, tail recursion), L5 (optimiser shortcuts) and the C corpus + statement templates through "
        "c_to_ir(src, arch), restricted to the value types the target executes; x optimisation level {0,1,2,s} (ppci.api.optimize; a level whose IR text "
        "equals that of a lower level shares its evaluation); x target {x86_64, riscv, riscv:rvc, arm, arm:thumb} (quick: the arm and arm:thumb families "
        "L1c/L2/L3 are rotated by VERIF_SEED over the two ARM targets, every other family runs on both); compiled by ir_to_object, linked by ppci.api.link "
        "(arm: with the target's runtime object, use_runtime=True) at a fixed address, called through the target's calling convention with the full V7 x V7 argument product (<= 49 vectors); the run must give the "
        "reference interpreter's return value, final bytes of every global and external-call trace; distinct non-trivial = distinct "
        "(target, instruction-feature set of the function, returned value, global memory)")
ASSUMPTIONS = [
    "oracle: vf/sem/irinterp.py Interp run on the very module handed to ir_to_object (after ppci.api.optimize), pointer size 8 (x86_64) / 4 (riscv, arm); "
    "vectors on which the reference run is undefined, exceeds the step horizon or is unsupported are not compared",
    "executors: x86_64 natively through vf/sem/x86exec.py (mmap RWX + ctypes, forked child per batch); riscv and riscv:rvc on vf/sem/rv32.py, whose decoder "
    "agrees with llvm-mc on all 49152 16-bit encodings and a 34368-word lattice and whose execution agrees with gcc on 3513 runs of clang-compiled "
    "functions (tests/test_rv32.py); an emulator IllegalInstruction makes the item unclassified, never a violation",
    "arm (A32) and arm:thumb (T16 + the few T32 encodings ppci emits: bl, b.w, b<c>.w, sdiv, udiv) run on vf/sem/arm32.py, written from the ARM Architecture "
    "Reference Manual; its decoder agrees with llvm-mc-14 on a 114014-word A32 lattice, all 59391 16-bit Thumb encodings and a 226542-word T32 lattice, and its "
    "execution agrees with gcc on 8784 runs of clang-compiled functions for armv7-a/armv7-m/armv6-m at -O0/-O1/-Os (tests/test_arm32.py); an emulator "
    "IllegalInstruction makes the item unclassified, never a violation.  Unaligned ldr/str/ldrh/strh are allowed (ARMv7, SCTLR.A = 0); ldm/stm/push/pop must "
    "be word aligned; sdiv/udiv by zero give 0 (no trap)",
    "arm and arm:thumb are exercised on i8..u32 and pointers only (ppci's arm register classes hold no 64-bit or float values: f32/f64/i64 operations have no "
    "instruction patterns); ppci's arm calling convention is NOT the AAPCS: arguments in r1..r4, result in r0, r4 is caller-saved; r5-r11 and sp must be "
    "preserved (determine_arg_locations / callee_save in ppci/arch/arm/arch.py); functions with more than four parameters are not called",
    "arm: the object is linked with arch.runtime (ppci's own __sdiv) as ppci's build tools do; a runtime symbol the code generator references but the runtime "
    "does not define (e.g. __udiv) makes the link fail: counted and listed under link_failures, not judged here (C11/C29)",
    "targets m68k, mips (and every other ppci target) cannot be executed in this sandbox (no emulator) and are NOT claimed",
    "riscv is exercised on the integer types i8..u32 and pointers only: float operations compile to calls of a soft-float library (float32_add ...) that "
    "ppci does not ship, and 64-bit integers are not in the target's type table; riscv:rvf / rvfx are not executed",
    "calling convention is ppci's own for the target: x86_64 System V; riscv arguments in x12..x17, result in x10 (ppci does not use a0/a1 for arguments); "
    "narrow arguments are passed sign/zero-extended, a narrow result is compared modulo 2^width; on riscv sp and the callee-saved registers x8, x9, x18-x27 "
    "must be preserved",
    "external functions are host stubs (x86_64: trampoline inside the code page to a ctypes callback; riscv, arm: emulator hook) computing the reference "
    "interpreter's default_external; riscv code and data are linked into two separate memory images so that the (separately checked, C13) "
    "relaxation/alignment defects of the linker do not mask code generation",
    "failures of ppci.api.optimize (C02/C03), of ir_to_object (C29) and of link (C11-C13) are counted and listed, not judged here",
    "arm:thumb only: a failing function whose machine code contains a compare, then a flag-setting instruction, then the conditional branch (found by a linear "
    "sweep with the reference decoder after the oracle has established the failure) is keyed 'thumb-flags-clobbered-between-compare-and-conditional-branch'",
    "every reported mismatch is re-derived from its witness in a fresh python process before it is reported; candidates that do not reproduce are counted",
]
CLAIM = {"text": "inside the enumerated bound, x86_64, riscv, riscv:rvc, arm and arm:thumb machine code generated by ppci returns the value, leaves the global memory and makes "
                 "the external calls that the IR prescribes, at every optimisation level, apart from listed known findings",
         "note": "trusted: reference IR interpreter (validated against gcc by C01), RV32IMC emulator and ARM/Thumb emulator (both validated against llvm-mc and clang/gcc), host CPU",
         "technique": "bounded exhaustive differential execution against a reference interpreter", "engine": "K1"}

TARGETS = ["x86_64", "riscv", "riscv:rvc", "arm", "arm:thumb"]
ARM_TARGETS = ("arm", "arm:thumb")
INT32 = ["i8", "u8", "i16", "u16", "i32", "u32"]
TYPES = {"x86_64": INT32 + ["i64", "u64", "f32", "f64"], "riscv": INT32, "riscv:rvc": INT32, "arm": INT32, "arm:thumb": INT32}
PTR = {"x86_64": 8, "riscv": 4, "riscv:rvc": 4, "arm": 4, "arm:thumb": 4}
LEVELS = ["0", "1", "2", "s"]
RV_CODE, RV_DATA, RV_EXT, RV_MEM = 0x10000, 0x20000, 0x1F000, 1 << 18
RV_ARGREGS = (12, 13, 14, 15, 16, 17)
RV_SAVED = (2, 8, 9, 18, 19, 20, 21, 22, 23, 24, 25, 26, 27)
ARM_ARGREGS = (1, 2, 3, 4)                      # ppci's own convention: arguments r1..r4, result r0
ARM_SAVED = (5, 6, 7, 8, 9, 10, 11, 13)
MAXVEC = 49


# ------------------------------------------------------------------------------------------------ cases

def chain_programs(ty):
    """2-instruction programs whose second instruction consumes the first (sub-family of irgen.l1_programs(ty, 2))."""
    from vf.gen import irgen
    isf = ty in irgen.FLOAT_TYPES
    ops = ["+", "-", "*", "/"] if isf else irgen.BINOPS
    unops = ["-"] if isf else ["-", "~"]
    consts = [0.0, 1.5] if isf else [0, 1, 3]
    first = [["const", ty, c] for c in consts] + [["un", u, "p0", ty] for u in unops]
    for op in ops:
        first += [["bin", op, "p0", "p1", ty], ["bin", op, "p0", "p0", ty]]
    second = [["un", u, "%0", ty] for u in unops]
    for op in ops:
        second += [["bin", op, "%0", "p1", ty], ["bin", op, "p0", "%0", ty], ["bin", op, "%0", "%0", ty]]
    for a in first:
        for b in second:
            yield {"name": "l1c", "functions": [{"name": "f", "ret": ty, "params": [ty, ty], "blocks": [[a, b, ["ret", "%1"]]]}]}


def const_programs(ty):
    """p0 op C and C op p0 for boundary constants C: immediates around the 6/12/32-bit encoding limits."""
    from vf.gen import irgen
    bits = int(ty[1:])
    lo, hi = (-(1 << (bits - 1)), (1 << (bits - 1)) - 1) if ty[0] == "i" else (0, (1 << bits) - 1)
    cs = [c for c in (-1, 5, 31, 32, -32, -33, 255, 256, 2047, 2048, -2048, -2049, 4096, 0x12345, 0x7FFFF800, -5000, lo, hi) if lo <= c <= hi]
    for c in cs:
        yield {"name": "l1k", "functions": [{"name": "f", "ret": ty, "params": [ty, ty], "blocks": [[["const", ty, c], ["ret", "%0"]]]}]}
        for op in irgen.BINOPS:
            if op in ("<<", ">>") and not (0 <= c < bits):
                continue
            if op in ("/", "%") and c == 0:
                continue
            yield {"name": "l1k", "functions": [{"name": "f", "ret": ty, "params": [ty, ty], "blocks": [[["const", ty, c], ["bin", op, "p0", "%0", ty], ["ret", "%1"]]]}]}
            if op in ("-", "/", "%", "<<", ">>", "+"):
                yield {"name": "l1k", "functions": [{"name": "f", "ret": ty, "params": [ty, ty], "blocks": [[["const", ty, c], ["bin", op, "%0", "p0", ty], ["ret", "%1"]]]}]}


def cmp_programs(ty):
    """f(a, b) = a cond b ? 1 : 2 for every condition (the CJUMP patterns)."""
    from vf.gen import irgen
    for cond in irgen.CONDS:
        yield {"name": "cmp", "functions": [{"name": "f", "ret": "i32", "params": [ty, ty], "blocks": [
            [["const", "i32", 1], ["const", "i32", 2], ["cjmp", "p0", cond, "p1", 1, 2]], [["ret", "%0"]], [["ret", "%1"]]]}]}


def narrow_programs(ty):
    """f(a, b) = ((a op b) cond b) ? 1 : 2 and (a op b) op2 b on a narrow type: the intermediate must be reduced to the type's width."""
    from vf.gen import irgen
    for op in ("+", "-", "*", "<<"):
        for cond in irgen.CONDS:
            yield {"name": "narrow", "functions": [{"name": "f", "ret": "i32", "params": [ty, ty], "blocks": [
                [["const", "i32", 1], ["const", "i32", 2], ["bin", op, "p0", "p1", ty], ["cjmp", "%2", cond, "p1", 1, 2]], [["ret", "%0"]], [["ret", "%1"]]]}]}
        for wide in ("i32", "u32"):
            yield {"name": "narrow", "functions": [{"name": "f", "ret": wide, "params": [ty, ty], "blocks": [
                [["bin", op, "p0", "p1", ty], ["cast", wide, "%0"], ["ret", "%1"]]]}]}


def c_cases():
    from vf.gen import ccorpus, cgen
    out = []
    for name, src in ccorpus.CORPUS:
        out.append({"fam": "C", "name": "corpus/" + name, "src": src, "fname": "f"})
    for c in cgen.s_templates():
        src = c["src"].replace("@", "_")
        if "ext(" in src:
            src = "int ext(int); " + src
        out.append({"fam": "C", "name": c["feat"], "src": src, "fname": "f_"})
    return out


ROTATED = ("L1c", "L1k", "L2", "L3")        # quick tier: on the two ARM targets these families are split in complementary halves, swapped by VERIF_SEED


def all_cases(tier, target, seed=0):
    """simplest first"""
    from vf.gen import irgen
    tys = TYPES[target]
    out = []

    def add(fam, descs):
        for d in descs:
            out.append({"fam": fam, "desc": d, "fname": "f"})
    add("L1", irgen.l1_programs(tys, 1))
    add("cast", [irgen.cast_program(a, b) for a in tys for b in tys if a != b])
    for ty in tys:
        add("cmp", cmp_programs(ty))
    for ty in (tys if tier != "quick" else [t for t in tys if t in ("i32", "u8", "i16", "i64")]):
        if ty not in irgen.FLOAT_TYPES:
            add("L1k", const_programs(ty))
    for ty in ("i8", "u8", "i16", "u16"):
        add("L1n", narrow_programs(ty))
    chain_types = ["i32", "u8"] + (["f64"] if "f64" in tys else [])
    if tier != "quick":
        chain_types = tys
    for ty in chain_types:
        add("L1c", chain_programs(ty))
    add("L2", irgen.l2_programs(1, "i32"))
    add("L2", irgen.l2_programs(2, "i32"))
    for ty in ("u8", "i16") + (("i64", "f64") if "i64" in tys else ()):
        add("L2", irgen.l2_programs(1, ty))
    add("L4", irgen.l4_programs("i32"))
    add("L5", irgen.l5_programs())
    for n in (1, 2, 3):
        add("L3", irgen.l3_programs(n, 4))
    out += c_cases()
    if tier != "quick":
        add("L2", irgen.l2_programs(3, "i32"))
        add("L3", irgen.l3_programs(4, 4))
        for ty in ("u8", "i16"):
            add("L3", irgen.l3_programs(2, 4, ty))
    if tier == "quick" and target in ARM_TARGETS:
        # a deterministic slice: case k of a rotated family runs on arm when k + seed is even and on arm:thumb when it is odd, so every case of the
        # bound is executed on one ARM back end for every seed and on both over two consecutive seeds; the other families run on both
        kept, idx = [], {}
        for c in out:
            k = idx[c["fam"]] = idx.get(c["fam"], -1) + 1
            if c["fam"] not in ROTATED or (k + seed + ARM_TARGETS.index(target)) % 2 == 0:
                kept.append(c)
        out = kept
    return out


# ------------------------------------------------------------------------------------------------ helpers

def wrap(ty, v):
    if ty in ("f32", "f64"):
        return v
    bits = 64 if ty == "ptr64" else 32 if ty == "ptr32" else int(ty[1:])
    v &= (1 << bits) - 1
    if ty[0] == "i" and v >> (bits - 1):
        v -= 1 << bits
    return v


def obs_val(v):
    if isinstance(v, float):
        return "nan" if v != v else struct.pack("<d", v).hex()
    return v


def build_module(case, target):
    from vf.gen import irgen
    if "desc" in case:
        return irgen.build(case["desc"])
    from ppci.api import get_arch
    from ppci.lang.c import c_to_ir, COptions
    return c_to_ir(io.StringIO(case["src"]), get_arch(target), COptions())


def ir_text(m):
    from ppci.irutils import print_module
    f = io.StringIO()
    print_module(m, file=f, verify=False)
    return f.getvalue()


def tyname(t, target):
    if t.name == "ptr":
        return "ptr64" if PTR[target] == 8 else "ptr32"
    return t.name


def module_features(m):
    """(set of value type names used, sorted list of instruction features) over every function of the module"""
    from ppci import ir
    tys, feats = set(), set()
    for f in m.functions:
        for p in f.arguments:
            tys.add(p.ty.name)
        if isinstance(f, ir.Function):
            tys.add(f.return_ty.name)
        for b in f.blocks:
            for i in b.instructions:
                t = type(i)
                if t is ir.Binop:
                    feats.add("bin%s:%s" % (i.operation, i.ty.name))
                    tys.add(i.ty.name)
                elif t is ir.Unop:
                    feats.add("un%s:%s" % (i.operation, i.ty.name))
                    tys.add(i.ty.name)
                elif t is ir.Cast:
                    feats.add("cast:%s>%s" % (i.src.ty.name, i.ty.name))
                    tys.update((i.src.ty.name, i.ty.name))
                elif t is ir.Const:
                    v = i.value
                    if isinstance(v, float):
                        k = "f"
                    else:
                        k = "imm6" if -32 <= v < 32 else "imm12" if -2048 <= v < 2048 else "wide"
                    feats.add("const:%s:%s" % (i.ty.name, k))
                    tys.add(i.ty.name)
                elif t is ir.Load:
                    feats.add("load:%s" % i.ty.name)
                    tys.add(i.ty.name)
                elif t is ir.Store:
                    feats.add("store:%s" % i.value.ty.name)
                    tys.add(i.value.ty.name)
                elif t is ir.CJump:
                    feats.add("cjmp%s:%s" % (i.cond, i.a.ty.name))
                    tys.add(i.a.ty.name)
                elif t in (ir.FunctionCall, ir.ProcedureCall):
                    feats.add("call" if isinstance(i.callee, (ir.SubRoutine, ir.External)) else "call-indirect")
                    if t is ir.FunctionCall:
                        tys.add(i.ty.name)
                elif t is ir.Phi:
                    feats.add("phi")
                    tys.add(i.ty.name)
                elif t is ir.CopyBlob:
                    feats.add("memcpy")
                elif t is ir.Alloc:
                    feats.add("alloc")
                elif t is ir.Undefined:
                    feats.add("undef")
                elif t is ir.LiteralData:
                    feats.add("literal")
                elif t is ir.Jump:
                    feats.add("jmp")
    for v in m.variables:
        feats.add("global")
    tys.discard("ptr")
    return tys, sorted(feats)


def vectors(params):
    from vf.gen import irgen
    cols = [irgen.V(t if not t.startswith("ptr") else "u32", 7) for t in params]
    vs = [list(v) for v in itertools.product(*cols)]
    if len(vs) > MAXVEC:
        step = len(vs) / MAXVEC
        vs = [vs[int(i * step)] for i in range(MAXVEC)]
    return vs


class Job:
    """One (module, target, level) ready to execute: linked image + signature + vectors + reference observations."""
    __slots__ = ("case", "target", "level", "fname", "ret", "params", "vecs", "want", "linked", "slots", "externals", "globals", "feats", "mechs")


def ext_signatures(m, target):
    from ppci import ir
    out = {}
    defined = {f.name for f in m.functions}
    for e in m.externals:
        if isinstance(e, ir.ExternalSubRoutine) and e.name not in defined:
            ret = tyname(e.return_ty, target) if isinstance(e, ir.ExternalFunction) else None
            out[e.name] = (ret, [tyname(t, target) for t in e.argument_types])
    return out


def host_external(name, ret, params, raw_args, trace):
    """what the reference interpreter's default_external answers, from raw register images / floats"""
    args = [a if t in ("f32", "f64") else wrap(t, int(a)) for t, a in zip(params, raw_args)]
    trace.append((name, tuple(obs_val(a) for a in args)))
    if ret is None:
        return None
    s = 0
    for a in args:
        s += a if not isinstance(a, float) else int(a) if math.isfinite(a) else 0
    if ret in ("f32", "f64"):
        return float(s) + 0.5
    return wrap(ret, 3 * s + 1)


# ------------------------------------------------------------------------------------------------ prepare (reference + compile + link)

def prepare(p, case, target, level, m, page=None):
    """-> Job | None (counted reason).  m: the optimised module."""
    from ppci import ir
    from ppci.api import get_arch, ir_to_object, link
    from vf.core import cpu_limit, CpuTimeout, exc_key
    from vf.sem.irinterp import run_function
    f = [x for x in m.functions if x.name == case["fname"]]
    if not f:
        p.count("skip_no_entry_function")
        return None
    f = f[0]
    tys, feats = module_features(m)
    if not tys <= set(TYPES[target]):
        p.count("skip_type_not_executed_on_target")
        return None
    params = [tyname(a.ty, target) for a in f.arguments]
    if any(t.startswith("ptr") or t == "blob" for t in params) or (target.startswith("riscv") and len(params) > len(RV_ARGREGS)) or (target in ARM_TARGETS and len(params) > len(ARM_ARGREGS)) or len(params) > 6:
        p.count("skip_signature")
        return None
    ret = tyname(f.return_ty, target) if isinstance(f, ir.Function) else None
    if ret is not None and (ret.startswith("ptr") or f.return_ty.is_blob):
        p.count("skip_signature")
        return None
    if any(v.value and any(not isinstance(part, bytes) for part in v.value) for v in m.variables):
        p.count("skip_global_with_address_initialiser")
        return None
    j = Job()
    j.case, j.target, j.level, j.fname, j.ret, j.params, j.feats = case, target, level, f.name, ret, params, feats
    j.mechs = mechanisms(m, target)
    j.externals = ext_signatures(m, target)
    j.globals = [(v.name, v.amount) for v in m.variables]
    # reference observations first (ir_to_object may touch the module)
    j.vecs, j.want = [], []
    for vec in vectors(params):
        try:
            with cpu_limit(10):
                r = run_function(m, f.name, vec, ptr_size=PTR[target], max_steps=400)
        except CpuTimeout:
            r = ("horizon", "cpu")
        if r[0] != "ok":
            p.count("vector_reference_" + r[0])
            continue
        j.vecs.append(vec)
        j.want.append(r[1])
    if not j.vecs:
        p.count("skip_no_defined_vector")
        return None
    try:
        with cpu_limit(30):
            obj = ir_to_object([m], get_arch(target))
    except CpuTimeout:
        p.count("codegen_timeout")
        return None
    except Exception as e:  # noqa
        p.count("codegen_failed")
        p.collect("codegen_failures", exc_key(target, e))
        return None
    finally:
        drop_ppci_caches()
    try:
        with cpu_limit(30):
            if target == "x86_64":
                from vf.sem import x86exec
                j.linked, j.slots = x86exec.link_at(obj, page, sorted(j.externals))
            elif target in ARM_TARGETS:
                j.slots = {n: RV_EXT + 16 * k for k, n in enumerate(sorted(j.externals))}
                j.linked = link([obj], layout=rv_layout(), extra_symbols=dict(j.slots), use_runtime=True)
            else:
                j.slots = {n: RV_EXT + 16 * k for k, n in enumerate(sorted(j.externals))}
                j.linked = link([obj], layout=rv_layout(), extra_symbols=dict(j.slots))
    except CpuTimeout:
        p.count("link_timeout")
        return None
    except Exception as e:  # noqa
        p.count("link_failed")
        p.collect("link_failures", exc_key(target, e))
        return None
    return j


def drop_ppci_caches():
    """ppci memoises two register-allocator methods with lru_cache(maxsize=None) keyed by `self`: every allocator (and the code generator
    behind it, ~0.25 MB) stays alive for ever.  The caches are per-instance keys, so clearing them between compilations changes nothing."""
    from ppci.codegen import registerallocator as ra
    for v in vars(ra.GraphColoringRegisterAllocator).values():
        if hasattr(v, "cache_clear"):
            v.cache_clear()


def rv_layout():
    from ppci.binutils.layout import Layout, Memory, Section
    lay = Layout()
    for name, loc, sec in (("code", RV_CODE, "code"), ("data", RV_DATA, "data")):
        mem = Memory(name)
        mem.location = loc
        mem.size = 0xF000
        mem.add_input(Section(sec))
        lay.add_memory(mem)
    return lay


def sym_addr(linked, name):
    return linked.get_symbol_id_value(linked.get_symbol(name).id)


# ------------------------------------------------------------------------------------------------ execute

def result_obs(ret, raw):
    if ret is None:
        return None
    if ret in ("f32", "f64"):
        return obs_val(float(raw))
    return wrap(ret, int(raw))


def exec_x86(job_page):
    """runs inside the forked child: every vector of one job -> [observation]"""
    from vf.sem import x86exec
    j, page = job_page
    out = []
    for vec in j.vecs:
        page.install(j.linked)
        trace = []
        page._keep = []
        for name, (ret, params) in j.externals.items():
            def stub(*raw, _n=name, _r=ret, _p=params):
                r = host_external(_n, _r, _p, raw, trace)
                return 0 if r is None else r
            page.bind(j.slots[name], stub, ret, params)
        args = [float(a) if t in ("f32", "f64") else wrap(t, a) for t, a in zip(j.params, vec)]
        raw = x86exec.call(page, j.linked, j.fname, j.ret, [t if not t.startswith("ptr") else "u64" for t in j.params], args)
        mem = tuple((n, page.read(sym_addr(j.linked, n), size).hex()) for n, size in j.globals)
        out.append(("ok", result_obs(j.ret, raw), mem, tuple(trace)))
    return out


def exec_rv(j, vec):
    from vf.sem import rv32
    code = j.linked.get_section("code")
    images = [(s.address, bytes(s.data)) for s in j.linked.sections if s.size and s.name != "code"]
    trace = []
    hooks = {}
    for name, (ret, params) in j.externals.items():
        def hook(mach, _n=name, _r=ret, _p=params):
            r = host_external(_n, _r, _p, [mach.x[RV_ARGREGS[k]] for k in range(len(_p))], trace)
            if r is not None:
                mach.x[10] = r & 0xFFFFFFFF
        hooks[j.slots[name]] = hook
    init = {r: 0xA5A50000 + r * 0x101 for r in range(3, 32)}
    try:
        res = rv32.run(bytes(code.data), code.address, sym_addr(j.linked, j.fname), [wrap(t, a) for t, a in zip(j.params, vec)], max_steps=400000,
                       mem_size=RV_MEM, arg_regs=RV_ARGREGS, extra_images=images, hooks=hooks, init_regs=init)
    except rv32.IllegalInstruction as e:
        return ("illegal", "%#x" % e.word, e.why)
    except rv32.StepLimit as e:
        return ("hang", str(e))
    except rv32.EmuError as e:
        return ("crash", "%s: %s" % (type(e).__name__, e))
    m = res.machine
    mem = tuple((n, bytes(m.mem[sym_addr(j.linked, n) - m.base:sym_addr(j.linked, n) - m.base + size]).hex()) for n, size in j.globals)
    clobbered = [rv32.ABI[r] for r in RV_SAVED if res.regs[r] != (init[r] if r != 2 else m.base + len(m.mem) - 16)]
    return ("ok", result_obs(j.ret, res.a0), mem, tuple(trace), tuple(clobbered))


def exec_arm(j, vec):
    """one vector on the ARM/Thumb reference emulator, ppci's convention (arguments r1..r4, result r0)"""
    from vf.sem import arm32
    thumb = j.target == "arm:thumb"
    code = j.linked.get_section("code")
    images = [(s.address, bytes(s.data)) for s in j.linked.sections if s.size and s.name != "code"]
    trace = []
    hooks = {}
    for name, (ret, params) in j.externals.items():
        def hook(mach, _n=name, _r=ret, _p=params):
            r = host_external(_n, _r, _p, [mach.r[ARM_ARGREGS[k]] for k in range(len(_p))], trace)
            if r is not None:
                mach.r[0] = r & 0xFFFFFFFF
        hooks[j.slots[name]] = hook
    init = {r: 0xA5A50000 + r * 0x101 for r in range(0, 13)}
    try:
        res = arm32.run(bytes(code.data), code.address, sym_addr(j.linked, j.fname), [wrap(t, a) for t, a in zip(j.params, vec)], max_steps=100000,
                        mem_size=RV_MEM, arg_regs=ARM_ARGREGS, extra_images=images, hooks=hooks, init_regs=init, thumb=thumb)
    except arm32.IllegalInstruction as e:
        return ("illegal", "%#x" % e.word, e.why)
    except arm32.StepLimit as e:
        return ("hang", str(e))
    except arm32.EmuError as e:
        return ("crash", "%s: %s" % (type(e).__name__, e))
    m = res.machine
    mem = tuple((n, bytes(m.mem[sym_addr(j.linked, n) - m.base:sym_addr(j.linked, n) - m.base + size]).hex()) for n, size in j.globals)
    clobbered = [arm32.REG[r] for r in ARM_SAVED if res.regs[r] != (init[r] if r != 13 else m.base + len(m.mem) - 16)]
    return ("ok", result_obs(j.ret, res.r0), mem, tuple(trace), tuple(clobbered))


def exec_emulated(j, vec):
    return exec_arm(j, vec) if j.target in ARM_TARGETS else exec_rv(j, vec)


# ------------------------------------------------------------------------------------------------ judge

def case_id(case):
    return case["name"] if "name" in case else case["desc"].get("name", "?")


def witness_of(j, vec):
    w = {"target": j.target, "level": j.level, "fname": j.fname, "vector": [obs_val(v) if isinstance(v, float) and v != v else v for v in vec]}
    c = j.case
    w["case"] = {k: c[k] for k in c}
    return w


def mechanisms(m, target):
    """Named mechanisms (a fixed vocabulary) whose structural trigger occurs in the module, in priority order.  They only *name* the locus of a
    mismatch that the oracle has already established; a failing function without any trigger is keyed by its minimal instruction mix."""
    from ppci import ir
    found = []

    def add(x):
        if x not in found:
            found.append(x)

    # target independent (selection DAG construction): a value computed from a phi of a successor block (a loop-carried value) that is only
    # consumed in another block is not ordered before the copy that updates the phi register at the end of the block
    for f in m.functions:
        for b in f.blocks:
            for s in b.successors:
                for phi in s.phis:
                    if phi.get_value(b) is phi:
                        continue
                    for x in b.instructions:
                        if phi in x.uses and not x.is_terminator and isinstance(x, ir.Value) and any(u.block is not b for u in x.used_by):
                            add("value-derived-from-a-loop-phi-computed-after-the-phi-register-update")
    isrv, isarm = target.startswith("riscv"), target in ARM_TARGETS
    if not (isrv or isarm):
        if any(type(i) is ir.Cast and not i.src.ty.is_integer and i.src.ty is not ir.ptr and i.ty.is_integer for f in m.functions for b in f.blocks for i in b.instructions):
            add("?float-to-int-cast")       # only a marker: named in mechanism() when the observed result is off by one
        return found

    def nbits(t):
        return t.bits if t.is_integer else 32

    def computed(v):
        """a value whose register image may carry bits above its type's width: narrow arithmetic, and on arm also a narrowing cast
        (I32TOI8 & co are no-ops on arm:thumb and zero-extend even signed values on arm)"""
        if isinstance(v, (ir.Binop, ir.Unop)):
            return True
        return isarm and type(v) is ir.Cast and v.ty.is_integer and nbits(v.ty) < nbits(v.src.ty)

    for f in m.functions:
        for b in f.blocks:
            for i in b.instructions:
                t = type(i)
                if isarm and target == "arm" and t is ir.Binop and i.ty.is_integer and i.ty.bits == 32 and i.ty.is_signed and i.operation in ("/", "%"):
                    add("arm-runtime-__sdiv-is-an-unsigned-division")
                if isarm and target == "arm:thumb" and t is ir.Load and i.ty.is_integer and i.ty.is_signed and i.ty.bits < 32:
                    found.append("~thumb-signed-narrow-load-zero-extends") if "~thumb-signed-narrow-load-zero-extends" not in found else None
                if t is ir.Unop and i.a.use_count > 1 and isrv:
                    add("source-register-modified-in-place/unary" + i.operation)
                elif t is ir.Cast and i.src.ty.is_integer and i.ty.is_integer:
                    sb, db = nbits(i.src.ty), nbits(i.ty)
                    if isrv and sb < db and i.src.ty.is_signed and not i.ty.is_signed:
                        add("widening-cast-of-signed-source-to-unsigned-zero-extends")
                    if isrv and sb < db and i.src.use_count > 1:
                        add("source-register-modified-in-place/widening-cast")
                    if sb < db and computed(i.src) and sb < 32:
                        add("narrow-intermediate-used-without-reduction-to-its-width")
                    if isrv and sb > db and db < 32 and i.use_count and any(type(u) is ir.Cast and nbits(u.ty) > db for u in i.used_by) and i.src.use_count > 1:
                        add("source-register-modified-in-place/widening-cast")
                elif t is ir.Binop and i.ty.is_integer:
                    bits = i.ty.bits
                    ca = i.a.value if isinstance(i.a, ir.Const) else None
                    cb = i.b.value if isinstance(i.b, ir.Const) else None
                    if isrv and bits == 32 and i.operation in ("+", "&", "|", "^") and any(isinstance(c, int) and c < -2048 for c in (ca, cb)):
                        add("immediate-pattern-without-lower-bound")
                    if target == "riscv:rvc" and bits == 32 and i.ty.is_signed and i.operation in ("<<", ">>"):
                        if isinstance(ca, int) and ca < 16:
                            add("rvc-shift-with-constant-left-operand-swaps-operands")
                        if i.operation == ">>" and isinstance(cb, int) and cb < 16:
                            add("rvc-signed-shift-right-by-constant-is-logical")
                    if bits < 32 and i.operation in (">>", "/", "%") and (computed(i.a) or computed(i.b)):
                        add("narrow-intermediate-used-without-reduction-to-its-width")
                    if isrv and bits < 32 and i.ty.is_signed and i.operation == ">>" and i.a.use_count > 1:
                        add("source-register-modified-in-place/narrow-shift-right")
                elif t is ir.CJump and i.a.ty.is_integer and i.a.ty.bits < 32 and (computed(i.a) or computed(i.b)):
                    add("narrow-intermediate-used-without-reduction-to-its-width")
                elif t is ir.Const and target == "riscv:rvc" and i.ty.is_integer and isinstance(i.value, int) and i.value < -0x20000:
                    add("rvc-constant-pattern-for-large-negative-values")
    phi = "value-derived-from-a-loop-phi-computed-after-the-phi-register-update"
    if isarm and phi in found and len(found) > 1:      # on arm a function that also shows an ARM-specific trigger is filed under that one (a u8 loop counter
        found.remove(phi)                              # that wraps fails through the missing narrow reduction, whether or not the phi ordering is right)
        found.append(phi)
    if "~thumb-signed-narrow-load-zero-extends" in found:          # lowest priority: named only when no other trigger is present
        found.remove("~thumb-signed-narrow-load-zero-extends")
        found.append("thumb-signed-narrow-load-zero-extends")
    return found


def thumb_flags_clobbered_before_branch(j):
    """arm:thumb only, looked at after the oracle has established a failure: does the generated code contain a compare whose flags are overwritten by a
    flag-setting instruction (16-bit movs/adds/subs/... as emitted for frame-relative spill addresses) before the conditional branch that consumes them?
    Linear sweep with the reference decoder; literal-pool words that do not decode are skipped."""
    from vf.sem import arm32
    code = bytes(j.linked.get_section("code").data)
    pending = dirty = False
    o = 0
    while o + 2 <= len(code):
        h1 = int.from_bytes(code[o:o + 2], "little")
        h2 = int.from_bytes(code[o + 2:o + 4], "little") if o + 4 <= len(code) else 0
        try:
            i = arm32.decode_thumb(h1, h2)
        except arm32.IllegalInstruction:
            pending = dirty = False
            o += 2
            continue
        o += i.size
        if i.k == "dp" and i.rd is None:
            pending, dirty = True, False
        elif i.k == "b" and i.cond != arm32.AL:
            if pending and dirty:
                return True
        elif i.k in ("b", "bx", "ldm", "cbz"):
            pending = dirty = False
        elif pending and (i.s or i.sit):
            dirty = True
    return False


def mechanism(j, kind, got, want):
    if j.target == "arm:thumb" and kind in ("wrong", "hang", "result", "memory", "trace") and thumb_flags_clobbered_before_branch(j):
        return "thumb-flags-clobbered-between-compare-and-conditional-branch"
    if kind in ("crash", "hang"):
        if kind == "hang" and j.target in ARM_TARGETS:              # e.g. a negative divisor makes the arm runtime's shift-subtract loop spin for ever;
            for m in j.mechs:                                       # an unreduced narrow loop counter never equals its bound
                if not m.startswith("?"):
                    return m
        return None
    for m in j.mechs:
        if not m.startswith("?"):
            return m
        if m == "?float-to-int-cast" and isinstance(got, int) and isinstance(want, int) and abs(got - want) == 1:
            return "float-to-int-conversion-rounds-to-nearest-instead-of-truncating"
    return None


def judge(p, j, vec, want, got):
    """want: Interp observation (result, mem, trace); got: executor observation.  Records a candidate violation or an outcome."""
    p.add()
    ident = "%s -O%s %s %s(%s)" % (j.target, j.level, case_id(j.case), j.fname, ", ".join(map(str, vec)))
    kind = None
    if got[0] == "illegal":
        p.count("unclassified_emulator_illegal_instruction")
        p.collect("emulator_refused_encodings", "%s (%s)" % (got[1], got[2]))
        return
    if got[0] == "exc":
        p.count("unclassified_executor_exception")
        p.collect("executor_exceptions", str(got[1])[:120])
        return
    if got[0] in ("crash", "hang", "signal", "timeout"):
        kind = "crash" if got[0] in ("crash", "signal") else "hang"
        what = "%s: machine code %s (%s); the IR returns %r" % (ident, "crashed" if kind == "crash" else "did not return", got[1], want[0])
        g = w = None
    else:
        wres, wmem, wtrace = want
        gres, gmem, gtrace = got[1], got[2], got[3]
        wmem = tuple(x for x in wmem if x[0] in dict(gmem))
        if gtrace != wtrace:
            kind, g, w = "trace", gtrace, wtrace
        elif gres != wres:
            kind, g, w = "result", gres, wres
        elif gmem != wmem:
            kind, g, w = "memory", gmem, wmem
        elif len(got) > 4 and got[4]:
            kind, g, w = "callee-saved", got[4], ()
        if kind:
            what = "%s: machine code gives %s %r, the IR prescribes %r" % (ident, kind, g, w)
    if kind is None:
        p.outcome((j.target, tuple(j.feats), got[1], got[2]))
        return
    mech = mechanism(j, kind, g, w)
    key = "%s|%s|%s" % (j.target, kind if kind in ("crash", "hang") else "wrong", "mech:" + mech if mech else "+".join(j.feats))
    p.count("failing_vectors")
    if mech:
        p.count("failing_vectors/%s/%s" % (j.target, mech))
    p.violation(key, what, witness_of(j, vec))


def process(p, items, target):
    """items: cases for one target.  x86_64 jobs are executed in a forked child, bisected to one vector on a crash."""
    from ppci.api import optimize
    from vf.core import cpu_limit, CpuTimeout
    page = None
    if target == "x86_64":
        from vf.sem import x86exec
        page = x86exec.CodePage()
    jobs = []
    for case in items:
        seen = set()
        for level in LEVELS:
            try:
                with cpu_limit(20):
                    m = build_module(case, target)
            except CpuTimeout:
                p.count("frontend_timeout")
                break
            except Exception:  # noqa
                p.count("frontend_failed")
                break
            try:
                with cpu_limit(30):
                    optimize(m, level=level)
                    txt = ir_text(m)
            except CpuTimeout:
                p.count("optimize_timeout")
                continue
            except Exception:  # noqa
                p.count("optimize_failed")
                continue
            if txt in seen:
                p.count("level_ir_identical_to_lower_level")
                continue
            seen.add(txt)
            j = prepare(p, case, target, level, m, page)
            if j is None:
                continue
            p.count("functions_executed/" + target)
            p.collect("families/" + target, case["fam"])
            if target == "x86_64":
                jobs.append(j)
            else:
                for vec, want in zip(j.vecs, j.want):
                    try:
                        with cpu_limit(30):
                            got = exec_emulated(j, vec)
                    except CpuTimeout:
                        got = ("hang", "emulator cpu limit")
                    judge(p, j, vec, want, got)
    if target == "x86_64" and jobs:
        run_x86_jobs(p, jobs, page)
        page.close()


def run_x86_jobs(p, jobs, page):
    from vf.sem import x86exec
    res = x86exec.forked_map(exec_x86, [(j, page) for j in jobs], cpu_seconds=3)
    for j, r in zip(jobs, res):
        if r[0] == "ok":
            for vec, want, got in zip(j.vecs, j.want, r[1]):
                judge(p, j, vec, want, got)
            continue
        # the child died (signal / CPU limit) or raised inside this job: run its vectors one by one, in order, up to the first one that fails
        for k, (vec, want) in enumerate(zip(j.vecs, j.want)):
            s = Job()
            for a in Job.__slots__:
                if hasattr(j, a):
                    setattr(s, a, getattr(j, a))
            s.vecs, s.want = [vec], [want]
            r1 = x86exec.forked_map(exec_x86, [(s, page)], cpu_seconds=1)[0]
            if r1[0] == "ok":
                judge(p, s, vec, want, r1[1][0])
                continue
            judge(p, s, vec, want, (r1[0], r1[1]))
            p.count("vectors_not_run_after_a_crash_or_hang", len(j.vecs) - k - 1)
            break


def worker(p, shard):
    by_target = {}
    for target, case in shard:
        by_target.setdefault(target, []).append(case)
    for target in TARGETS:
        if target in by_target:
            process(p, by_target[target], target)


# ------------------------------------------------------------------------------------------------ run / confirm / replay

def confirm_fresh(witness):
    """re-derive one candidate in a fresh python process -> (violated, detail)"""
    from vf import core
    env = dict(os.environ, VF_REPO=core.REPO, PYTHONHASHSEED=os.environ.get("PYTHONHASHSEED", "0"))
    r = subprocess.run([sys.executable, "-m", "vf.checks.c05"], input=json.dumps(witness), capture_output=True, text=True, cwd=core.VERIF, env=env)
    try:
        out = json.loads(r.stdout.strip().splitlines()[-1])
        return bool(out[0]), out[1]
    except Exception:  # noqa
        return False, "confirmation process failed: " + (r.stderr or r.stdout)[-300:]


def _confirm_worker(p, shard):
    for key, what, wit in shard:
        ok, detail = confirm_fresh(wit)
        if ok:
            p.violation(key, what, wit)
        else:
            p.count("candidates_not_reproduced_in_fresh_process")
            p.collect("not_reproduced", key)


def minimal_keys(cands):
    """cands: {key: (order, what, witness)} with key 'target|kind|mech:NAME' or 'target|kind|f1+f2..' -> [(final key, what, witness)].
    A failing function that shows the structural trigger of a named mechanism is keyed by that mechanism; the others are keyed by their
    instruction mix, keeping only the mixes that have no failing proper subset for the same (target, kind) (an antichain: one key per
    minimal failing instruction mix).  A mix that is minimal on every executed target gives one key 'all-targets/...'."""
    groups = {}
    for key, (order, what, wit) in cands.items():
        target, kind, feats = key.split("|", 2)
        groups.setdefault((target, kind), []).append((feats, order, what, wit))
    kept_all = {}
    for (target, kind), lst in sorted(groups.items()):
        lst.sort(key=lambda x: (0 if x[0].startswith("mech:") else 1, len(x[0].split("+")), x[0]))
        kept = []
        for feats, order, what, wit in lst:
            fs = frozenset(feats.split("+"))
            if any(k <= fs for k, _ in kept):
                continue
            kept.append((fs, (feats, what, wit)))
        for fs, (feats, what, wit) in kept:
            explained = sum(1 for x in lst if fs <= frozenset(x[0].split("+")))
            kept_all[(target, kind, feats)] = (what, wit, explained)
    out = []
    done = set()
    for (target, kind, feats), (what, wit, explained) in sorted(kept_all.items(), key=lambda kv: (TARGETS.index(kv[0][0]), kv[0])):
        if (target, kind, feats) in done:
            continue
        # the targets form two groups whose keys never merge: the three targets executed since the first version of this check (their keys, including
        # 'all-targets', stay what they were) and the two ARM back ends (keys 'arm', 'arm:thumb' or 'arm+arm:thumb')
        group = [t for t in TARGETS if (t in ARM_TARGETS) == (target in ARM_TARGETS)]
        hit = [t for t in group if (t, kind, feats) in kept_all]
        for t in hit:
            done.add((t, kind, feats))
        where = "all-targets" if len(hit) == len(group) and target not in ARM_TARGETS else "+".join(hit)
        n = sum(kept_all[(t, kind, feats)][2] for t in hit)
        if feats.startswith("mech:"):
            out.append(("%s/%s/%s" % (where, kind, feats[5:]), what + "  [named mechanism, seen on %s: every failing function showing its structural trigger is filed here]" % ", ".join(hit), wit))
        else:
            out.append(("%s/%s/%s" % (where, kind, feats), what + "  [minimal failing instruction mix on %s; %d failing function variants contain it]" % (", ".join(hit), n), wit))
    return out


def run(ctx):
    items = []
    for target in TARGETS:
        cs = all_cases(ctx.tier, target, ctx.seed)
        ctx.note("cases/" + target, len(cs))
        items += [(target, c) for c in cs]
    ctx.note("targets_executed", TARGETS)
    ctx.note("targets_not_claimed", ["m68k", "mips", "riscv:rvf", "riscv:rvfx", "msp430", "avr", "xtensa", "or1k", "microblaze", "stm8", "mcs6500"])
    ctx.sample({"target": "riscv", "level": "0", "case": "L1 f(a,b)=a/b on i32", "vector": [-2147483648, 2], "reference": -1073741824})
    ctx.sample({"target": "x86_64", "level": "1", "case": "corpus/float_mix", "vector": [3, 1]})
    # keep families together per shard (x86 jobs are batched per forked child), interleave for balance
    ctx.pmap(worker, items, nshards=min(len(items), 192))
    cands = dict(ctx.violations)
    ctx.violations.clear()
    ctx.note("candidate_function_variants_failing", len(cands))
    todo = minimal_keys(cands)
    ctx.pmap(_confirm_worker, todo, nshards=min(len(todo), 64) or None)
    ctx.note("emulator_unclassified_limit", "the claim stands only if n_unclassified_emulator_illegal_instruction is 0 or every listed encoding is a genuine non-RV32IMC (riscv) / unsupported-by-design (arm) encoding")


def replay(w):
    from vf.core import Partial
    from ppci.api import optimize
    p = Partial()
    case, target, level = w["case"], w["target"], w["level"]
    m = build_module(case, target)
    optimize(m, level=level)
    page = None
    if target == "x86_64":
        from vf.sem import x86exec
        page = x86exec.CodePage()
    j = prepare(p, case, target, level, m, page)
    if j is None:
        return False, "case is not executable any more: %r" % (p.counters,)
    vec = [float("nan") if v == "nan" else v for v in w["vector"]]
    pairs = [(v, wnt) for v, wnt in zip(j.vecs, j.want) if list(map(obs_val, v)) == list(map(obs_val, vec))]
    if not pairs:
        return False, "vector is outside the defined domain of the reference run"
    j.vecs, j.want = [pairs[0][0]], [pairs[0][1]]
    if target == "x86_64":
        run_x86_jobs(p, [j], page)
        page.close()
    else:
        judge(p, j, j.vecs[0], j.want[0], exec_emulated(j, j.vecs[0]))
    if p.violations:
        k = sorted(p.violations)[0]
        return True, p.violations[k][1]
    if p.counters.get("unclassified_emulator_illegal_instruction"):
        return False, "unclassified: emulator refused an encoding"
    return False, "machine code and reference interpreter agree"


if __name__ == "__main__":
    sys.path.insert(0, os.path.dirname(os.path.dirname(os.path.dirname(os.path.abspath(__file__)))))
    from vf import core as _core
    import logging
    logging.disable(logging.CRITICAL)
    _core.use_repo()
    print(json.dumps(list(replay(json.load(sys.stdin)))))
