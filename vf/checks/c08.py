"""C08 - instruction encodings agree with the architecture reference (LLVM 14 as independent decoder)."""
import os

ID = "C08"
LEVEL = "exploration"
RULE = ("insgen instances of every instruction class with a syntax of arm, arm:thumb, riscv (+rvc, rvf, rvfx), x86_64 (+x87), mips, msp430, "
        "avr, m68k: two base operand vectors per class, every operand sweeping its whole domain (all registers of its class; integers: every "
        "value of [-2^(n-1), 2^n) for probed width n <= 8 (quick) / 12 (thorough), boundary lattice above; every nested addressing-mode "
        "constructor option with its own sub-sweeps); thorough adds operand products/pairs.  Option variants (rvc/rvf/rvfx/x87) contribute "
        "the classes they add to the base ISA.  A case is one instance whose direct encoding succeeds and that is not a data directive; "
        "distinct non-trivial = distinct (arch, class, nested options chosen, canonical mnemonic, encoded length, verdict)")
ASSUMPTIONS = [
    "reference decoder: llvm-mc 14 --disassemble (arm: armv7a +hwdiv-arm, thumb: thumbv7m +hwdiv, riscv32 +c,+m,+f,+d,+a -M no-aliases, x86-64 "
    "Intel syntax, mips32r2 little endian, msp430, avr atmega2560, m68k M68020); it is trusted to print the operation and operands the bytes "
    "denote; encodings it only flags as 'potentially undefined' (ARM UNPREDICTABLE) count as decoded",
    "x86-64 only: a difference against LLVM stands only if GNU objdump -M intel (second independent decoder) also reads the bytes differently "
    "from ppci's text; if objdump agrees with ppci the instance is unclassified (references disagree)",
    "or1k, xtensa, microblaze, stm8 and mcs6500 have no reference decoder in this sandbox and are excluded from the claim by name",
    "both ppci's printed form (tokenised by walking the instruction's Syntax; must reproduce str(instruction)) and the reference text are reduced "
    "to (canonical mnemonic, operands) by vf/gen/asmnorm.py: register names map to numbers through tables written from the ISA manuals (never "
    "ppci's Register.num); alias tables hold only assembler identities documented in the manuals (cited in the file); a pair is a violation "
    "only if both sides parse and differ",
    "unclassified (never a violation; counted per class and addressing-mode option; the unit is dropped from the claim by name): instances the "
    "normaliser cannot parse, encodings the reference reports invalid or crashes on (LLVM 14 lacks parts of avr, m68k, msp430 and crashes on "
    "msp430 'push @rN' and avr 'ldd/std q!=0': withheld), zero-length encodings.  Exception: mips Swr, invalid for certain per the manual",
    "integer operands ppci accepts although the field cannot hold them are not inputs of this property: when the reference reads a value r "
    "different from the printed p and ppci's own encoder maps p and r to the very same bytes (wrap modulo the field, dropped low bits, masked "
    "bits), the bytes are the correct encoding of r and accepting p is property C10's subject (counted: n_operand_not_representable_..._C10)",
    "label operands: only the non-label part is compared (relocated fields are C11's business; arm ADR, whose opcode bits are completed by its "
    "relocation, is compared by register only); data directives (db/dw/dd/dq/ds/.byte/.zero/.align/.section/dcd) are not instructions",
    "immediates are compared modulo the width where the syntaxes print signedness differently: arm/thumb 32 bit, msp430 16 bit (8 for .b), "
    "x86 operand size and 32-bit displacements, m68k operation size and 16-bit displacements, riscv li 32 bit, c.lui 20 bit",
    "equivalences taken as equal: mips effect-free writes to $zero = nop; msp430 constant-generator source forms (r3 = #0, @r3 = #2, @r3+ = #-1, "
    "@r2 = #4, @r2+ = #8, X(pc) = symbolic, X(sr) = absolute) and emulated instructions; avr lsl/rol/tst/clr = add/adc/and/eor Rd,Rd; "
    "16-bit Thumb data-processing mnemonics with and without S; riscv rvfx float operations on x registers (same encodings, Zfinx style)",
]
CLAIM = {
    "text": "Within insgen's operand domains, for every instruction class (and addressing-mode option) of the 8 decodable ISAs that is listed as "
            "claimed in the evidence, the bytes ppci emits decode (LLVM 14; x86-64 also GNU objdump) to the operation and operands ppci prints.",
    "note": "Trusted base: LLVM 14 decoders, GNU objdump, the normaliser tables in vf/gen/asmnorm.py, insgen's enumeration rule.  Units with any "
            "unclassified instance are dropped from the claim by name; out-of-field integer operands are left to C10.",
    "technique": "bounded exhaustive input enumeration, differential against independent disassemblers",
    "engine": "K1",
}

LIGHT_VARIANTS = {"riscv:rvc": "riscv", "riscv:rvf": "riscv", "riscv:rvfx": "riscv", "x86_64:x87": "x86_64"}
UNDECODABLE = ("or1k", "xtensa", "microblaze", "stm8", "mcs6500")
# relative cost of one architecture (number of jobs its classes are dealt into)
JOBS = {"x86_64": 8, "riscv": 3, "arm": 2, "msp430": 3, "m68k": 2, "avr": 1, "mips": 1, "arm:thumb": 1,
        "riscv:rvc": 1, "riscv:rvf": 1, "riscv:rvfx": 1, "x86_64:x87": 1}
NOT_INSTRUCTION_MODULES = ("ppci.arch.data_instructions", "ppci.arch.generic_instructions")


def config(tier):
    if tier == "quick":
        return {"mode": "sweep", "full_bits": 8}
    return {"mode": "product", "full_bits": 12}


def archs():
    from vf.gen import insgen
    from vf.oracles import llvmdis
    only = [a for a in os.environ.get("VF_ARCHS", "").split(",") if a]
    return [a for a in insgen.arch_names() if llvmdis.decodable(a) and (not only or a in only)]


def own_classes(an):
    """Classes of an architecture variant that are not the very same class objects in its base ISA."""
    from vf.gen import insgen
    ai = insgen.get_arch_info(an)
    if an not in LIGHT_VARIANTS:
        return list(ai.classes)
    base = set(map(id, insgen.get_arch_info(LIGHT_VARIANTS[an]).arch.isa.instructions))
    return [ci for ci in ai.classes if id(ci.cls) not in base]


def is_instruction(cls):
    return cls.__module__ not in NOT_INSTRUCTION_MODULES


def ctor_names(inst):
    """{top-level operand index: name of the nested constructor option sitting there}"""
    out = {}
    for i, v in enumerate(inst.ops):
        if v[0] == "c":
            out[i] = inst.ci.operands[i].options[v[1]].cls.__name__
    return out


def fmt_seq(seq):
    def f(o):
        if isinstance(o, tuple):
            if o[0] == "r":
                return "%s%d" % (o[1], o[2])
            if o == ("L",):
                return "<label>"
            return "%s(%s)" % (o[0], ",".join(f(x) for x in o[1:]))
        if isinstance(o, frozenset):
            return "{%s}" % ",".join(sorted(f(x) for x in o))
        return str(o)
    return " ; ".join("%s %s" % (s[0], ", ".join(f(o) for o in s[1])) for s in seq)


DATA_MNEMONICS = {"dcd", "db", "dw", "dd", "dq", "ds", ".byte", ".zero", ".align", ".section", "align", "section", "dcd2"}
def not_representable(inst, blob, p, r, mod=None):
    """ppci's encoder maps the printed value p and the value r the reference reads to the very same bytes: p is an alias outside the
    field's domain (wrapped modulo the field width, low bits dropped, masked) that ppci accepted instead of rejecting it.  That is
    property C10 (silent truncation); the bytes are the correct encoding of r, so no encoding table is wrong."""
    cands = [r]
    if mod:
        cands += [r - mod, r + mod]
    for path, v in inst.leaves():
        if v[0] != "i" or not (v[1] == p or (mod and (v[1] - p) % mod == 0)):
            continue
        for r2 in cands:
            if r2 == v[1]:
                continue
            try:
                if inst.replace(path, ("i", r2)).encode() == blob:
                    return True
            except Exception:  # noqa
                pass
    return False


def judge_one(an, inst, text, blob, dec, norm):
    """-> (verdict, detail)   verdict: ('ok', mn) | ('viol', [(key, what)]) | ('unc', reason) | ('skip', reason) | ('c10', mn)"""
    from vf.gen import asmnorm
    try:
        pseq = norm.ppci(inst.build())
    except asmnorm.Unparsed as e:
        if not blob:
            return ("skip", "zero-length-encoding"), None
        return ("unc", "ppci-text-not-parsed"), str(e)
    if pseq and pseq[0][0].rstrip("=") in DATA_MNEMONICS:
        return ("skip", "data-directive"), None
    if not blob:
        return ("unc", "zero-length-encoding"), None
    if dec is None:
        sure = SURE_INVALID.get((an, inst.cid))
        if sure:
            key = "%s/%s/invalid-encoding" % (an, inst.cid)
            return ("viol", [(key, "%s %s prints %r and encodes %s, which is not a valid encoding: %s" % (an, inst.cid, text, blob.hex(), sure))]), None
        return ("unc", "reference-rejects-or-cannot-decode"), None
    try:
        rseq = norm.ref(dec, blob)
    except asmnorm.Unparsed as e:
        return ("unc", "reference-text-not-parsed"), str(e)
    diff = asmnorm.compare(pseq, rseq)
    if diff is None:
        return ("ok", pseq[0][0]), None
    kind, n, det = diff
    gs = norm.generalise_seq(pseq) if hasattr(norm, "generalise_seq") else None
    what = ("%s %s prints %r and encodes %s, which the reference decodes as %r (canonical: ppci [%s] vs reference [%s])"
            % (an, inst.cid, text, blob.hex(), " ; ".join(dec), fmt_seq(pseq), fmt_seq(rseq)))
    if gs:
        return ("viol", [("%s/%s" % (an, gs), what)]), None
    if kind != "operands":
        return ("viol", [("%s/%s/%s" % (an, inst.cid, kind), what)]), None
    # operand differences: sort out what is another property's business and generalise the locus
    keys = []
    ct = ctor_names(inst)
    for i, prov, leaves in det:
        rest = []
        for pl, rl in leaves:
            if isinstance(pl, int) and isinstance(rl, int):
                if not_representable(inst, blob, pl, rl, getattr(norm, "MOD", None)):
                    continue
            g = norm.generalise(pseq[n][0], pl, rl) if hasattr(norm, "generalise") else None
            if g:
                keys.append("%s/%s" % (an, g))
                continue
            rest.append((pl, rl))
        if rest:
            owner = inst.cid
            # a difference inside a memory operand built by a nested addressing-mode constructor is that constructor's
            if prov and any(j in ct for j in prov) and isinstance(pseq[n][1][i], tuple) and pseq[n][1][i][0] in ("m", "sh"):
                owner = "+".join(sorted({ct[j] for j in prov if j in ct}))
            keys.append("%s/%s/operands" % (an, owner))
    if not keys:
        return ("c10", pseq[0][0]), None
    out = []
    for k in keys:
        if k not in [x[0] for x in out]:
            out.append((k, what))
    return ("viol", out), None


# encodings the reference rejects and that are invalid for certain according to the ISA manual (checked by hand, one line each)
SURE_INVALID = {
    ("mips", "Swr"): "SWR is major opcode 0b101110 (MIPS32 Architecture vol. II, SWR); 0b101100 is reserved in MIPS32 (SDL in MIPS64)",
}


def process(p, an, insts, rows=None):
    """Judge a list of instances of one architecture (one reference process)."""
    from vf.gen import asmnorm
    from vf.oracles import llvmdis
    norm = asmnorm.get(an)
    todo = []
    for inst in insts:
        try:
            text = inst.text()
            blob = inst.encode()
        except Exception:  # noqa   (insgen only yields encodable instances)
            p.count("not_input")
            continue
        todo.append((inst, text, blob))
    dec = llvmdis.disasm(an, [t[2] for t in todo])
    for h in llvmdis.CRASHES:
        p.collect("reference_decoder_crashes_on", "%s:%s" % (an, h))
    del llvmdis.CRASHES[:]
    p.count("reference_known_crash_encodings_withheld", len(llvmdis.KNOWN_CRASH_HITS))
    del llvmdis.KNOWN_CRASH_HITS[:]
    verdicts = []
    for (inst, text, blob), d in zip(todo, dec):
        if norm is None:
            v, detail = ("unc", "no-normaliser"), None
        else:
            try:
                v, detail = judge_one(an, inst, text, blob, d, norm)
            except Exception as e:  # noqa  a bug in the normaliser must never become a violation
                v, detail = ("unc", "normaliser-error-" + type(e).__name__), repr(e)
        verdicts.append([v, detail])
    if an.startswith("x86_64"):
        second_opinion_x86(p, an, todo, verdicts, norm)
    for (inst, text, blob), d, (v, detail) in zip(todo, dec, verdicts):
        p.add()
        opts = ctor_names(inst)
        cname = "%s:%s" % (an, inst.cid)
        if opts:
            cname += "[%s]" % ",".join(opts[i] for i in sorted(opts))
        if rows is not None:
            rows.append((inst, text, blob, d, v, detail))
        if v[0] == "ok":
            p.count("agree")
            p.count("ok:" + cname)
            opts = tuple(x[1] for x in inst.ops if x[0] == "c")
            p.outcome((an, inst.cid, opts, v[1], len(blob), "agree"))
            if inst.cid in SAMPLE_CLASSES and (an, inst.cid) not in _SAMPLED:
                _SAMPLED.add((an, inst.cid))
                p.sample({"arch": an, "class": inst.cid, "ppci_text": text, "bytes": blob.hex(), "reference": " ; ".join(d)})
        elif v[0] == "c10":
            # operand value not representable in its field (decodes to the value modulo the field): property C10, not an input here
            p.count("operand_not_representable_wrapped_or_truncated_C10")
            p.count("c10:" + cname)
        elif v[0] == "skip":
            p.count("not_an_instruction_" + v[1])
        elif v[0] == "unc":
            p.count("unclassified")
            p.count("unc:%s:%s" % (cname, v[1]))
        else:
            p.count("differ")
            p.count("viol:" + cname)
            for key, what in v[1]:
                p.collect("classes:" + key, inst.cid)
                p.outcome((an, inst.cid, key, "differ"))
                p.violation(key, what, inst.witness())


CHUNK = 40000
SAMPLE_CLASSES = ("addi_ins", "Ldr1", "mov_ins#3", "Sw", "Movw")
_SAMPLED = set()


def second_opinion_x86(p, an, todo, verdicts, norm):
    """x86-64 has a second independent decoder (GNU objdump): a difference reported against LLVM stands only if it is also a
    difference against objdump's reading of the same bytes; otherwise the two references disagree and the instance is unclassified."""
    from vf.oracles import llvmdis
    idx = [i for i, (v, _) in enumerate(verdicts) if v[0] == "viol"]
    if not idx:
        return
    dec2 = llvmdis.objdump_x86([todo[i][2] for i in idx])
    for i, d2 in zip(idx, dec2):
        inst, text, blob = todo[i]
        p.count("x86_second_opinions_objdump")
        if d2 is None:
            continue
        try:
            v2, _ = judge_one(an, inst, text, blob, d2, norm)
        except Exception:  # noqa
            continue
        if v2[0] in ("ok", "c10"):
            verdicts[i][0] = ("unc", "llvm-and-objdump-disagree")
            verdicts[i][1] = "objdump: " + " ; ".join(d2)


def worker(p, shard, cfg):
    from vf.gen import insgen
    for an, cids in shard:
        ai = insgen.get_arch_info(an)
        insts = []
        total = 0
        for cid in cids:
            ci = ai.by_cid[cid]
            n = 0
            for inst in insgen.class_instances(ci, cfg["mode"], cfg["full_bits"]):
                insts.append(inst)
                n += 1
                if len(insts) >= CHUNK:         # bounded memory: one reference process per CHUNK instances
                    total += len(insts)
                    process(p, an, insts)
                    insts = []
            p.count("classes")
            if n == 0:
                p.collect("unbuildable_classes", "%s:%s" % (an, cid))
        total += len(insts)
        p.count("instances:" + an, total)
        if insts:
            process(p, an, insts)


def jobs():
    out = []
    skipped = {}
    for an in archs():
        cls = own_classes(an)
        ins = [ci.cid for ci in cls if is_instruction(ci.cls)]
        skipped[an] = sorted(ci.cid for ci in cls if not is_instruction(ci.cls))
        k = max(1, min(JOBS.get(an, 1), len(ins)))
        for j in range(k):
            part = ins[j::k]
            if part:
                out.append((an, part))
    return out, skipped


def run(ctx):
    from vf.gen import insgen
    cfg = config(ctx.tier)
    js, skipped = jobs()
    ctx.note("config", cfg)
    ctx.note("archs_checked", archs())
    ctx.note("isas_excluded_no_reference_decoder", list(UNDECODABLE))
    ctx.note("data_directive_classes_not_instructions", {an: v for an, v in skipped.items() if v})
    if os.environ.get("VF_ARCHS"):
        ctx.cap("VF_ARCHS=%s restricts the architectures (development aid)" % os.environ["VF_ARCHS"])
    # heavy jobs first
    ctx.pmap(worker, js, extra=(cfg,), nshards=len(js))
    summarise(ctx)


def summarise(ctx):
    """Per claim unit (class, or class[nested addressing-mode options] for classes with constructor operands) the verdict counts;
    a unit is claimed when every instance agrees (or is a C10 out-of-domain operand) and none is unclassified."""
    per = {}
    for k, n in list(ctx.counters.items()):
        for pre in ("ok:", "unc:", "viol:", "c10:"):
            if k.startswith(pre):
                rest = k[len(pre):]
                if pre == "unc:":
                    cname, reason = rest.rsplit(":", 1)
                else:
                    cname, reason = rest, None
                d = per.setdefault(cname, {"ok": 0, "unc": {}, "viol": 0, "c10": 0})
                if pre == "ok:":
                    d["ok"] += n
                elif pre == "c10:":
                    d["c10"] += n
                elif pre == "viol:":
                    d["viol"] += n
                else:
                    d["unc"][reason] = d["unc"].get(reason, 0) + n
                del ctx.counters[k]
    per_isa = {}
    left_to_c10 = {}
    classes = {}      # an -> cid -> {unit: status}
    for cname in sorted(per):
        d = per[cname]
        an, unit = cname.rsplit(":", 1)
        cid = unit.split("[", 1)[0]
        s = per_isa.setdefault(an, {"classes": 0, "classes_fully_claimed": 0, "classes_partly_claimed": 0, "classes_without_claimed_unit": 0,
                                    "classes_with_violations": 0, "units": 0, "units_claimed": 0, "instances": 0, "agree": 0,
                                    "differ": 0, "unclassified": 0, "operand_not_representable_C10": 0})
        nunc = sum(d["unc"].values())
        s["units"] += 1
        s["instances"] += d["ok"] + d["viol"] + nunc + d["c10"]
        s["agree"] += d["ok"]
        s["differ"] += d["viol"]
        s["unclassified"] += nunc
        s["operand_not_representable_C10"] += d["c10"]
        if d["c10"]:
            left_to_c10.setdefault(an, {})
            left_to_c10[an][cid] = left_to_c10[an].get(cid, 0) + d["c10"]
        if d["viol"]:
            status = "violations"
        elif nunc:
            status = dict(d["unc"], agree=d["ok"])
        else:
            status = "claimed"
            s["units_claimed"] += 1
        classes.setdefault(an, {}).setdefault(cid, {})[unit] = status
    claimed, partly, dropped, violating = {}, {}, {}, {}
    for an, cs in classes.items():
        s = per_isa[an]
        for cid, units in sorted(cs.items()):
            s["classes"] += 1
            st = list(units.values())
            if any(x == "violations" for x in st):
                s["classes_with_violations"] += 1
                violating.setdefault(an, []).append(cid)
            if all(x == "claimed" for x in st):
                s["classes_fully_claimed"] += 1
                claimed.setdefault(an, []).append(cid)
            elif any(x == "claimed" for x in st):
                s["classes_partly_claimed"] += 1
                partly.setdefault(an, {})[cid] = {"claimed": sorted(u for u, x in units.items() if x == "claimed"),
                                                  "not_claimed": sorted(u for u, x in units.items() if x != "claimed")}
            else:
                s["classes_without_claimed_unit"] += 1
            for u, x in units.items():
                if isinstance(x, dict):
                    dropped.setdefault(an, {})[u] = x
    ctx.note("per_isa", per_isa)
    ctx.note("classes_claimed", claimed)
    ctx.note("classes_partly_claimed_by_addressing_mode", partly)
    ctx.note("units_dropped_from_claim_unclassified", dropped)
    ctx.note("classes_with_violations", violating)
    ctx.note("classes_with_out_of_field_operands_left_to_C10", left_to_c10)
    affected = {k[len("classes:"):]: sorted(v) for k, v in ctx.sets.items() if k.startswith("classes:")}
    for k in list(ctx.sets):
        if k.startswith("classes:"):
            del ctx.sets[k]
    ctx.note("affected_classes_per_key", affected)


def replay(w):
    from vf import core
    from vf.gen import insgen
    inst = insgen.from_witness(w)
    p = core.Partial()
    rows = []
    process(p, w["arch"], [inst], rows)
    if p.violations:
        k = sorted(p.violations)[0]
        return True, "[%s] %s" % (k, p.violations[k][1])
    if rows:
        return False, "%s %r: %s" % (inst.cid, rows[0][1], rows[0][4])
    return False, "direct encoding raises: not an input"
