"""C29 - code generation succeeds for supported IR on x86_64, arm, arm:thumb, riscv, riscv:rvc at every optimisation level."""
import io
import re

ID = "C29"
LEVEL = "exploration"
RULE = ("for each target in {x86_64, arm, arm:thumb, riscv, riscv:rvc} and each optimisation level in {0,1,2,s}: every case of the "
        "vf/gen/irgen29 families restricted to the value types the target declares -- every binary/unary operator x type x operand "
        "source (parameter, same parameter twice, loaded value, constant from V13 as right / V7 (thorough V13) as left operand, global address), every cast pair, every comparison, "
        "loads/stores through 7 address shapes x 18 offsets, global/function addresses as values, calls with 0..12 (thorough 16) "
        "arguments of every type and rotated type mixes to external/local/indirect callees with and without result, 4..16 (thorough 32) "
        "simultaneously live values of every type and of mixed widths (plain, across a call, as parameters, around div/rem/shift), phis, "
        "undefined values, memcpy sizes, frame sizes up to 70000 bytes, irgen L1 (k<=2) / L2 / L3 (every CFG skeleton <= 3 blocks) / L4 / L5 "
        "and the C corpus through the C front end for that target; optimize(level) then ir_to_object must return; "
        "distinct non-trivial = distinct (target, family, type/operator, level, machine-code size of the batch)")
ASSUMPTIONS = [
    "a value type is 'supported' by a target iff it is listed in the ir_types of one of the target's register classes "
    "(arch.info.value_classes) and has an entry in arch.info.type_infos; modules mentioning any other value type are outside the property and are skipped (counted)",
    "every generated module is checked with ppci.irutils.verify_module before use; a module the verifier rejects is a harness error, never a violation",
    "cases are compiled in batches of <= 24 functions per module (functions renamed apart, identical globals/externals shared; C-corpus, L4, "
    "pressure and misc cases one module each); when ir_to_object fails on a batch, every member is compiled separately with one reused "
    "ppci.codegen.CodeGenerator (an attribution accelerator, never the verdict): members that fail there are confirmed alone through "
    "ir_to_object -- the first (lowest-order) one per locus key and worker; later ones at an already confirmed key are counted, not re-confirmed -- "
    "and the remaining members are recompiled together through ir_to_object; a batch whose members all pass alone is reported with the batch as witness",
    "optimisation levels whose optimised module prints to the same IR text as an already compiled level of the same batch are counted as covered by that compilation",
    "failures inside ppci.api.optimize are the optimiser's (C02/C03) and are counted as unclassified here, except CPU time-outs",
    "ir_to_object is called with its defaults (no debug info, opt='speed'), as ppci.api.cc does",
    "keys: riscv:rvc failures that reproduce identically on riscv are keyed under riscv (shared base pattern table); failures after register "
    "allocation with no target-specific frame on the stack and no instruction involved are keyed under 'any'",
]
CLAIM = {"text": "inside the enumerated bound no supported IR module makes ir_to_object fail on the five mature target configurations at any optimisation level, apart from listed known findings",
         "note": "trusted: irgen/irgen29 build well-formed IR (checked by ppci's verifier); success means 'returns an object', correctness of the code is C04/C05",
         "technique": "bounded exhaustive enumeration of IR shapes x targets x levels", "engine": "K1"}

TARGETS = ["x86_64", "arm", "arm:thumb", "riscv", "riscv:rvc"]
FAMILY = {"x86_64": "x86_64", "arm": "arm", "arm:thumb": "thumb", "riscv": "riscv", "riscv:rvc": "rvc"}
LEVELS = ["0", "1", "2", "s"]
BATCH = 24
ALONE = ("c", "l4", "misc", "press")      # families compiled one module per case
CPU_S = 60


# ------------------------------------------------------------------------------------------------ supported types

def supported_types(arch):
    """Names of the value types the target declares (see ASSUMPTIONS[0]); 'ptr' is included when declared."""
    from ppci import ir
    from vf.gen import irgen
    out = []
    for name in irgen.INT_TYPES + irgen.FLOAT_TYPES:
        ty = ir.get_ty(name)
        if ty in arch.info.value_classes and ty in arch.info.type_infos:
            out.append(name)
    if ir.ptr in arch.info.value_classes and "ptr" in arch.info.type_infos:
        out.append("ptr")
    return out


def module_types(m):
    """Names of all value types a module mentions (parameters, results, every value, externals)."""
    from ppci import ir
    seen = set()

    def add(ty):
        if ty is None:
            return
        if getattr(ty, "is_blob", False):
            return
        seen.add("ptr" if ty is ir.ptr else str(ty))

    for e in m.externals:
        for t in getattr(e, "argument_types", []):
            add(t)
        add(getattr(e, "return_ty", None))
    for f in m.functions:
        add(getattr(f, "return_ty", None))
        for a in f.arguments:
            add(a.ty)
        for b in f.blocks:
            for i in b.instructions:
                if isinstance(i, ir.Value):
                    add(i.ty)
    return seen


# ------------------------------------------------------------------------------------------------ building

def make_module(idents, target):
    """Module for one case or a batch of cases.  C-corpus cases are never batched."""
    from vf.gen import irgen29
    if len(idents) == 1 and idents[0]["f"] == "c":
        from ppci.api import get_arch
        from ppci.lang.c import c_to_ir, COptions
        from vf.gen import ccorpus
        src = dict(ccorpus.CORPUS)[idents[0]["name"]]
        return c_to_ir(io.StringIO(src), get_arch(target), COptions())
    descs = [irgen29.make(i) for i in idents]
    if len(descs) == 1:
        return irgen29.build(descs[0])
    return irgen29.build(irgen29.merge(descs))


def module_text(m):
    from ppci.irutils import print_module
    f = io.StringIO()
    print_module(m, file=f, verify=False)
    return f.getvalue()


class Failure(Exception):
    def __init__(self, stage, exc):
        self.stage, self.exc = stage, exc


def prepare(idents, target, level, verify=True):
    """-> ('ok', module after optimize(level)) | ('unsupported', [types]); raises Failure('optimize', exc).
    Harness problems (ill-formed generated module) raise normally."""
    from ppci.api import get_arch, optimize
    from ppci.irutils import verify_module
    from vf.core import cpu_limit, CpuTimeout
    arch = get_arch(target)
    m = make_module(idents, target)
    extra = module_types(m) - set(supported_types(arch))
    if extra:
        return "unsupported", sorted(extra)
    if verify:
        verify_module(m)
    try:
        with cpu_limit(CPU_S):
            optimize(m, level=level)
    except CpuTimeout as e:
        raise Failure("optimize", e)
    except Exception as e:  # noqa
        raise Failure("optimize", e)
    return "ok", m


def codegen(m, target):
    """The judged call: ppci.api.ir_to_object([module], arch) -> code size; raises Failure('codegen', exc)."""
    from ppci.api import get_arch, ir_to_object
    from vf.core import cpu_limit, CpuTimeout
    try:
        with cpu_limit(CPU_S):
            obj = ir_to_object([m], get_arch(target))
    except CpuTimeout as e:
        raise Failure("codegen", e)
    except Exception as e:  # noqa
        raise Failure("codegen", e)
    for s in obj.sections:
        if s.name == "code":
            return s.size
    return 0


def compile_once(idents, target, level):
    """-> ('ok', code size) | ('unsupported', types); raises Failure(stage, exc)."""
    st, m = prepare(idents, target, level)
    if st != "ok":
        return st, m
    return "ok", codegen(m, target)


_drivers = {}


def drive(ident, target, level):
    """Attribution accelerator (never the verdict): compile one case with a per-process CodeGenerator that is reused, i.e.
    ir_to_stream without constructing the pattern matcher again.  -> None | exception."""
    from ppci.api import get_arch
    from ppci.codegen.codegen import CodeGenerator
    from ppci.utils.reporting import DummyReportGenerator
    from ppci.binutils.objectfile import ObjectFile
    from ppci.binutils.outstream import BinaryOutputStream, MasterOutputStream, FunctionOutputStream
    from vf.core import cpu_limit, CpuTimeout
    arch = get_arch(target)
    st, m = prepare([ident], target, level)
    if st != "ok":
        return None
    try:
        with cpu_limit(CPU_S):
            cg = _drivers.get(target)
            if cg is None:
                cg = _drivers[target] = CodeGenerator(arch, DummyReportGenerator(), optimize_for="speed")
            sink = []
            stream = MasterOutputStream([BinaryOutputStream(ObjectFile(arch)), FunctionOutputStream(sink.append)])
            cg.generate(m, stream)
    except CpuTimeout as e:
        _drivers.pop(target, None)
        return e
    except Exception as e:  # noqa
        _drivers.pop(target, None)      # never reuse a generator that was interrupted mid-function
        return e
    return None


# ------------------------------------------------------------------------------------------------ keys

def _frames(exc):
    tb = exc.__traceback__
    out = []
    while tb is not None:
        out.append(tb.tb_frame)
        tb = tb.tb_next
    return out


def _uncovered(tree):
    for c in tree.children:
        u = _uncovered(c)
        if u is not None:
            return u
    st = getattr(tree, "state", None)
    if st is not None and not st.labels:
        return tree
    return None


def stage_of(exc):
    names = [f.f_code.co_name for f in _frames(exc)]
    for fn, st in (("select_and_schedule", "select"), ("alloc_frame", "regalloc"), ("emit_frame_to_stream", "emit"), ("generate_global", "data")):
        if fn in names:
            return st
    return "codegen"


def feature_of(exc):
    """A word from a small vocabulary refining the exception locus.  'Tree not covered': the lowest tree node that no rule labels --
    just its operator+type when the target has no rule for it at all, else with its children summarised as CONST/reg;
    NotImplementedError: the kinds of the argument/location being handled; otherwise the instruction class being built/encoded."""
    from vf.core import CpuTimeout
    if isinstance(exc, CpuTimeout):
        return "cpu-timeout"
    frames = _frames(exc)
    for f in frames:
        if f.f_code.co_name == "gen" and "tree" in f.f_locals and "not covered" in str(exc):
            tree = f.f_locals["tree"]
            try:
                u = _uncovered(tree)
            except Exception:  # noqa
                u = None
            if u is None:
                return "uncovered:%s/no-stm" % tree.name
            try:
                has_rules = bool(list(f.f_locals["self"].sys.get_rules_for_root(u.name)))
            except Exception:  # noqa
                has_rules = True
            if not has_rules:
                return "uncovered:%s" % u.name          # the target's pattern table has no rule at all for this operator+type
            # rules exist but none applies (operand kind / constant class / condition): children are summarised as CONST or reg
            return "uncovered:%s(%s)" % (u.name, ",".join("CONST" if c.name.startswith("CONST") else "reg" for c in u.children))
    msg = str(exc)
    m = re.search(r"Tree (\w+)", msg)
    if m and "not covered" in msg:
        return "uncovered:" + m.group(1)
    if isinstance(exc, NotImplementedError):
        inner = [f for f in frames if "/ppci/" in f.f_code.co_filename]
        kinds = []
        if inner:
            loc = inner[-1].f_locals
            for name in (("push_reg",) if loc.get("push_reg") is not None else ("arg_loc", "arg")):
                v = loc.get(name)
                if v is not None:
                    kinds.append("%s=%s" % (name, type(v).__name__))
        if kinds:
            return "nyi:" + ",".join(kinds)
        w = re.sub(r"0x[0-9a-f]+", "", msg)
        w = re.sub(r"vreg\d+\w*", "vreg", w)
        w = w.split(".")[-1] if w.startswith("<class") else w
        w = re.sub(r"[^A-Za-z0-9_ ]", "", w)[:60].strip().replace(" ", "_")
        return "nyi:" + w if w else "nyi"
    if "spill rounds" in msg:
        return "regalloc-give-up"
    # instruction class under construction / encoding (innermost frame whose self is an ppci Instruction)
    try:
        from ppci.arch.encoding import Instruction
        for f in reversed(frames):
            s = f.f_locals.get("self")
            if isinstance(s, Instruction):
                return "ins:" + type(s).__name__
            c = f.f_locals.get("cls")
            if isinstance(c, type) and issubclass(c, Instruction):
                return "ins:" + c.__name__
    except Exception:  # noqa
        pass
    return ""


def key_of(target, fail):
    from vf.core import exc_key, CpuTimeout
    stage = fail.stage if fail.stage == "optimize" else stage_of(fail.exc)
    feat = feature_of(fail.exc)
    if isinstance(fail.exc, CpuTimeout):
        return "%s/%s/CpuTimeout" % (FAMILY[target], stage)
    fam = FAMILY[target]
    if not feat and stage in ("emit", "data", "codegen") and not any(re.search(r"/ppci/arch/\w+/", f.f_code.co_filename) for f in _frames(fail.exc)):
        fam = "any"     # no target-specific code on the stack and no instruction involved: target-independent part of the code generator
    k = exc_key("%s/%s" % (fam, stage), fail.exc)
    return k + ("/" + feat if feat else "")


def ub_suffix(ident):
    from vf.gen import irgen29
    if ident.get("f") == "bin" and irgen29.operand_is_undefined(ident["ty"], ident["op"], ident["b"]):
        return "/undefined-operand"
    return ""


def full_key(target, fail, ident):
    """Locus key of a single case's failure; an operator+type without any pattern is one locus whatever the operands are."""
    k = key_of(target, fail)
    if isinstance(ident, dict):
        m = re.search(r"/uncovered:(\w+)(\(.*\))?$", k)
        if m and (m.group(2) is None or not m.group(1).startswith(("SHL", "SHR", "DIV", "REM"))):
            return k        # no pattern at all for the operator, or the uncovered node is not the operator: operands do not matter
        k += ub_suffix(ident)
    return k


def describe(ident):
    import json
    return json.dumps(ident, sort_keys=True)


# ------------------------------------------------------------------------------------------------ evaluation

def fam_tag(ident):
    return (ident["f"], ident.get("ty", ""), ident.get("op", ident.get("k", ident.get("to", ""))))


def _is_timeout(exc):
    from vf.core import CpuTimeout
    return isinstance(exc, CpuTimeout)


def report(p, target, level, ident, fail, order):
    """Record a failure of one case (ident is a list for an unattributable batch) observed through ir_to_object."""
    single = not isinstance(ident, list)
    if fail.stage == "optimize" and not _is_timeout(fail.exc):
        from vf.core import exc_key
        p.count("unclassified_optimize_stage_failures")
        p.collect("unclassified_optimize_failures", exc_key("optimize", fail.exc))
        return
    key = full_key(target, fail, ident)
    if target == "riscv:rvc" and single:
        # shared base table: the same failure on plain riscv -> key it there
        try:
            compile_once([ident], "riscv", level)
        except Failure as f2:
            k2 = full_key("riscv", f2, ident)
            if k2.split("/", 1)[1] == key.split("/", 1)[1]:
                key = k2
        except Exception:  # noqa
            pass
    what = "%s -O%s: %s raised %s: %s  [case %s]" % (target, level, "optimize" if fail.stage == "optimize" else "ir_to_object", type(fail.exc).__name__,
                                                      str(fail.exc)[:160].replace("\n", " "), describe(ident)[:300])
    wit = {"target": target, "level": level, "cases": [ident] if single else ident}
    # ties between targets sharing a key (riscv / riscv:rvc, 'any') go to the earlier target in TARGETS
    p.violation(key, what, wit, order=order + TARGETS.index(target) / 10.0)
    p.collect("failing_families_" + FAMILY[target], (ident[0] if not single else ident)["f"])


def passed(p, target, level, idents, size):
    p.add(len(idents))
    p.count("compiled_" + FAMILY[target], len(idents))
    p.outcome((target, fam_tag(idents[0]), level, size))
    p.collect("families_" + FAMILY[target], idents[0]["f"])


def run_batch(p, target, idents, order0, witnessed):
    """All four levels of one batch.  `witnessed`: raw keys already confirmed through ir_to_object in this worker."""
    seen = set()
    for level in LEVELS:
        try:
            st, m = prepare(idents, target, level, verify=(level == LEVELS[0]))   # the same module is rebuilt for the other levels
        except Failure as fail:
            if len(idents) == 1:
                p.add()
                report(p, target, level, idents[0], fail, order0)
            else:
                singles(p, target, level, list(enumerate(idents)), order0, witnessed)
            continue
        if st == "unsupported":
            if len(idents) == 1:
                p.count("skipped_unsupported_type_cases")
                p.collect("skipped_unsupported", "%s:%s:%s" % (target, idents[0].get("name", idents[0]["f"]), ",".join(m)))
            else:
                for k, i in enumerate(idents):
                    run_batch(p, target, [i], order0 + k, witnessed)
            return
        text = module_text(m)
        if text in seen:
            # identical input to the code generator as an earlier level of this batch: same outcome
            p.count("level_cases_identical_ir_text", len(idents))
            continue
        seen.add(text)
        try:
            size = codegen(m, target)
        except Failure as fail:
            attribute(p, target, level, idents, fail, order0, witnessed)
            continue
        passed(p, target, level, idents, size)


def singles(p, target, level, members, order0, witnessed):
    """Every member [(index in batch, ident)] alone through the public entry point; -> whether any failed."""
    found = False
    for k, i in members:
        try:
            st, size = compile_once([i], target, level)
            if st == "ok":
                passed(p, target, level, [i], size)
        except Failure as f1:
            p.add()
            found = True
            witnessed.add(full_key(target, f1, i))
            report(p, target, level, i, f1, order0 + k)
    return found


def attribute(p, target, level, idents, fail, order0, witnessed):
    """A batch failed in ir_to_object: find the members responsible."""
    if len(idents) == 1:
        p.add()
        witnessed.add(full_key(target, fail, idents[0]))
        report(p, target, level, idents[0], fail, order0)
        return
    failing, passing = [], []
    for k, i in enumerate(idents):
        e = drive(i, target, level)
        (failing if e is not None else passing).append((k, i, e))
    if not failing:
        if not singles(p, target, level, list(enumerate(idents)), order0, witnessed):
            p.count("batch_only_failures")
            report(p, target, level, idents, fail, order0)
        return
    for k, i, e in failing:
        raw = full_key(target, Failure("codegen", e), i)
        if raw in witnessed:
            # same locus as a failure already confirmed (with a lower order) through ir_to_object in this worker
            p.add()
            p.count("failing_cases_at_witnessed_key")
            continue
        try:
            st, size = compile_once([i], target, level)
        except Failure as f1:
            p.add()
            witnessed.add(full_key(target, f1, i))
            report(p, target, level, i, f1, order0 + k)
            continue
        p.count("unclassified_driver_only_failures")     # fails with a reused CodeGenerator, passes through ir_to_object: not judged
        if st == "ok":
            passed(p, target, level, [i], size)
    if passing:
        rest = [i for _, i, _ in passing]
        try:
            st, size = compile_once(rest, target, level)
            if st == "ok":
                passed(p, target, level, rest, size)
        except Failure as f2:
            if len(rest) == 1:
                p.add()
                witnessed.add(full_key(target, f2, rest[0]))
                report(p, target, level, rest[0], f2, order0 + passing[0][0])
            elif not singles(p, target, level, [(k, i) for k, i, _ in passing], order0, witnessed):
                p.count("batch_only_failures")
                report(p, target, level, rest, f2, order0)


def worker(p, shard):
    witnessed = set()
    for target, order0, idents in shard:
        run_batch(p, target, idents, order0, witnessed)


def batches(cases):
    """Consecutive cases of one (family, type) go into batches of <= BATCH; C-corpus modules are compiled alone."""
    out, cur, tag = [], [], None
    for i, c in enumerate(cases):
        t = (c["f"], c.get("ty"), c.get("op") if c["f"] in ("bin", "cmp") else None)
        if c["f"] in ALONE or t != tag or len(cur) >= BATCH:
            if cur:
                out.append(cur)
            cur, tag = [], t
        cur.append((i, c))
        if c["f"] in ALONE:
            out.append(cur)
            cur, tag = [], None
    if cur:
        out.append(cur)
    return out


def run(ctx):
    from ppci.api import get_arch
    from vf.gen import irgen29
    items = []
    bounds = {}
    for target in TARGETS:
        types = supported_types(get_arch(target))
        cases = irgen29.enumerate_cases(types, ctx.tier, ctx.seed)
        fams = {}
        for c in cases:
            fams[c["f"]] = fams.get(c["f"], 0) + 1
        bounds[target] = {"supported_types": types, "cases": len(cases), "by_family": fams}
        for b in batches(cases):
            items.append((target, b[0][0], [c for _, c in b]))
    ctx.note("bounds", bounds)
    ctx.note("levels", LEVELS)
    ctx.note("batch_size", BATCH)
    ctx.sample({"target": "arm", "level": "0", "case": {"f": "bin", "ty": "i8", "op": "%", "a": "P", "b": ["C", 3]}})
    ctx.sample({"target": "x86_64", "level": "2", "case": {"f": "call", "n": 9, "tys": ["f32"] * 9, "ret": "f32", "to": "loc", "args": "P"}})
    ctx.sample({"target": "riscv:rvc", "level": "s", "case": {"f": "press", "tys": ["i32"], "n": 12, "m": "call"}})
    # heavy items (pressure, corpus, big batches) are spread by interleaving
    ctx.pmap(worker, items, nshards=min(len(items), 256))


def replay(w):
    target, level, cases = w["target"], w["level"], w["cases"]
    try:
        st, info = compile_once(cases, target, level)
    except Failure as fail:
        if fail.stage == "optimize" and not _is_timeout(fail.exc):
            return False, "optimize raised %r (not judged by C29)" % (fail.exc,)
        key = full_key(target, fail, cases[0]) if len(cases) == 1 else key_of(target, fail)
        return True, "%s: %s -O%s raised %s: %s" % (key, target, level, type(fail.exc).__name__, str(fail.exc)[:200])
    return False, "ir_to_object returned (%s, code size %s)" % (st, info)
