"""C37 - C3 front end vs gcc: one abstract typed program rendered as C3 and as C; c3_to_ir + reference IR interpreter vs gcc+UBSan."""
import io
import contextlib

ID = "C37"
LEVEL = "exploration"
RULE = ("abstract, explicitly typed programs of vf/gen/c3gen.py rendered as C3 and as C: E1 every operator (10 arithmetic, 6 comparisons, "
        "unary minus, 5 shorthand assignments) in each of the 10 integer type names, float/double arithmetic, bool logic, constants; CAST "
        "every explicit cast pair over 12 types and every implicit conversion at return/assignment/argument; CASTCHAIN two casts; W mixed "
        "operand types (coercion table) and narrow intermediates; LIT literal operands; ASSOC unparenthesised chains; E2/E2F/E2M/E3 depth-2 "
        "expressions (one type: all operator pairs; three types: the coercions inserted; comparison / unary / cast at the root); COND "
        "short-circuit conditions of depth <= 2 as value / branch / loop condition, with side-effecting right operands; S statement "
        "skeletons of nesting depth <= 2 over if, if/else, while, for, switch, return, calls; A aggregates (struct fields, nested structs, "
        "arrays, initialisers, pointers, sizeof); X shorthand assignment through every lvalue kind, bool storage, typedefs, literal "
        "conditions, scoping; CONST constant expressions of depth <= 2 in const definitions and global initialisers; MOD two modules; GI global initial values (every "
        "scalar type as scalar / array element / struct field in 2-3 spellings, aggregates nested to depth 2, run-time initialisers of local "
        "structs); STR string literals (5 texts of length 0..20 x 4 contexts, every character, the length-prefixed layout through a byte "
        "pointer); PCAST integer <-> pointer casts for all 10 integer types, round trips, address differences, byte views, pointer "
        "coercions, byte-wise pointer +- int; EXT external functions (result x parameter type matrix, 19 call shapes, implicit argument "
        "conversions, externals of an imported module) with the external call trace compared; REC self-referential and mutually "
        "referential structs through pointers; MODX mutual imports, a module in two sources, import chains, qualified types / variables / "
        "constants; KUSE constants of every type, constant expressions with casts / floats / narrow types, constants as array sizes, loop "
        "bounds, case labels, initial values; COERCE implicit conversion at local initialisers, shorthand assignment, array index, switch "
        "selector and in if / while / for conditions over all type pairs; plus, per family, the programs ppci's own tests / the coercion "
        "table say are not C3 (wrong initialiser shape, by-value recursion, private access, non-bool condition, every non-implicit type "
        "pair ...) which must be refused with a diagnostic; each "
        "function is called on the product of boundary values of its parameter types (cap 64) or on {-7..7}^2; the gcc rendering decides "
        "the expected return value and scalar/array globals; calls with undefined behaviour (UBSan trap, signal, narrow-type overflow "
        "marker) are discarded; distinct non-trivial = distinct (family, feature class, returned value)")
ASSUMPTIONS = ["gcc 12.2 -O0 -fsanitize=undefined -fsanitize-undefined-trap-on-error on x86-64 is the conforming C compiler (arithmetic >> on signed, "
               "modulo narrowing casts); trap mode because UBSan's reporting runtime mentions each source location only once per process",
               "C3's type sizes are those of ppci's x86_64 description: int 32 bits, byte 8, bool stored as int, pointers 64 bits",
               "the C rendering makes explicit what C3 leaves implicit: arithmetic in types narrower than int is converted back to that "
               "type (unsigned: modulo; signed: the call is discarded when the result does not fit), every switch case ends in break, "
               "and/or/not are && || !, cast<T>(e) is (T)e; nothing relies on C's integer promotions or precedence (full parentheses)",
               "vf/sem/irinterp.py executes ppci's IR (validated against gcc by C01 and against ir2py by C24)",
               "layout facts of C3 that the C rendering spells out because C has no counterpart: a string is a pointer to {int length; byte "
               "text[length]} with no terminator and no escape sequences (scope.create_top_scope, context.pack_string, librt/io.c3), rendered as a "
               "C object of that shape; structs have no padding (context.size_of = sum of the members), used only where sizeof of a struct is "
               "returned, never for field access; pointer +- int adds the integer to the address without scaling (codegenerator.gen_binop; "
               "test_pointer_arithmatic), rendered through char *; integer <-> pointer casts behave as gcc's (value preserving, extension by "
               "the signedness of the source, truncation to the target width); addresses themselves are never compared between the two sides, "
               "only differences, round trips and what is read through them",
               "an external function has the same fixed semantics on both sides (c3gen.ext_c_def / c37.make_external: result = 3 * sum of the "
               "argument words + id + 1, int* arguments are read and incremented, strings are read); the sequence of external calls with their "
               "argument values is part of the observation.  Operands and arguments are evaluated left to right in C3 (one instruction stream, "
               "no unsequenced evaluation): the C rendering sequences calls with side effects through temporaries in that order",
               "a constant expression has the value the same expression has at run time (C3 types it by the same rules: check_module coerces "
               "every constant to its declared type), so the C rendering computes byte arithmetic modulo 256 and float conversions in single precision",
               "programs expected to be refused: a diagnostic is the expected outcome; an accepted one or an internal error is listed "
               "(invalid_accepted_programs, invalid_internal_errors), never reported here.  In the extension families (GI STR PCAST EXT REC MODX "
               "KUSE COERCE) an internal front-end error on a valid program is listed too (c3_crash_loci): property C28 runs the same programs "
               "and owns that verdict; a diagnostic on a construct that ppci's documentation / tests use is listed in c3_rejected_documented",
               "a program the C3 front end rejects with a diagnostic is counted and listed, not judged (it is then not a program of the "
               "language ppci defines); an internal error (any exception other than a compiler diagnostic) on a program whose C rendering "
               "runs defined is a violation: no IR was generated"]
CLAIM = {"text": "inside the enumerated subset (operators, conversions, statements, aggregates, initial values, strings, pointer casts, externals, "
                 "recursive types, modules, constants) every C3 program the front end accepts returns the value, leaves the globals and makes the "
                 "external calls that gcc gives for the C rendering of the same program; the listed invalid programs are refused",
         "note": "trusted: gcc+UBSan, the reference IR interpreter, the C rendering rules in ASSUMPTIONS; internal front-end errors of the extension families are left to C28",
         "technique": "bounded exhaustive enumeration of typed programs rendered as C3 and C, executed on the real front end, against gcc+UBSan",
         "engine": "K1 input enumeration vs gcc"}

C3_BATCH = 24
# families whose internal front-end errors are listed (set c3_crash_loci) instead of reported: property C28 owns them
LISTED_CRASH_FAMILIES = ("GI", "STR", "PCAST", "EXT", "REC", "MODX", "KUSE", "COERCE")


def compile_c3(texts):
    """-> ('ok', module) | ('rejected', msg) | ('crash', exc)"""
    from ppci.api import c3_to_ir, get_arch
    from ppci.common import CompilerError
    from ppci.build.tasks import TaskError
    sink = io.StringIO()
    try:
        with contextlib.redirect_stdout(sink), contextlib.redirect_stderr(sink):
            m = c3_to_ir([io.StringIO(t) for t in texts], [], get_arch("x86_64"))
        return ("ok", m)
    except (TaskError, CompilerError) as e:
        msg = sink.getvalue()
        errs = [ln.split("Error:", 1)[1].strip() for ln in msg.splitlines() if "Error:" in ln]
        return ("rejected", (errs[0] if errs else str(e))[:80])
    except Exception as e:  # noqa
        return ("crash", e)


def c3_sources(cases, idxs):
    """Module m holds the functions of all cases of the batch (an `import` line of a case moves to the top); further modules of a
    case are separate sources."""
    imports, body, extra = [], [], []
    for k in idxs:
        for ln in cases[k]["c3"].replace("@", "_%d" % k).splitlines():
            (imports if ln.startswith("import ") else body).append(ln)
        extra += [t.replace("@", "_%d" % k) for t in cases[k].get("c3mods", [])]
    return ["module m;\n" + "\n".join(imports + body) + "\n"] + extra


def compile_batch(cases, idxs, out):
    """Compile the cases of idxs as one C3 module; bisect when the module as a whole fails."""
    st = compile_c3(c3_sources(cases, idxs))
    if st[0] == "ok":
        for k in idxs:
            out[k] = st
        return
    if len(idxs) == 1:
        out[idxs[0]] = st
        return
    h = len(idxs) // 2
    compile_batch(cases, idxs[:h], out)
    compile_batch(cases, idxs[h:], out)


M64 = (1 << 64) - 1


def make_external(x, trace):
    """The interpreter-side twin of c3gen.ext_c_def: append (id, one word per argument) to the trace; result = 3 * (sum of the argument
    words) + id + 1 modulo 2^64 converted to the result type; an int* argument contributes the pointed-to value, which is then
    incremented; a string argument contributes its length and a hash of its text (read through the documented layout)."""
    import struct

    def s64(v):
        v &= M64
        return v - (1 << 64) if v >> 63 else v

    def call(it, args):
        trace.append(x["id"])
        s = 0
        for t, a in zip(x["params"], args):
            if t in ("float", "double"):
                trace.append(struct.unpack("<Q", struct.pack("<d", float(a)))[0])
                s += int(a)
            elif t == "int*":
                v = int.from_bytes(it.read_bytes(a, 4), "little", signed=True)
                trace.append(v & M64)
                s += v
                it.write_bytes(a, ((v + 1) & 0xFFFFFFFF).to_bytes(4, "little"))
            elif t == "string":
                n = int.from_bytes(it.read_bytes(a, 4), "little", signed=True)
                h = 0
                for ch in it.read_bytes(a + 4, n) if n > 0 else b"":
                    h = (h * 31 + ch) & M64
                trace.extend([n & M64, h])
                s += n
            else:
                trace.append(int(a) & M64)
                s += int(a)
        r = (3 * s + x["id"] + 1) & M64
        rt = x["ret"]
        if rt == "void":
            return None
        if rt == "bool":
            return r & 1
        if rt in ("float", "double"):
            return float(s64(r)) + 0.5
        return r
    return call


def run_ppci(m, k, case, vec):
    """-> ('ok', ret, {global: hex}, external call trace) | ('undef'|'horizon'|'unsupported', msg)"""
    from vf.sem.irinterp import Interp, Undefined, Horizon, Unsupported
    try:
        suffix = "_%d" % k
        trace = []
        ext = {("%s_%s" % (x["mod"], x["name"])).replace("@", suffix): make_external(x, trace) for x in case.get("externs", [])}
        it = Interp(m, ptr_size=8, max_steps=40000, externals=ext)
        r = it.call("m_f_%d" % k, vec)
        names = {"m_" + g.replace("@", suffix): g.replace("@", suffix) for g in case["cmp_globals"]}
        mem = {names[n]: bytes(reg.data[:reg.size]).hex() for n, reg in it.globals if n in names}
        if case.get("externs") and [n for n, _ in it.trace if n not in ext]:
            return ("unsupported", "call of an external the harness did not define: %r" % [n for n, _ in it.trace if n not in ext][:1])
        return ("ok", r, mem, trace)
    except Undefined as e:
        return ("undef", str(e))
    except Horizon as e:
        return ("horizon", str(e))
    except Unsupported as e:
        return ("unsupported", str(e))
    except RecursionError:
        return ("horizon", "recursion")


def c_trace(case, k, mem):
    """The external call trace the C rendering recorded (None when the case has no externals)."""
    if not case.get("externs"):
        return None
    suffix = "_%d" % k
    n = int.from_bytes(bytes.fromhex(mem["vf_tn" + suffix]), "little", signed=True)
    raw = bytes.fromhex(mem["vf_tr" + suffix])
    words = [int.from_bytes(raw[i:i + 8], "little") for i in range(0, len(raw), 8)]
    return n, words[:min(n, 64)]


def same(a, b):
    if isinstance(a, float) or isinstance(b, float):
        import struct
        if a is None or b is None:
            return False
        if a != a and b != b:
            return True
        return struct.pack("<d", float(a)) == struct.pack("<d", float(b))
    return a == b


def generalise(case):
    """Locus: family / mechanism / operator / signedness and width class relative to int (s<int, sint, s>int, u<int, uint, u>int)."""
    from vf.gen import c3gen

    def cls(t):
        if t not in c3gen.INTS:
            return t
        b, sg = c3gen.INTS[t]
        return ("s" if sg else "u") + ("<int" if b < 32 else ("int" if b == 32 else ">int"))

    if case.get("locus"):
        # several forms of one mechanism share a locus
        return case["fam"] + "/" + case["locus"]
    parts = case["feat"].split("/")
    out = []
    for x in parts:
        if "->" in x:
            out.append("->".join(cls(a) for a in x.split("->")))
        else:
            out.append(cls(x))
    return case["fam"] + "/" + "/".join(out)


def const_locus(case):
    """For a wrong constant expression: the first sub-expression (post-order) which, evaluated on the C values of its operands, is
    already wrong as a constant of its own -> its operator; else the composition."""
    from vf.gen import c3gen
    kind = case["feat"].split("/")[0]
    for node in c3gen.const_subtrees(case["const_tree"]):
        a = c3gen.const_value_defined(tojson_tuple(node[1]))
        b = c3gen.const_value_defined(tojson_tuple(node[2]))
        want = c3gen.const_value_defined((node[0], a, b)) if a is not None and b is not None else None
        if want is None:
            continue
        lit = lambda v: v if v >= 0 else ("-", 0, -v)  # noqa  (C3 has no negative literals in constant expressions)
        probe = c3gen.const_cases((node[0], lit(a), lit(b)), kind == "global-init")[-1]
        sts = {}
        compile_batch([probe], [0], sts)
        name = {"+": "add", "-": "sub", "*": "mul", "/": "div", "%": "mod"}[node[0]]
        if sts[0][0] != "ok":
            return "CONST/%s/%s" % (kind, name)
        r = run_ppci(sts[0][1], 0, probe, [0])
        if r[0] != "ok" or r[1] != want:
            return "CONST/%s/%s" % (kind, name)
    return "CONST/%s/composition" % kind


def tojson_tuple(e):
    return e if isinstance(e, int) else (e[0], tojson_tuple(e[1]), tojson_tuple(e[2]))


class LazyKey:
    """The locus is computed only when a violation is recorded (the constant-expression locus needs extra compilations)."""

    def __init__(self, case):
        self.case = case

    def __add__(self, suffix):
        case = self.case
        return (const_locus(case) if "const_tree" in case else generalise(case)) + suffix


def witness(case, vec):
    w = {"c3": case["c3"], "src": case["src"], "fname": case["fname"], "ret": case["ret"], "params": case["params"], "globals": case["globals"],
         "cmp_globals": case["cmp_globals"], "fam": case["fam"], "feat": case["feat"], "vector": vec}
    for opt in ("c3mods", "const_tree", "externs", "expect", "ref", "locus"):
        if case.get(opt):
            w[opt] = case[opt]
    return w


def compare(p, case, k, gres, st, order):
    feat = case["fam"] + "/" + case["feat"]
    if gres is None:
        # the harness' own C rendering must compile: anything else is a generator bug
        p.count("gcc_rejects_rendering")
        p.collect("gcc_rejected_features", feat)
        return
    if case.get("expect") == "diagnostic":
        # a program that is not C3: the answer must be a diagnostic; nothing is executed.  Anything else is listed, never a violation of
        # this property (an internal error instead of a diagnostic is C28's subject, an accepted invalid program has no prescribed value)
        p.add()
        if st[0] == "rejected":
            p.count("invalid_refused")
            import re
            p.outcome((case["fam"], "invalid", case["feat"].split("/")[1], re.sub(r"_\d+\b", "@", st[1])[:24]))
        elif st[0] == "crash":
            from vf.core import exc_key
            p.count("invalid_internal_error")
            # (the innermost frame of a RecursionError depends on the depth the compiler was called at)
            p.collect("invalid_internal_errors", "%s: %s" % (feat, "RecursionError" if isinstance(st[1], RecursionError) else exc_key("", st[1]).split("/", 1)[1]))
        else:
            p.count("invalid_accepted")
            p.collect("invalid_accepted_programs", feat)
        return
    if st[0] == "rejected":
        p.add()
        p.count("c3_rejects")
        import re
        msg = re.sub(r"_\d+\b", "@", st[1])[:50]  # (the per-case suffix of file-scope names is not part of the message)
        p.collect("c3_rejected", "%s: %s" % (generalise(case), msg))
        if case.get("ref"):
            # ppci's own documentation / tests use this construct: a suspected defect, reported separately from wrong values
            p.count("c3_rejects_documented_construct")
            p.collect("c3_rejected_documented", "%s: %s  [%s]" % (feat, msg, case["ref"]))
        return
    if st[0] == "crash" and case["fam"] in LISTED_CRASH_FAMILIES:
        from vf.core import exc_key
        p.add()
        p.count("c3_crashes")
        p.collect("c3_crash_loci", exc_key(generalise(case), st[1]))
        return
    if st[0] == "crash":
        # an internal error (not a diagnostic) on a program whose C rendering gcc compiles and runs without undefined behaviour:
        # the front end produced no IR for a program of the language
        from vf.core import exc_key
        p.add()
        p.count("c3_crashes")
        p.collect("c3_crash_loci", exc_key(generalise(case), st[1]))
        runs = [vi for vi, g in sorted(gres.items()) if g[0] == "ok"]
        if runs:
            vec = case["vectors"][runs[0]]
            p.violation(LazyKey(case) + ("/frontend-crash/" + type(st[1]).__name__), "%s: c3_to_ir raises %s (%s) instead of compiling this program; gcc compiles and runs the C rendering"
                        % (case["c3"].strip().replace("\n", " "), type(st[1]).__name__, exc_key("", st[1]).split("/", 2)[2]), witness(case, vec), order * 100)
        return
    m = st[1]
    text = case["c3"].strip().replace("\n", " ")
    for vi, g in sorted(gres.items()):
        p.add()
        if g[0] != "ok":
            p.count("discarded_ub")
            continue
        vec = case["vectors"][vi]
        r = run_ppci(m, k, case, vec)
        if r[0] == "unsupported":
            p.count("unclassified_unsupported")
            p.collect("unclassified", "%s: %s" % (feat, r[1][:60]))
            continue
        w = witness(case, vec)
        o = order * 100 + vi
        key = LazyKey(case)
        if r[0] == "horizon":
            # every generated loop has a trip count <= 8 (x 4 nested) and recursion depth <= 8: 40000 executed blocks mean divergence
            p.violation(key + "/diverges", "%s f%r: gcc returns %r for the C rendering, ppci's IR is still running after 40000 blocks (%s)" % (text, tuple(vec), g[1], r[1]), w, o)
            continue
        if r[0] == "undef":
            p.violation(key + "/ir-undefined", "%s f%r: gcc returns %r for the C rendering, ppci's IR has no defined result: %s" % (text, tuple(vec), g[1], r[1]), w, o)
            continue
        suffix = "_%d" % k
        gmem = {n.replace("@", suffix): g[2].get(n.replace("@", suffix)) for n in case["cmp_globals"]}
        if not same(r[1], g[1]):
            p.violation(key + "/result", "%s f%r = %r in ppci's IR, gcc gives %r for the C rendering" % (text, tuple(vec), r[1], g[1]), w, o)
        elif r[2] != gmem:
            p.violation(key + "/memory", "%s f%r leaves globals %r, gcc %r" % (text, tuple(vec), r[2], gmem), w, o)
        elif case.get("externs") and c_trace(case, k, g[2]) != (len(r[3]), r[3][:64]):
            ct = c_trace(case, k, g[2])
            p.violation(key + "/external-calls", "%s f%r calls its externals as %r (id, argument words...) in ppci's IR, the C rendering as %r"
                        % (text, tuple(vec), [hex(v) for v in r[3][:12]], [hex(v) for v in ct[1][:12]]), w, o)
        else:
            p.outcome((case["fam"], generalise(case), repr(g[1])) + ((tuple(r[3][:8]),) if case.get("externs") else ()))


def gcc_run(cases, d, tag, batch=150):
    """Compile the C renderings plus the generated driver batch-wise and run them.
    -> list aligned with cases: None (gcc rejects the rendering) | {vector index: ('ok', ret, {global: hex}) | ('ub', why)}"""
    import os
    import subprocess
    from vf.gen import c3gen
    out = [None] * len(cases)
    todo = [list(range(s, min(s + batch, len(cases)))) for s in range(0, len(cases), batch)]
    n = 0
    while todo:
        part = todo.pop()
        n += 1
        src = os.path.join(d, "tu_%s%d.c" % (tag, n))
        exe = os.path.join(d, "tu_%s%d.exe" % (tag, n))
        with open(src, "w") as f:
            f.write(c3gen.c_driver(cases, part))
        r = subprocess.run(["gcc"] + c3gen.GCC_FLAGS + ["-o", exe, src], capture_output=True, text=True)
        if r.returncode != 0:
            if len(part) > 1:
                h = len(part) // 2
                todo += [part[:h], part[h:]]
            continue
        try:
            r = subprocess.run([exe], stdout=subprocess.PIPE, stderr=subprocess.DEVNULL, text=True, errors="replace", timeout=600)
            res = c3gen.parse_driver_output(r.stdout)
        except subprocess.TimeoutExpired:
            continue  # (safety net only; loops are bounded) the batch stays None -> run() stops with a harness error, never a verdict
        for k in part:
            got = res.get(k, {})
            # a vector without a line (the process died) is a discarded call, never an expected value
            out[k] = {vi: got.get(vi, ("ub", "no result line")) for vi in range(len(cases[k]["vectors"]))}
        os.unlink(exe)
        os.unlink(src)
    return out


def worker(p, shard):
    import os
    from vf.core import scratch
    orders = [o for o, _ in shard]
    cases = [c for _, c in shard]
    with scratch("C37") as d:
        gres = gcc_run(cases, d, "w%d_" % os.getpid())
    sts = {}
    # programs expected to be refused are compiled alone (in a batch they would only force the bisection)
    batched = [k for k, c in enumerate(cases) if not c.get("expect")]
    for k, c in enumerate(cases):
        if c.get("expect"):
            compile_batch(cases, [k], sts)
    for s in range(0, len(batched), C3_BATCH):
        compile_batch(cases, batched[s:s + C3_BATCH], sts)
    for k, case in enumerate(cases):
        compare(p, case, k, gres[k], sts[k], orders[k])


def run(ctx):
    from vf.gen import c3gen
    from vf.core import HarnessError
    cases = c3gen.all_cases(ctx.tier, ctx.seed)
    fam = {}
    for c in cases:
        fam[c["fam"]] = fam.get(c["fam"], 0) + 1
    ctx.note("programs", len(cases))
    ctx.note("families", fam)
    pick = lambda f, n=0: [x for x in cases if x["fam"] == f][n]  # noqa
    for c in (cases[0], pick("S", 40), pick("A"), pick("GI", 40), pick("EXT", 30)):
        ctx.sample({"family": c["fam"], "feature": c["feat"], "c3": c["c3"], "c": c["src"].split("\n", 5)[-1], "vectors": c["vectors"][:3]})
    ctx.pmap(worker, list(enumerate(cases)), nshards=64)
    total = ctx.evaluations
    if ctx.counters.get("gcc_rejects_rendering"):
        raise HarnessError("gcc rejects %d C renderings: %s" % (ctx.counters["gcc_rejects_rendering"], sorted(ctx.sets.get("gcc_rejected_features", []))[:5]))
    if total and ctx.counters.get("discarded_ub", 0) > 0.6 * total:
        raise HarnessError("more than 60%% of the calls were discarded as undefined (%d of %d)" % (ctx.counters["discarded_ub"], total))


def replay(w):
    from vf.core import Partial, scratch
    case = dict(w)
    case["vectors"] = [w["vector"]]
    p = Partial()
    with scratch("C37r") as d:
        gres = gcc_run([case], d, "r")
    sts = {}
    compile_batch([case], [0], sts)
    compare(p, case, 0, gres[0], sts[0], 0)
    if p.violations:
        k = sorted(p.violations)[0]
        return True, k + ": " + p.violations[k][1]
    return False, "ppci's IR agrees with gcc on this call (or the call is discarded as undefined / the program is rejected)"
