"""C15 - IR text format round-trips: print(read(print(m))) == print(m), structure and behaviour preserved.

This module also holds the machinery shared with C16 (module families, feature labels, structural comparator, behaviour
comparison); c16.py imports it.
"""
import io
import re
import struct
import itertools

ID = "C15"
LEVEL = "exploration"
RULE = ("well-formed IR modules (accepted by vf/sem/irtools.wellformed and by ppci's own Verifier) from: irgen_feat atoms - every instruction "
        "kind x type, every binary/unary operator x type, every cast pair, V13 integer constants and the float alphabet (negative, -0.0, "
        "exponent notation, denormal, max, inf, nan) per type, globals (binding x size x none/zero/bytes/multi-part/pointer/mixed initial value), "
        "externals of each kind, volatile x load/store x type, literal data, memcpy, undefined, inline asm, phis, every condition x type, "
        "procedures/functions x binding x arity, name and block-order shapes the front ends produce - each alone and ALL unordered pairs of the "
        "122-atom pair alphabet (thorough: ordered pairs + all triples of the 58-atom core + the seed-selected quarter of all triples of the pair alphabet); irgen families L1-L5 and all cast programs; the C corpus "
        "through the C front end, unoptimised and after optimize levels 1/2/s; extra C, Python, C3 and brainfuck sources.  Each module is printed "
        "with ppci's Writer, read with ppci's Reader, printed again; distinct non-trivial = distinct printed module texts that were judged")
ASSUMPTIONS = ["oracle 1 (textual): the two Writer outputs are compared as strings",
               "oracle 2 (structural): vf/sem/irtools.canon (written in /verif, independent of Writer/Reader) of the original and of the re-read module must be equal; "
               "a field-by-field walk written in /verif names the differing field; adjacent byte parts of a global's initial value are merged before comparing (contents, not chunking)",
               "oracle 3 (behavioural): vf/sem/irinterp observations (return value, final bytes of all globals, external call trace) on V7 argument vectors (<= 49 per function) must agree",
               "modules rejected by irtools.wellformed or by ppci.irutils.verify_module, and sources a front end cannot translate, are counted and not judged",
               "a rejection by the Reader is attributed to the feature of the text line the Reader stopped at (name not an identifier / ambiguous name / forward reference / instruction class+operator / constant class)"]
CLAIM = {"text": "Inside the stated bound every well-formed module either round-trips through the IR text format textually, structurally and behaviourally, or the failing feature is reported under its own key.",
         "note": "Trusted: irtools.canon / the comparator walk / the reference interpreter, all written in /verif.",
         "technique": "bounded-exhaustive feature/pair enumeration with differential structural and behavioural comparison", "engine": "K1"}

ID_RE = re.compile(r"[A-Za-z][A-Za-z\d_]*\Z")

EXTRA_C = [
    ("string_global", "char *s = \"hi\"; const char *f(int a){ return a ? \"abc\" : s;}"),
    ("static_local", "int _g = 3; static int s = 4; int _f(int a){static int loc = 7; loc += s; return _g + a + loc;}"),
    ("param_named_tmp", "int f(int tmp, int b){ int x = b*2; int y = x + tmp; return y * tmp; }"),
    ("global_named_num", "int num; int f(int a){ int x = a + 1; return num + x; }"),
    ("goto_forward", "int f(int a){ int x; goto L2; L1: return x+1; L2: x = a*3; goto L1; }"),
    ("pointer_inits", "int a[3]; int *p = a; int f(int x){ return *p + x; } int (*fp)(int) = f;"),
    ("struct_return", "struct S {int a; int b; int c;}; struct S mk(int a){struct S s; s.a=a; s.b=2; s.c=3; return s;} int f(int a){ struct S s = mk(a); struct S t; t = s; return t.a + t.c;}"),
    ("unary_ops", "int f(int a){ return -a + ~a; } unsigned long long g(unsigned long long x){return x * 18446744073709551615ull;}"),
    ("doubles", "double d = 0.1; float ff = 2.5; double f(double x){ return x * 123456789012345678901234567890.0 + 0.00000001 - 2.5; }"),
    ("negatives", "long long f(long long a){ return a * -9223372036854775807LL - 1 + (a & -128); } signed char g(signed char c){ return c + -128; }"),
    ("forward_call", "int h(int); int f(int a){return h(a);} int g(int h){return h+1;} int h(int x){return x*2;}"),
    ("forward_call_two_callers", "void first(void); void second(void); int third(int); void helper(void); int g; void first(void){ helper(); } void second(void){ g++; helper(); } int third(int a){ first(); second(); helper(); return g + a; } void helper(void){ g += 3; }"),
    ("forward_var_two_users", "extern int late; int a1(void){ return late + 1; } int a2(void){ return late * 2; } int late = 5;"),
    ("mutual_recursion", "int even(int n); int odd(int n); int even(int n){ return n == 0 ? 1 : odd(n - 1); } int odd(int n){ return n == 0 ? 0 : even(n - 1); } int f(int a){ return even(a & 7) + 2 * odd(a & 3); }"),
    ("two_blob_types", "struct A {int a; int b;}; struct B {int x[5];}; struct C {char c[3];}; int take(struct A p, struct B q, struct C r); "
                       "int f(struct A p, struct B q){ struct C r; r.c[0] = 1; r.c[1] = 2; r.c[2] = 3; return take(p, q, r) + p.a + q.x[4]; } "
                       "struct B mk(int a){ struct B b; b.x[0] = a; b.x[4] = a + 1; return b; }"),
    ("same_forward_value_twice", "int cb(int x); int reg(int (*a)(int), int (*b)(int), int c); int user(int v){ return reg(cb, cb, v) + reg(cb, cb, 2); } "
                                 "int reg(int (*a)(int), int (*b)(int), int c){ return a(c) + 2 * b(c + 1); } int cb(int x){ return x * 3; }"),
    ("same_forward_procedure_twice", "int g; void cb(void); int reg(void (*on_open)(void), void (*on_close)(void)); int user(int v){ return reg(cb, cb) + v; } void cb(void){ g++; }"),
    ("same_forward_procedure_twice_declared_first", "int user(void); void cb(void); int reg(void (*on_open)(void), void (*on_close)(void)); int user(void){ return reg(cb, cb); } void cb(void){ }"),
    ("forward_local_value_twice", "int ext2(int a, int b); int f(int a){ int x; if (a) { x = a * 3; } else { x = 7; } return ext2(x, x) + ext2(a, a); }"),
    ("anonymous_members", "struct V { int tag; union { int i; float f; struct { short lo; short hi; }; }; struct { int p; int q; }; }; struct V gv; "
                          "int f(int a){ struct V *v = &gv; v->tag = 1; v->i = a; v->p = a + 1; v->q = v->lo + 2; return v->i + v->p * 3 + v->q * 5 + v->hi; }"),
    ("void_proc", "int g; void set(int v){ g = v; } static void twice(void){ set(g*2); } int f(int a){ set(a); twice(); return g; }"),
    ("char_array_init", "char msg[] = \"hello\"; short tab[3] = {-1, 2, -3}; int f(int i){ return msg[i&3] + tab[i%3]; }"),
    ("struct_global_init", "struct P {char c; int x; short s;}; struct P gp = {1, -2, 3}; struct P *pp = &gp; int f(int a){ return pp->x + gp.s + a; }"),
    ("switch_dense", "int f(int a){ switch(a){case 0: return 5; case 1: return 7; case 2: return 11; case 3: a++; default: return a;} }"),
    ("float_cmp", "int f(double a, float b){ if (a < b) return 1; if (a >= 2.5) return 2; return a != b; }"),
]

PY_SRC = [
    ("py_loops", "def f(a: int, b: int) -> int:\n    s = 0\n    for i in range(a):\n        s = s + i * 2\n    while s > 100:\n        s = s - 7\n    return s\n\n"
                 "def g(x: float, y: float) -> float:\n    return x * 2.5 + y / 10000000000.0\n"),
    ("py_if", "def f(a: int, b: int) -> int:\n    if a > b and b > 0:\n        return a - b\n    else:\n        return 0 - a\n"),
    ("py_float_exp", "def g(x: float) -> float:\n    return x * 1e300 + 1e-7\n"),
]

C3_SRC = [
    ("c3_demo", "module demo;\nvar int counter = 5;\nvar int[4] table;\ntype struct { int x; byte y; } pt_t;\nvar pt_t pt;\n"
                "function int add(int a, int b) {\n  var int i;\n  var int s = 0;\n  for (i = 0; i < a; i += 1) { s += i * b; table[i & 3] = s; }\n"
                "  while (s > 100) { s -= 7; }\n  if (a > b and b > 0) { s = s + 1; } else { s = s - 1; }\n  pt.x = s; pt.y = cast<byte>(a);\n"
                "  return s + counter + pt.x;\n}\n"),
    ("c3_calls", "module m2;\nfunction void nop() { }\nfunction int twice(int a) { nop(); return a * 2; }\nfunction int f(int a) { return twice(a) + twice(a - 1); }\n"),
]

BF_SRC = [("bf_small", "+[>++<-]>."), ("bf_nested", "++[>++[>+<-]<-]>>.")]


# ------------------------------------------------------------------------------------------------------------ families

def families(tier, seed):
    """[(ident)] in simplest-first order.  An ident is the JSON witness from which `make` rebuilds the module."""
    from vf.gen import irgen, irgen_feat, ccorpus
    quick = tier == "quick"
    out = []
    for a in irgen_feat.singles():
        out.append({"fam": "feat", "atoms": [a]})
    for i in range(len(irgen.l4_programs())):
        out.append({"fam": "l4", "i": i})
    for i in range(len(irgen.l5_programs())):
        out.append({"fam": "l5", "i": i})
    for src in irgen_feat.TYPES:
        for dst in irgen_feat.TYPES:
            if "ptr" not in (src, dst):
                out.append({"fam": "cast", "src": src, "dst": dst})
    for ty in irgen.INT_TYPES + irgen.FLOAT_TYPES:
        cnt = sum(1 for _ in irgen.l1_programs([ty], 1))
        out += [{"fam": "l1", "ty": ty, "k": 1, "i": i} for i in range(cnt)]
    for name, _ in ccorpus.CORPUS:
        out.append({"fam": "c", "name": name})
    for name, _ in EXTRA_C:
        out.append({"fam": "xc", "name": name})
    for name, _ in PY_SRC:
        out.append({"fam": "py", "name": name})
    for name, _ in C3_SRC:
        out.append({"fam": "c3", "name": name})
    for name, _ in BF_SRC:
        out.append({"fam": "bf", "name": name})
    for level in (("2",) if quick else ("1", "2", "s")):
        for name, _ in ccorpus.CORPUS:
            out.append({"fam": "copt", "name": name, "level": level})
        for name, _ in EXTRA_C:
            out.append({"fam": "copt", "name": name, "level": level, "extra": 1})
    for n in ((1,) if quick else (1, 2)):
        cnt = sum(1 for _ in irgen.l2_programs(n))
        out += [{"fam": "l2", "n": n, "i": i} for i in range(cnt)]
    for nb in ((1, 2) if quick else (1, 2, 3)):
        variants = 4
        cnt = len(irgen.cfg_skeletons(nb)) * variants
        out += [{"fam": "l3", "nb": nb, "variants": variants, "i": i} for i in range(cnt)]
    alpha = irgen_feat.alphabet(1)
    for pr in irgen_feat.pairs(alpha, ordered=not quick):
        out.append({"fam": "feat", "atoms": pr})
    if not quick:
        for ty in ("i8", "u32", "f64"):
            cnt = sum(1 for _ in irgen.l1_programs([ty], 2))
            out += [{"fam": "l1", "ty": ty, "k": 2, "i": i} for i in range(cnt)]
        core = irgen_feat.alphabet(0)
        for tr in irgen_feat.triples(core):
            out.append({"fam": "feat", "atoms": tr})
        # deterministic slice (selected by the seed) of the triples over the whole pair alphabet, explored completely
        cs = set(core)
        for i, j, k in itertools.combinations(range(len(alpha)), 3):
            if (i + j + k) % 4 == seed % 4 and not (alpha[i] in cs and alpha[j] in cs and alpha[k] in cs):
                out.append({"fam": "feat", "atoms": [alpha[i], alpha[j], alpha[k]]})
    return out


def _c_src(ident):
    from vf.gen import ccorpus
    if ident.get("extra") or ident["fam"] == "xc":
        return dict(EXTRA_C)[ident["name"]]
    return dict(ccorpus.CORPUS)[ident["name"]]


class FrontEndError(Exception):
    pass


def make(ident):
    """Rebuild the module of an ident.  Front-end failures raise FrontEndError (the module is then not judged)."""
    from vf.gen import irgen, irgen_feat
    fam = ident["fam"]
    if fam == "feat":
        return irgen_feat.build(irgen_feat.module_of(ident["atoms"]))
    if fam == "desc":
        return irgen_feat.build(ident["desc"])
    if fam == "cast":
        return irgen.build(irgen.cast_program(ident["src"], ident["dst"]))
    if fam in ("l1", "l2", "l3", "l4", "l5"):
        from vf.checks import _passgraph_common
        m = _passgraph_common.make(ident)
        m.name = re.sub(r"\W", "_", m.name)   # irgen puts operators into module names; front ends only produce identifiers
        return m
    try:
        if fam in ("c", "xc", "copt"):
            from ppci.api import get_arch
            from ppci.lang.c import c_to_ir, COptions
            m = c_to_ir(io.StringIO(_c_src(ident)), get_arch("x86_64"), COptions())
            if fam == "copt":
                from ppci.api import optimize
                optimize(m, level=ident["level"])
            return m
        if fam == "py":
            from ppci.lang.python import python_to_ir
            return python_to_ir(io.StringIO(dict(PY_SRC)[ident["name"]]))
        if fam == "c3":
            from ppci.api import c3_to_ir
            return c3_to_ir([io.StringIO(dict(C3_SRC)[ident["name"]])], [], "x86_64")
        if fam == "bf":
            from ppci.api import bf_to_ir
            return bf_to_ir(dict(BF_SRC)[ident["name"]], "x86_64")
    except Exception as ex:  # noqa  -- a front-end / optimiser problem is another property's business
        raise FrontEndError("%s: %r" % (fam, ex))
    raise ValueError(fam)


# ------------------------------------------------------------------------------------------------------------ feature labels

def base_feature(ir, o):
    """Label of one instruction / declaration from a small fixed vocabulary."""
    t = type(o)
    if t is ir.Const:
        v = o.value
        if isinstance(v, bool):
            return "const-bool"
        if isinstance(v, float):
            if v != v:
                return "const-float-nan"
            if v in (float("inf"), float("-inf")):
                return "const-float-inf"
            r = repr(v)
            if "e" in r:
                return "const-float-exponent"
            return "const-float-negative" if r.startswith("-") else "const-float"
        if not (o.ty.is_integer or o.ty is ir.ptr):
            return "const-int-value-in-float-type"
        return "const-int-negative" if v < 0 else "const-int"
    if t is ir.Binop:
        return "binop-" + o.operation
    if t is ir.Unop:
        return "unop-" + o.operation
    if t is ir.Load:
        return "load-volatile" if o.volatile else "load"
    if t is ir.Store:
        return "store-volatile" if o.volatile else "store"
    if t is ir.CJump:
        return "cjmp-" + o.cond
    names = {ir.Cast: "cast", ir.Alloc: "alloc", ir.AddressOf: "addressof", ir.CopyBlob: "memcpy", ir.LiteralData: "literal",
             ir.Undefined: "undefined", ir.InlineAsm: "asm", ir.FunctionCall: "call-function", ir.ProcedureCall: "call-procedure",
             ir.Phi: "phi", ir.Jump: "jmp", ir.Return: "return", ir.Exit: "exit", ir.Variable: "global-variable",
             ir.Function: "function-header", ir.Procedure: "procedure-header", ir.ExternalFunction: "external-function",
             ir.ExternalProcedure: "external-procedure", ir.ExternalVariable: "external-variable", ir.Block: "block-header", ir.Module: "module-header"}
    return names.get(t, t.__name__)


class Index:
    """Positions and name multiplicities of one module (for labels and for the comparator)."""

    def __init__(self, ir, m):
        from vf.sem import irtools
        self.ir = ir
        self.m = m
        self.gpos = {}
        self.gnames = {}
        for i, g in enumerate(list(m.externals) + list(m.variables) + list(m.functions)):
            self.gpos.setdefault(g, i)
            self.gnames[g.name] = self.gnames.get(g.name, 0) + 1
        self.loc = {}        # local value -> ("p", i) | ("v", bi, ii)
        self.pos = {}        # instruction -> (bi, ii)
        self.fn_of = {}
        self.names = {}      # function -> {name: count} over parameters and values
        self.operands = lambda ins: irtools.operands(ir, ins)
        for f in m.functions:
            cnt = {}
            for i, p in enumerate(f.arguments):
                self.loc[p] = ("p", i)
                self.fn_of[p] = f
                cnt[p.name] = cnt.get(p.name, 0) + 1
            for bi, b in enumerate(f.blocks):
                for ii, ins in enumerate(b.instructions):
                    self.fn_of[ins] = f
                    self.pos[ins] = (bi, ii)
                    if isinstance(ins, ir.Value):
                        self.loc[ins] = ("v", bi, ii)
                        cnt[ins.name] = cnt.get(ins.name, 0) + 1
            self.names[f] = cnt

    def locate(self, v, f=None):
        """Position-based identity of an operand (names play no role)."""
        ir = self.ir
        if v in self.loc:
            if f is not None and self.fn_of.get(v) is not f:
                return ("foreign",) + self.loc[v]
            return self.loc[v]
        if isinstance(v, ir.GlobalValue):
            return ("g", type(v).__name__, v.name) if v in self.gpos else ("g?", type(v).__name__, v.name)
        return ("?", type(v).__name__, getattr(v, "name", None))

    def feature(self, o, coarse=False):
        """Most specific label: name problems and forward references first, then class/operator/constant class
        (`coarse`: class only - used when the differing field is an operand or the type, not the operator)."""
        ir = self.ir
        names = []
        if isinstance(o, (ir.Value, ir.Block, ir.Module)):
            names.append(o.name)
        if isinstance(o, ir.SubRoutine):
            names += [p.name for p in o.arguments]
        if isinstance(o, ir.Instruction):
            ops = self.operands(o)
            if isinstance(o, ir.Phi):
                names += [b.name for b in o.inputs]
            names += [getattr(x, "name", "") for x in ops]
            if any(not ID_RE.match(n) for n in names):
                return "name-not-identifier"
            f = self.fn_of.get(o)
            cnt = self.names.get(f, {})
            for n in names:       # one name, two values in scope: the printed / serialised reference cannot say which one is meant
                if cnt.get(n, 0) > 1:
                    return "ambiguous-name/parameter-and-value"
                if cnt.get(n, 0) and self.gnames.get(n, 0):
                    return "ambiguous-name/global-and-local"
                if self.gnames.get(n, 0) > 1:
                    return "ambiguous-name/two-globals"
            if not isinstance(o, ir.Phi):
                here = self.pos.get(o)
                for x in ops:
                    l = self.loc.get(x)
                    if l and l[0] == "v" and here and self.fn_of.get(x) is f and l[1:] > here:
                        return "forward-ref-operand"
                for x in ops:
                    if isinstance(x, ir.SubRoutine) and f in self.gpos and self.gpos.get(x, -1) > self.gpos[f]:
                        return "forward-ref-function"
        elif any(not ID_RE.match(n) for n in names):
            return "name-not-identifier"
        if coarse:
            c = {ir.Binop: "binop", ir.Unop: "unop", ir.CJump: "cjmp", ir.Load: "load", ir.Store: "store", ir.Const: "const"}.get(type(o))
            if c:
                return c
        return base_feature(ir, o)


def line_map(ir, m):
    """Stripped text line -> first object that prints as this line (mirrors what Writer prints per object)."""
    d = {}

    def put(s, o):
        d.setdefault(s.strip(), o)

    put("%s;" % m, m)
    for e in m.externals:
        put("%s;" % e, e)
    for v in m.variables:
        put(str(v), v)
    for f in m.functions:
        put("%s {" % f, f)
        for b in f.blocks:
            put("%s {" % b, b)
            for ins in b.instructions:
                put("%s;" % ins, ins)
    return d


def all_objects(ir, m):
    yield from m.externals
    yield from m.variables
    for f in m.functions:
        yield f
        for b in f.blocks:
            yield from b.instructions


# ------------------------------------------------------------------------------------------------------------ comparator

def norm_value(ir, value):
    """Initial value of a global as a tuple of ('b', hex) / ('ptr', label), adjacent byte parts merged."""
    if value is None:
        return None
    out = []
    for part in value:
        if isinstance(part, (bytes, bytearray)):
            if not part:
                continue
            if out and out[-1][0] == "b":
                out[-1] = ("b", out[-1][1] + bytes(part).hex())
            else:
                out.append(("b", bytes(part).hex()))
        elif isinstance(part, tuple) and len(part) == 2:
            out.append(("ptr", str(part[1])))
        elif isinstance(part, tuple) and len(part) == 3:
            out.append(("ptr", str(part[1]), part[2]))     # address constant with a byte offset
        else:
            out.append(("?", repr(part)))
    return tuple(out)


def merge_value_parts(ir, m):
    """In place: merge adjacent byte parts of initial values (so that irtools.canon compares contents, not chunking)."""
    for v in m.variables:
        if v.value is not None:
            parts = []
            for part in v.value:
                if isinstance(part, (bytes, bytearray)) and parts and isinstance(parts[-1], bytes):
                    parts[-1] = parts[-1] + bytes(part)
                elif isinstance(part, (bytes, bytearray)):
                    parts.append(bytes(part))
                else:
                    parts.append(part)
            v.value = tuple(p for p in parts if p != b"")


def _cv(v):
    if isinstance(v, float):
        return ("f", struct.pack("<d", v).hex())
    return (type(v).__name__, v)


def compare(ir, m1, m2, names):
    """Field-by-field differences original -> reconstructed: [(category, feature, detail)], category in
    'drops' (a set field came back as its default), 'differs', 'renames' (only when `names`)."""
    x1, x2 = Index(ir, m1), Index(ir, m2)
    out = []

    def diff(cat, feat, detail):
        out.append((cat, feat, detail))

    if m1.name != m2.name:
        diff("differs", "module-name", "%s -> %s" % (m1.name, m2.name))
    e1, e2 = list(m1.externals), list(m2.externals)
    if len(e1) != len(e2):
        diff("differs", "external-count", "%d -> %d" % (len(e1), len(e2)))
    for a, b in zip(e1, e2):
        sa = (type(a).__name__, a.name, [str(t) for t in getattr(a, "argument_types", [])], str(getattr(a, "return_ty", None)))
        sb = (type(b).__name__, b.name, [str(t) for t in getattr(b, "argument_types", [])], str(getattr(b, "return_ty", None)))
        if sa != sb:
            diff("differs", base_feature(ir, a), "%s -> %s" % (sa, sb))
    v1, v2 = list(m1.variables), list(m2.variables)
    if len(v1) != len(v2):
        diff("differs", "global-count", "%d -> %d" % (len(v1), len(v2)))
    for a, b in zip(v1, v2):
        if a.name != b.name:
            diff("differs", "global-name", "%s -> %s" % (a.name, b.name))
        if a.binding != b.binding:
            diff("differs", "global-binding", "%s: %s -> %s" % (a.name, a.binding, b.binding))
        if (a.amount, a.alignment) != (b.amount, b.alignment):
            diff("differs", "global-size-alignment", "%s: %s -> %s" % (a.name, (a.amount, a.alignment), (b.amount, b.alignment)))
        na, nb = norm_value(ir, a.value), norm_value(ir, b.value)
        if na != nb:
            kind = "pointer" if na and any(p[0] != "b" for p in na) else "bytes"
            diff("drops" if (na is not None and nb is None) else "differs", "global-initial-value/" + kind, "variable %s: initial value %s -> %s" % (a.name, _short(na), _short(nb)))
    f1, f2 = list(m1.functions), list(m2.functions)
    if len(f1) != len(f2):
        diff("differs", "function-count", "%d -> %d" % (len(f1), len(f2)))
    for fa, fb in zip(f1, f2):
        if type(fa) is not type(fb):
            diff("differs", "function-kind", "%s: %s -> %s" % (fa.name, type(fa).__name__, type(fb).__name__))
        if fa.name != fb.name:
            diff("differs", "function-name", "%s -> %s" % (fa.name, fb.name))
        if fa.binding != fb.binding:
            diff("differs", "function-binding", "%s: %s -> %s" % (fa.name, fa.binding, fb.binding))
        if getattr(fa, "return_ty", None) is not getattr(fb, "return_ty", None):
            diff("differs", "function-return-type", "%s: %s -> %s" % (fa.name, getattr(fa, "return_ty", None), getattr(fb, "return_ty", None)))
        pa, pb = [p.ty for p in fa.arguments], [p.ty for p in fb.arguments]
        if len(pa) != len(pb) or any(s is not t for s, t in zip(pa, pb)):
            diff("differs", "parameter-types", "%s: %s -> %s" % (fa.name, pa, pb))
        if names and [p.name for p in fa.arguments] != [p.name for p in fb.arguments]:
            diff("renames", "parameter-name", "%s: %s -> %s" % (fa.name, [p.name for p in fa.arguments], [p.name for p in fb.arguments]))
        ba, bb = list(fa.blocks), list(fb.blocks)
        if len(ba) != len(bb):
            diff("differs", "block-count", "%s: %d -> %d" % (fa.name, len(ba), len(bb)))
            continue
        ea = ba.index(fa.entry) if fa.entry in ba else None
        eb = bb.index(fb.entry) if fb.entry in bb else None
        if ea != eb:
            diff("differs", "entry-block", "%s: block #%s -> #%s" % (fa.name, ea, eb))
        pos_a = {b: i for i, b in enumerate(ba)}
        pos_b = {b: i for i, b in enumerate(bb)}
        for bi, (A, B) in enumerate(zip(ba, bb)):
            if names and A.name != B.name:
                diff("renames", "block-name", "%s: %s -> %s" % (fa.name, A.name, B.name))
            if len(A.instructions) != len(B.instructions):
                diff("differs", "instruction-count", "%s.%s: %d -> %d" % (fa.name, A.name, len(A.instructions), len(B.instructions)))
                continue
            for i1, i2 in zip(A.instructions, B.instructions):
                where = "%s.%s: '%s'" % (fa.name, A.name, i1)
                if type(i1) is not type(i2):
                    diff("differs", x1.feature(i1), "%s became %s '%s'" % (where, type(i2).__name__, i2))
                    continue
                if isinstance(i1, ir.Value):
                    if i1.ty is not i2.ty:
                        diff("differs", x1.feature(i1, True) + "/type", "%s: type %s -> %s" % (where, i1.ty, i2.ty))
                    if names and i1.name != i2.name:
                        diff("renames", "value-name", "%s: %s -> %s" % (where, i1.name, i2.name))
                t = type(i1)
                if t is ir.Phi:
                    o1 = sorted((pos_a.get(k, -1), x1.locate(v, fa)) for k, v in i1.inputs.items())
                    o2 = sorted((pos_b.get(k, -1), x2.locate(v, fb)) for k, v in i2.inputs.items())
                else:
                    o1 = [x1.locate(v, fa) for v in x1.operands(i1)]
                    o2 = [x2.locate(v, fb) for v in x2.operands(i2)]
                if o1 != o2:
                    diff("differs", x1.feature(i1, True) + "/operands", "%s: operands %s -> %s" % (where, o1, o2))
                if t in (ir.Load, ir.Store) and bool(i1.volatile) != bool(i2.volatile):
                    diff("drops" if i1.volatile else "differs", base_feature(ir, i1), "%s: volatile %s -> %s" % (where, i1.volatile, i2.volatile))
                if t is ir.Const and _cv(i1.value) != _cv(i2.value):
                    diff("differs", x1.feature(i1), "%s: value %r -> %r" % (where, i1.value, i2.value))
                if t in (ir.Binop, ir.Unop) and i1.operation != i2.operation:
                    diff("differs", x1.feature(i1), "%s: operator %s -> %s" % (where, i1.operation, i2.operation))
                if t is ir.Alloc and (i1.amount, i1.alignment) != (i2.amount, i2.alignment):
                    diff("differs", "alloc/size-alignment", "%s: %s -> %s" % (where, (i1.amount, i1.alignment), (i2.amount, i2.alignment)))
                if t is ir.CopyBlob and i1.amount != i2.amount:
                    diff("differs", "memcpy", "%s: amount %s -> %s" % (where, i1.amount, i2.amount))
                if t is ir.LiteralData and bytes(i1.data) != bytes(i2.data):
                    diff("differs", "literal", "%s: data differs" % where)
                if t is ir.InlineAsm and (i1.template, list(i1.clobbers), len(i1.input_values)) != (i2.template, list(i2.clobbers), len(i2.input_values)):
                    diff("differs", "asm", "%s: template/clobbers/operand split differ" % where)
                if t is ir.Jump and pos_a.get(i1.target) != pos_b.get(i2.target):
                    diff("differs", "jmp/target", "%s: target #%s -> #%s" % (where, pos_a.get(i1.target), pos_b.get(i2.target)))
                if t is ir.CJump:
                    ta = (i1.cond, pos_a.get(i1.lab_yes), pos_a.get(i1.lab_no))
                    tb = (i2.cond, pos_b.get(i2.lab_yes), pos_b.get(i2.lab_no))
                    if ta[0] != tb[0]:
                        diff("differs", "cjmp-" + i1.cond, "%s: condition %s -> %s" % (where, ta[0], tb[0]))
                    if ta[1:] != tb[1:]:
                        diff("differs", "cjmp/targets", "%s: (yes, no) #%s -> #%s" % (where, ta[1:], tb[1:]))
    return out


def _short(x, n=90):
    s = repr(x)
    return s if len(s) <= n else s[:n] + "..."


# ------------------------------------------------------------------------------------------------------------ behaviour

def _vectors(ir, f, cap):
    from vf.gen import irgen
    doms = []
    for p in f.arguments:
        if p.ty.is_blob:
            return None
        name = "u64" if p.ty is ir.ptr else p.ty.name
        doms.append(irgen.V(name, 7))
    total = 1
    for d in doms:
        total *= len(d)
    if total <= cap:
        return list(itertools.product(*doms))
    vecs = []
    for i in range(cap):          # evenly spaced points of the product, decoded as a mixed-radix number (+ i so that every digit moves)
        idx = i * total // cap
        vec = []
        for j, d in enumerate(reversed(doms)):
            idx, r = divmod(idx, len(d))
            vec.append(d[(r + (i if j else 0)) % len(d)])
        vecs.append(tuple(reversed(vec)))
    return vecs


def behaviour_difference(ir, m1, m2, cap=49):
    """First (function, args, observation1, observation2) on which the reference interpreter disagrees, else None."""
    from vf.sem.irinterp import run_function
    n = 0
    for f in m1.functions:
        vecs = _vectors(ir, f, cap)
        if vecs is None:
            continue
        if not any(g.name == f.name for g in m2.functions):
            return (f.name, None, "present", "missing"), n
        for args in vecs:
            r1 = run_function(m1, f.name, args, max_steps=1500)
            r2 = run_function(m2, f.name, args, max_steps=1500)
            n += 1
            if r1[0] != r2[0] or (r1[0] == "ok" and r1[1] != r2[1]):
                return (f.name, args, r1, r2), n
            if r1[0] == "unsupported":
                break
    return None, n


# ------------------------------------------------------------------------------------------------------------ judging

def prepare(p, ident):
    """Build the module and decide whether it is inside the property's domain.  Returns module or None."""
    from ppci.irutils import verify_module
    from vf.sem import irtools
    try:
        m = make(ident)
    except FrontEndError as ex:
        p.count("skipped_front_end_or_optimizer_error")
        p.collect("front_end_errors", "%s %s" % (ident.get("fam"), ident.get("name")))
        return None
    if irtools.wellformed(m):
        p.count("skipped_not_wellformed_W")
        p.collect("not_wellformed", describe(ident)[:80])
        return None
    try:
        verify_module(m)
    except Exception:  # noqa
        p.count("skipped_rejected_by_ppci_verifier")
        p.collect("verifier_rejects", str(ident.get("atoms") or ident.get("name") or ident)[:80])
        return None
    return m


def print_text(m):
    from ppci.irutils import print_module
    f = io.StringIO()
    print_module(m, file=f, verify=False)
    return f.getvalue()


def describe(ident):
    if ident["fam"] == "feat":
        return "atoms " + "+".join(ident["atoms"])
    return " ".join("%s=%s" % kv for kv in sorted(ident.items()))


def report_differences(p, mode, ident, order, ir, m, m2, t1, renames_matter):
    """Structural + behavioural comparison shared by C15 and C16.  Returns True when everything agrees."""
    from vf.sem import irtools
    try:
        diffs = compare(ir, m, m2, renames_matter)
    except Exception as ex:  # noqa  -- the reconstructed module is too broken to walk
        diffs = [("differs", "unwalkable-result", repr(ex))]
    try:
        beh, nruns = behaviour_difference(ir, m, m2)
    except Exception as ex:  # noqa
        beh, nruns = ("?", None, "interpreter crashed on the reconstructed module", repr(ex)), 0
    p.count("interpreter_runs", 2 * nruns)
    btxt = ""
    if beh is not None:
        btxt = "; behaviour differs: %s%s gives %s, original %s" % (beh[0], tuple(beh[1]) if beh[1] is not None else "", _short(beh[3], 120), _short(beh[2], 120))
    seen = set()
    for cat, feat, detail in diffs:
        key = "%s/%s/%s" % (mode, cat, feat)
        if key in seen:
            continue
        seen.add(key)
        p.violation(key, "%s: after the %s round trip %s%s" % (describe(ident), mode, detail, btxt), {"ident": ident, "key": key}, order=order)
    if diffs:
        return False
    merge_value_parts(ir, m)
    merge_value_parts(ir, m2)
    c1, c2 = irtools.canon(m), irtools.canon(m2)
    if c1 != c2:
        l1, l2 = c1.split("\n"), c2.split("\n")
        k = next((i for i, (a, b) in enumerate(zip(l1, l2)) if a != b), min(len(l1), len(l2)))
        key = mode + "/differs/canonical-form"
        p.violation(key, "%s: canonical form line %d: %r -> %r%s" % (describe(ident), k, l1[k] if k < len(l1) else None, l2[k] if k < len(l2) else None, btxt),
                    {"ident": ident, "key": key}, order=order)
        return False
    bad = irtools.wellformed(m2)
    if bad:
        key = "%s/result-not-wellformed/%s" % (mode, bad[0][0])
        p.violation(key, "%s: the reconstructed module is not well-formed: %s" % (describe(ident), bad[0][1]), {"ident": ident, "key": key}, order=order)
        return False
    if beh is not None:
        key = mode + "/behaviour-differs"
        p.violation(key, "%s: structure equal but%s" % (describe(ident), btxt[1:]), {"ident": ident, "key": key}, order=order)
        return False
    return True


def reader_row(reader, ex):
    mo = re.search(r"row (\d+)", str(ex))
    if mo:
        return int(mo.group(1))
    tok = getattr(reader, "token", None)
    if tok and len(tok) >= 3 and isinstance(tok[2], int) and tok[2] > 0:
        return tok[2]
    return None


def judge_text(p, ident, order):
    from ppci import ir
    from ppci.irutils import Reader
    from vf.core import cpu_limit, CpuTimeout, exc_key
    m = prepare(p, ident)
    if m is None:
        return
    p.add()
    p.count("modules_" + ident["fam"])
    x = Index(ir, m)
    for o in all_objects(ir, m):
        p.collect("features", x.feature(o))
    wit = lambda key: {"ident": ident, "key": key}  # noqa
    try:
        t1 = print_text(m)
    except Exception as ex:  # noqa
        key = exc_key("text/writer-raises", ex)
        p.violation(key, "%s: print_module raised %r" % (describe(ident), ex), wit(key), order=order)
        return
    reader = Reader()
    try:
        with cpu_limit(20):
            m2 = reader.read(io.StringIO(t1))
    except CpuTimeout:
        key = "text/reader-hangs"
        p.violation(key, "%s: Reader did not finish in 20 CPU seconds" % describe(ident), wit(key), order=order)
        return
    except Exception as ex:  # noqa
        row = reader_row(reader, ex)
        lines = t1.split("\n")
        line = lines[row - 1].strip() if row and 0 < row <= len(lines) else None
        obj = line_map(ir, m).get(line) if line is not None else None
        feat = x.feature(obj) if obj is not None else "unlocated"
        key = "text/reader-rejects/" + feat
        p.violation(key, "%s: Reader raised %s(%s) on the Writer's own line %r" % (describe(ident), type(ex).__name__, _short(str(ex), 80), line), wit(key), order=order)
        return
    try:
        t2 = print_text(m2)
    except Exception as ex:  # noqa
        key = exc_key("text/reprint-raises", ex)
        p.violation(key, "%s: printing the re-read module raised %r" % (describe(ident), ex), wit(key), order=order)
        return
    ok = report_differences(p, "text", ident, order, ir, m, m2, t1, False)
    if t1 != t2 and ok:     # a purely textual difference (when the structure differs too, that is the finding)
        ok = False
        l1, l2 = t1.split("\n"), t2.split("\n")
        k = next((i for i, (a, b) in enumerate(zip(l1, l2)) if a != b), min(len(l1), len(l2)))
        line = l1[k].strip() if k < len(l1) else None
        obj = line_map(ir, m).get(line)
        key = "text/reprint-differs/" + (x.feature(obj) if obj is not None else "unlocated")
        p.violation(key, "%s: line %d printed as %r, after read+print %r" % (describe(ident), k + 1, line, l2[k].strip() if k < len(l2) else None), wit(key), order=order)
    if ok:
        p.outcome(t1)
        if ident["fam"] != "feat" or len(ident["atoms"]) == 1:
            p.sample({"module": describe(ident), "text_lines": t1.count("\n"), "round_trip": "textual, structural and behavioural agreement"})


def worker(p, shard, judge):
    for order, ident in shard:
        judge(p, ident, order)


def run_common(ctx, judge):
    ids = families(ctx.tier, ctx.seed)
    fams = {}
    for i in ids:
        k = i["fam"] + (str(len(i["atoms"])) if i["fam"] == "feat" else "")
        fams[k] = fams.get(k, 0) + 1
    ctx.note("bounds", {"modules": len(ids), "families": fams, "interp_vectors": "V7 per parameter, <= 49 per function"})
    ctx.pmap(worker, list(enumerate(ids)), extra=(judge,), nshards=min(len(ids), 256))


def run(ctx):
    run_common(ctx, judge_text)


def replay_common(w, judge):
    from vf.core import Partial
    p = Partial()
    judge(p, w["ident"], 0)
    key = w.get("key")
    if key in p.violations:
        return True, key + ": " + p.violations[key][1]
    if key is None and p.violations:
        k = sorted(p.violations)[0]
        return True, k + ": " + p.violations[k][1]
    other = sorted(p.violations)
    return False, "key %s does not reproduce%s" % (key, (" (other keys on this module: %s)" % ", ".join(other)) if other else "; round trip agrees")


def replay(w):
    return replay_common(w, judge_text)
