"""C40 - ppci x86-64 code interoperates with System V ABI code from gcc (both call directions).

Direction A: ppci compiles the callee, gcc the caller.  Direction B: gcc compiles the callee, ppci the caller.
Every call goes through an assembly shim (gcc side) that plants sentinels in rbx, rbp, r12-r15, records rsp and
verifies all of them after the call; the gcc callee of direction B is entered through a stub that checks that the
stack is 16-byte aligned at the call.  Expected values (arguments, checksums) are computed in Python.
"""
import os
import struct
import ctypes
import subprocess

ID = "C40"
LEVEL = "exploration"
RULE = ("signatures: every parameter list of length <= 2 (quick) / <= 3 (thorough) over {signed char, short, int, long, char*, float, double} "
        "x 8 return types (void + the 7), in thorough also every list of length 4 with one return type each, lists of length <= 1 over the 4 unsigned kinds x 12 return types, and the long-list family "
        "(n_int <= 9, n_fp <= 11, 4 <= n_int+n_fp <= 12; ints-first / floats-first / alternating; integer kinds rotated by position - one rotation "
        "chosen by VERIF_SEED in quick, all 9 in thorough - plus "
        "uniform-kind variants for every list with a stack-passed argument (quick: not for the alternating shape)); each signature x 2 call directions x 2 argument vectors "
        "(recognisable per position, type boundaries); one case = one executed call (or one ppci compilation that fails); "
        "distinct non-trivial = distinct (direction, return kind, returned bit pattern) observed in the driver")
ASSUMPTIONS = [
    "gcc 12 (-O0, -no-pie) and GNU ld are System V ABI conforming: gcc is the other party of every call and the judge of argument/return locations",
    "expected argument bit patterns and return checksums are computed in Python (integers mod 2^64, IEEE doubles, ctypes float rounding), not by gcc; "
    "every run first replays every signature with gcc -O1 on both sides of the same driver, which must be silent (harness error otherwise)",
    "callee bodies use only stores to globals, integer *,+ on unsigned long, double *,+ and widening casts; no double->int conversion "
    "(DESIGN defect 33) and no identity casts (ppci's selector has no F64TOF64 pattern) so that front-end defects do not mask ABI defects",
    "ppci compiles at its default optimisation level (0); x87/MXCSR control words and the direction flag are not checked",
    "varargs, struct/union/long double/_Bool parameters are outside the property's quantifier and not explored",
]
CLAIM = {
    "text": "For every enumerated signature, ppci-compiled x86-64 functions receive and return exactly the values a gcc caller passes, "
            "pass exactly the right values to a gcc callee with a 16-byte aligned stack, preserve rbx/rbp/r12-r15/rsp, and their "
            "relocatable ELF links with GNU ld",
    "note": "trusted: gcc 12 + GNU ld as the ABI-conforming party, the assembly shim, Python reference arithmetic",
    "technique": "bounded exhaustive signature enumeration, differential native execution against gcc",
    "engine": "K1",
}

M64 = (1 << 64) - 1
BATCH = 32

# kind -> (C type, class, size, signed)
KINDS = {
    "sc": ("signed char", "I", 1, True), "uc": ("unsigned char", "I", 1, False),
    "ss": ("short", "I", 2, True), "us": ("unsigned short", "I", 2, False),
    "si": ("int", "I", 4, True), "ui": ("unsigned int", "I", 4, False),
    "sl": ("long", "I", 8, True), "ul": ("unsigned long", "I", 8, False),
    "p": ("char *", "I", 8, False),
    "f": ("float", "F", 4, None), "d": ("double", "F", 8, None),
}
BASE = ["sc", "ss", "si", "sl", "p", "f", "d"]
UNSIGNED = ["uc", "us", "ui", "ul"]
ROT = ["sl", "si", "ss", "sc", "p", "ul", "ui", "us", "uc"]
KNAME = {"sc": "schar", "uc": "uchar", "ss": "short", "us": "ushort", "si": "int", "ui": "uint", "sl": "long", "ul": "ulong",
         "p": "pointer", "f": "float", "d": "double", "v": "void"}
# register class as ppci sees it (the mechanism of "unsupported kind" defects)
WCLASS = {"sc": "char", "uc": "char", "ss": "short", "us": "short", "si": "int", "ui": "int", "sl": "long", "ul": "long",
          "p": "pointer", "f": "float", "d": "double"}
SHIM_REGS = ["rbx", "rbp", "r12", "r13", "r14", "r15", "rsp"]
SIGNALS = {4: "SIGILL", 7: "SIGBUS", 8: "SIGFPE", 11: "SIGSEGV"}


# ---------------------------------------------------------------- signatures

def sig_str(sig):
    return sig[0] + ":" + ",".join(sig[1])


def sig_parse(s):
    r, _, a = s.partition(":")
    return (r, tuple(x for x in a.split(",") if x))


def sig_c(sig):
    r, ps = sig
    return "%s f(%s)" % ("void" if r == "v" else KINDS[r][0], ", ".join(KINDS[k][0] for k in ps) or "void")


def abi_locs(params):
    """Reference classification written from the psABI (section 3.2.3): INTEGER class -> rdi, rsi, rdx, rcx, r8, r9;
    SSE class -> xmm0..7; the rest in memory, left to right, one eightbyte each.  Used for keys and for choosing the
    family only; the oracle for locations is gcc."""
    ni = nf = ns = 0
    out = []
    for k in params:
        if KINDS[k][1] == "I":
            if ni < 6:
                out.append(("ireg", ni))
                ni += 1
            else:
                out.append(("stack", ns))
                ns += 1
        else:
            if nf < 8:
                out.append(("freg", nf))
                nf += 1
            else:
                out.append(("stack", ns))
                ns += 1
    return out


def long_lists(seed, full=True):
    """(n_int, n_fp) x interleaving x kind assignment; simplest (shortest) first.  full=False (quick tier) keeps the
    uniform-kind variants for the ints-first and floats-first shapes only and the unsigned ones for ints-first only."""
    seen = set()
    out = []
    pairs = [(ni, nf) for ni in range(10) for nf in range(12) if 4 <= ni + nf <= 12]
    pairs.sort(key=lambda t: (t[0] + t[1], t[1], t[0]))
    rets = ["v"] + BASE
    for ni, nf in pairs:
        shapes = []
        shapes.append("I" * ni + "F" * nf)
        shapes.append("F" * nf + "I" * ni)
        alt, a, b = "", ni, nf
        while a or b:
            if a:
                alt += "I"
                a -= 1
            if b:
                alt += "F"
                b -= 1
        shapes.append(alt)
        for si, shape in enumerate(shapes):
            assigns = [("rot", None, None)]
            if (ni > 6 or nf > 8) and (full or si < 2):
                for ik in (["sc", "ss", "si", "sl", "p"] if ni else [None]):
                    for fk in (["f", "d"] if nf else [None]):
                        assigns.append(("uni", ik, fk))
                if ni > 6 and (full or si == 0):
                    for ik in UNSIGNED:
                        assigns.append(("uni", ik, "d" if nf else None))
            for ai, (mode, ik, fk) in enumerate(assigns):
                ps = []
                ci = cf = 0
                for ch in shape:
                    if ch == "I":
                        ps.append(ROT[(ci + seed) % len(ROT)] if mode == "rot" else ik)
                        ci += 1
                    else:
                        ps.append(("d", "f")[(cf + seed) % 2] if mode == "rot" else fk)
                        cf += 1
                ret = rets[(ni + 2 * nf + si + ai) % len(rets)]
                sig = (ret, tuple(ps))
                if sig not in seen:
                    seen.add(sig)
                    out.append(sig)
    return out


def signatures(tier, seed):
    import itertools
    maxlen = 2 if tier == "quick" else 3
    rets = ["v"] + BASE
    short = []
    for n in range(0, maxlen + 1):
        for ps in itertools.product(BASE, repeat=n):
            for r in rets:
                short.append((r, tuple(ps)))
    if tier != "quick":
        # length 4: every kind in the fourth integer register / fourth xmm register; one return type per list
        for i, ps in enumerate(itertools.product(BASE, repeat=4)):
            short.append((rets[i % len(rets)], tuple(ps)))
    uns = []
    for ps in [()] + [(k,) for k in UNSIGNED]:
        for r in rets + UNSIGNED:
            if ps or r in UNSIGNED:
                uns.append((r, ps))
    longs = long_lists(seed % len(ROT), tier != "quick")
    if tier != "quick":
        # every rotation of the integer kinds, so that each register / stack position sees each kind
        have = set(longs)
        for off in range(1, len(ROT)):
            for s in long_lists((seed + off) % len(ROT)):
                if s not in have:
                    have.add(s)
                    longs.append(s)
    # simplest first: by length, short lists before the long family
    out = [s for s in short if len(s[1]) <= 1] + uns + [s for s in short if len(s[1]) > 1] + longs
    out.sort(key=lambda s: len(s[1]))  # stable
    return out


# ---------------------------------------------------------------- values and the reference

def f32_bits(x):
    return struct.unpack("<I", struct.pack("<f", x))[0]


def f64_bits(x):
    return struct.unpack("<Q", struct.pack("<d", x))[0]


def bits_f32(b):
    return struct.unpack("<f", struct.pack("<I", b))[0]


def bits_f64(b):
    return struct.unpack("<d", struct.pack("<Q", b))[0]


def arg_bits(kind, pos, vec):
    """Bit pattern (as stored in memory, zero-extended to 64 bits) of the argument at `pos` in vector `vec`."""
    _, cls, size, signed = KINDS[kind]
    w = 8 * size
    if cls == "I":
        if vec == 0:
            pat = (0x0101010101010101 * (pos + 1) + 0x8070605040302010) & M64
            v = pat & ((1 << w) - 1)
            if pos % 2:
                v ^= 1 << (w - 1)
            return v
        if signed:
            return (1 << (w - 1)) if pos % 2 == 0 else (1 << (w - 1)) - 1     # min / max
        return ((1 << w) - 1) if pos % 2 == 0 else (1 << (w - 1))             # max / sign bit only
    if kind == "f":
        if vec == 0:
            x = (pos + 1) * 1.25
            return f32_bits(-x if pos % 2 else x)
        return 0xFF7FFFFF if pos % 2 == 0 else 0x00000001                     # -FLT_MAX / smallest denormal
    if vec == 0:
        x = 100.0 + (pos + 1) * (1.0 + 2.0 ** -40)                           # not representable as float
        return f64_bits(-x if pos % 3 == 1 else x)
    return 0xFFEFFFFFFFFFFFFF if pos % 2 == 0 else 0x0000000000000001         # -DBL_MAX / smallest denormal


def c_value(kind, bits):
    """The C value (Python int or float) denoted by a bit pattern of that kind."""
    _, cls, size, signed = KINDS[kind]
    if cls == "F":
        return bits_f32(bits) if kind == "f" else bits_f64(bits)
    if signed and bits >> (8 * size - 1):
        return bits - (1 << (8 * size))
    return bits


def c_const(kind, bits):
    ctype, cls, size, _ = KINDS[kind]
    if cls == "I":
        return "(%s)0x%xUL" % (ctype, bits)
    x = c_value(kind, bits)
    return x.hex() + ("f" if kind == "f" else "")


def as_i64(v):
    v &= M64
    return v - (1 << 64) if v >> 63 else v


def expected_return(sig, vec):
    """Bit pattern of the value the callee body must return."""
    r, ps = sig
    if r == "v":
        return None
    vals = [c_value(k, arg_bits(k, i, vec)) for i, k in enumerate(ps)]
    if KINDS[r][1] == "I":
        acc = 1000
        for i, (k, v) in enumerate(zip(ps, vals)):
            if KINDS[k][1] == "I":
                acc = (acc + (v & M64) * (2 * i + 3)) & M64
        return acc & ((1 << (8 * KINDS[r][2])) - 1)
    acc = 1000.0
    for i, (k, v) in enumerate(zip(ps, vals)):
        x = float(as_i64(v)) if KINDS[k][1] == "I" else v
        acc = acc + x * (2.0 ** -(i + 1))
    if r == "f":
        return f32_bits(ctypes.c_float(acc).value)
    return f64_bits(acc)


def dec_lit(i):
    """Exact decimal literal of 2^-(i+1)."""
    from fractions import Fraction
    fr = Fraction(1, 2 ** (i + 1))
    digits = i + 1
    n = fr.numerator * 10 ** digits // fr.denominator
    return "0." + str(n).rjust(digits, "0")


def return_expr(sig):
    r, ps = sig
    if r == "v":
        return None
    if KINDS[r][1] == "I":
        terms = ["(unsigned long)1000"]
        for i, k in enumerate(ps):
            if KINDS[k][1] != "I":
                continue
            if k == "ul":
                x = "a%d" % i
            elif k in ("sl", "p"):
                x = "(unsigned long)a%d" % i
            else:
                x = "(unsigned long)(long)a%d" % i
            terms.append("%s * (unsigned long)%d" % (x, 2 * i + 3))
        e = " + ".join(terms)
        return e if r == "ul" else "(%s)(%s)" % (KINDS[r][0], e)
    terms = ["1000.0"]
    for i, k in enumerate(ps):
        if k == "d":
            x = "a%d" % i
        elif k in ("f", "sl"):
            x = "(double)a%d" % i
        else:
            x = "(double)(long)a%d" % i
        terms.append("%s * %s" % (x, dec_lit(i)))
    e = " + ".join(terms)
    return e if r == "d" else "(float)(%s)" % e


def callee_source(sig, fname, gprefix, define_globals=True):
    """The callee (identical text for the ppci and gcc side): stores each argument, returns the checksum."""
    r, ps = sig
    lines = []
    for i, k in enumerate(ps):
        lines.append("%s %s%d;" % (KINDS[k][0], gprefix, i))
    rt = "void" if r == "v" else KINDS[r][0]
    params = ", ".join("%s a%d" % (KINDS[k][0], i) for i, k in enumerate(ps)) or "void"
    body = " ".join("%s%d = a%d;" % (gprefix, i, i) for i in range(len(ps)))
    e = return_expr(sig)
    if e is not None:
        body += " return %s;" % e
    lines.append("%s %s(%s) { %s }" % (rt, fname, params, body))
    return "\n".join(lines) + "\n"


def caller_source(sig, n):
    """Direction B, ppci side: loads every argument from a global set by the driver and calls the gcc callee."""
    r, ps = sig
    lines = ["extern %s vb%d_%d;" % (KINDS[k][0], n, i) for i, k in enumerate(ps)]
    rt = "void" if r == "v" else KINDS[r][0]
    lines.append("%s gb%d(%s);" % (rt, n, ", ".join(KINDS[k][0] for k in ps) or "void"))
    call = "gb%d(%s)" % (n, ", ".join("vb%d_%d" % (n, i) for i in range(len(ps))))
    lines.append("%s cb%d(void) { %s%s; }" % (rt, n, "" if r == "v" else "return ", call))
    return "\n".join(lines) + "\n"


# ---------------------------------------------------------------- gcc driver

DRIVER_HEAD = r"""
#include <stdio.h>
#include <string.h>
#include <signal.h>
#include <setjmp.h>
#include <unistd.h>
#include <stdlib.h>
typedef unsigned long u64;
void *shim_target; void *shim_ret; u64 shim_save[7]; volatile unsigned shim_bad;
volatile unsigned misalign, entered;
extern void shim(void);
__asm__(
"    .text\n"
"    .globl shim\n"
"    .type shim,@function\n"
"shim:\n"
"    popq  shim_ret(%rip)\n"
"    movq  %rbx, shim_save+0(%rip)\n"
"    movq  %rbp, shim_save+8(%rip)\n"
"    movq  %r12, shim_save+16(%rip)\n"
"    movq  %r13, shim_save+24(%rip)\n"
"    movq  %r14, shim_save+32(%rip)\n"
"    movq  %r15, shim_save+40(%rip)\n"
"    movq  %rsp, shim_save+48(%rip)\n"
"    movabsq $0x5B5B5B5B5B5B5B01, %rbx\n"
"    movabsq $0x5B5B5B5B5B5B5B02, %rbp\n"
"    movabsq $0x5B5B5B5B5B5B5B03, %r12\n"
"    movabsq $0x5B5B5B5B5B5B5B04, %r13\n"
"    movabsq $0x5B5B5B5B5B5B5B05, %r14\n"
"    movabsq $0x5B5B5B5B5B5B5B06, %r15\n"
"    call  *shim_target(%rip)\n"
"    xorl  %ecx, %ecx\n"
"    movabsq $0x5B5B5B5B5B5B5B01, %r11\n    cmpq %r11, %rbx\n    je 1f\n    orl $1, %ecx\n1:\n"
"    movabsq $0x5B5B5B5B5B5B5B02, %r11\n    cmpq %r11, %rbp\n    je 1f\n    orl $2, %ecx\n1:\n"
"    movabsq $0x5B5B5B5B5B5B5B03, %r11\n    cmpq %r11, %r12\n    je 1f\n    orl $4, %ecx\n1:\n"
"    movabsq $0x5B5B5B5B5B5B5B04, %r11\n    cmpq %r11, %r13\n    je 1f\n    orl $8, %ecx\n1:\n"
"    movabsq $0x5B5B5B5B5B5B5B05, %r11\n    cmpq %r11, %r14\n    je 1f\n    orl $16, %ecx\n1:\n"
"    movabsq $0x5B5B5B5B5B5B5B06, %r11\n    cmpq %r11, %r15\n    je 1f\n    orl $32, %ecx\n1:\n"
"    cmpq  shim_save+48(%rip), %rsp\n    je 1f\n    orl $64, %ecx\n1:\n"
"    movl  %ecx, shim_bad(%rip)\n"
"    movq  shim_save+0(%rip), %rbx\n"
"    movq  shim_save+8(%rip), %rbp\n"
"    movq  shim_save+16(%rip), %r12\n"
"    movq  shim_save+24(%rip), %r13\n"
"    movq  shim_save+32(%rip), %r14\n"
"    movq  shim_save+40(%rip), %r15\n"
"    movq  shim_save+48(%rip), %rsp\n"
"    jmp   *shim_ret(%rip)\n"
"    .size shim, .-shim\n"
);
#define BITS(x) ({ u64 _b = 0; memcpy(&_b, (const void *)&(x), sizeof(x)); _b; })
#define POISON(x) memset((void *)&(x), 0xA5, sizeof(x))
static sigjmp_buf jb;
static volatile int cur_n, cur_vec; static volatile char cur_dir;
static char altstack[65536];
static void on_signal(int s) {
    char buf[64];
    int n = snprintf(buf, sizeof buf, "C %c %d %d %d\n", cur_dir, cur_n, cur_vec, s);
    if (write(1, buf, n) < 0) _exit(3);
    siglongjmp(jb, 1);
}
static void chk(char dir, int n, int vec, const char *what, int pos, u64 got, u64 exp) {
    if (got != exp) printf("F %c %d %d %s %d %016lx %016lx\n", dir, n, vec, what, pos, got, exp);
}
"""

DRIVER_MAIN = r"""
int main(void) {
    setvbuf(stdout, NULL, _IONBF, 0);
    stack_t ss; ss.ss_sp = altstack; ss.ss_size = sizeof altstack; ss.ss_flags = 0; sigaltstack(&ss, NULL);
    struct sigaction sa; memset(&sa, 0, sizeof sa); sa.sa_handler = on_signal; sa.sa_flags = SA_ONSTACK | SA_NODEFER;
    sigaction(SIGSEGV, &sa, NULL); sigaction(SIGBUS, &sa, NULL); sigaction(SIGILL, &sa, NULL); sigaction(SIGFPE, &sa, NULL);
    for (unsigned i = 0; i < sizeof tests / sizeof tests[0]; i++) {
        if (!sigsetjmp(jb, 1)) tests[i]();
    }
    printf("END\n");
    return 0;
}
"""


def driver_source(tests):
    """tests: list of (n, sig).  Both directions of every signature; the ppci-side symbols are weak so that one driver
    object serves every subset of the ppci objects (tests whose object is not linked are skipped)."""
    out = [DRIVER_HEAD]
    names = []
    W = "__attribute__((weak))"
    for n, sig in tests:
        r, ps = sig
        rt = "void" if r == "v" else KINDS[r][0]
        ptypes = ", ".join(KINDS[k][0] for k in ps) or "void"
        # ---- direction A: ppci callee pa<n> with its globals ga<n>_<i>
        for i, k in enumerate(ps):
            out.append("extern %s ga%d_%d %s;" % (KINDS[k][0], n, i, W))
        out.append("extern %s pa%d(%s) %s;" % (rt, n, ptypes, W))
        b = ["static void tA%d(void) {" % n, "  typedef %s (*fn_t)(%s);" % (rt, ptypes)]
        if r != "v":
            b.append("  %s r;" % rt)
        b.append("  if (!pa%d) return;" % n)
        b.append("  cur_dir = 'A'; cur_n = %d; cur_vec = 0; printf(\"T A %d\\n\");" % (n, n))
        for i in range(len(ps)):
            b.append("  if (!&ga%d_%d) { printf(\"F A %d 0 nosym %d 0 1\\n\"); return; }" % (n, i, n, i))
        for vec in (0, 1):
            b.append("  cur_vec = %d;" % vec)
            for i in range(len(ps)):
                b.append("  POISON(ga%d_%d);" % (n, i))
            b.append("  shim_target = (void *)pa%d; shim_bad = 0xFFFF;" % n)
            args = ", ".join(c_const(k, arg_bits(k, i, vec)) for i, k in enumerate(ps))
            b.append("  %s((fn_t)shim)(%s);" % ("" if r == "v" else "r = ", args))
            b.append("  chk('A', %d, %d, \"shim\", 0, shim_bad, 0);" % (n, vec))
            for i, k in enumerate(ps):
                b.append("  chk('A', %d, %d, \"arg\", %d, BITS(ga%d_%d), 0x%xUL);" % (n, vec, i, n, i, arg_bits(k, i, vec)))
            if r != "v":
                b.append("  printf(\"R A %d %d %%016lx\\n\", BITS(r));" % (n, vec))
                b.append("  chk('A', %d, %d, \"ret\", 0, BITS(r), 0x%xUL);" % (n, vec, expected_return(sig, vec)))
            else:
                b.append("  printf(\"R A %d %d void\\n\");" % (n, vec))
        b.append("}")
        out.append("\n".join(b))
        names.append("tA%d" % n)
        # ---- direction B: gcc callee gb<n> (entered through an alignment-checking stub), ppci caller cb<n>
        for i, k in enumerate(ps):
            out.append("%s vb%d_%d;" % (KINDS[k][0], n, i))
        out.append(callee_source(sig, "gb%d_impl" % n, "hb%d_" % n))
        out.append("extern %s gb%d(%s);" % (rt, n, ptypes))
        out.append("__asm__(\"    .text\\n    .globl gb%d\\n    .type gb%d,@function\\ngb%d:\\n\"\n"
                   "\"    incl entered(%%rip)\\n    movq %%rsp, %%r11\\n    andl $15, %%r11d\\n    cmpl $8, %%r11d\\n    je 1f\\n\"\n"
                   "\"    incl misalign(%%rip)\\n1:\\n    jmp gb%d_impl\\n\");" % (n, n, n, n))
        out.append("extern %s cb%d(void) %s;" % (rt, n, W))
        b = ["static void tB%d(void) {" % n, "  typedef %s (*fn_t)(void);" % rt]
        if r != "v":
            b.append("  %s r;" % rt)
        b.append("  if (!cb%d) return;" % n)
        b.append("  cur_dir = 'B'; cur_n = %d; printf(\"T B %d\\n\");" % (n, n))
        for vec in (0, 1):
            b.append("  cur_vec = %d;" % vec)
            for i, k in enumerate(ps):
                b.append("  POISON(hb%d_%d); vb%d_%d = %s;" % (n, i, n, i, c_const(k, arg_bits(k, i, vec))))
            b.append("  shim_target = (void *)cb%d; shim_bad = 0xFFFF; misalign = 0; entered = 0;" % n)
            b.append("  %s((fn_t)shim)();" % ("" if r == "v" else "r = "))
            b.append("  chk('B', %d, %d, \"shim\", 0, shim_bad, 0);" % (n, vec))
            b.append("  chk('B', %d, %d, \"entered\", 0, entered, 1);" % (n, vec))
            b.append("  chk('B', %d, %d, \"align\", 0, misalign, 0);" % (n, vec))
            for i, k in enumerate(ps):
                b.append("  chk('B', %d, %d, \"arg\", %d, BITS(hb%d_%d), 0x%xUL);" % (n, vec, i, n, i, arg_bits(k, i, vec)))
            if r != "v":
                b.append("  printf(\"R B %d %d %%016lx\\n\", BITS(r));" % (n, vec))
                b.append("  chk('B', %d, %d, \"ret\", 0, BITS(r), 0x%xUL);" % (n, vec, expected_return(sig, vec)))
            else:
                b.append("  printf(\"R B %d %d void\\n\");" % (n, vec))
        b.append("}")
        out.append("\n".join(b))
        names.append("tB%d" % n)
    out.append("static void (*tests[])(void) = { %s };" % ", ".join(names))
    out.append(DRIVER_MAIN)
    return "\n".join(out)


# ---------------------------------------------------------------- building and running

class GroupFailure(Exception):
    def __init__(self, stage, detail):
        Exception.__init__(self, stage + ": " + detail)
        self.stage = stage
        self.detail = detail


def ppci_compile(src, path):
    """Compile one translation unit with ppci and write a relocatable ELF.  Returns None or the exception."""
    import io
    import logging
    from ppci import api
    from ppci.format.elf import write_elf
    from vf.core import cpu_limit
    logging.disable(logging.CRITICAL)
    with cpu_limit(60):
        obj = api.cc(io.StringIO(src), "x86_64")
        with open(path, "wb") as f:
            write_elf(obj, f, type="relocatable")


def _limits():
    import resource
    resource.setrlimit(resource.RLIMIT_CPU, (20, 20))
    resource.setrlimit(resource.RLIMIT_CORE, (0, 0))


def compile_driver(d, tag, tests):
    """gcc -O0 -c the driver for `tests` [(n, sig)]; returns the object path."""
    from vf.core import HarnessError
    drv = os.path.join(d, "drv_%s.c" % tag)
    obj = os.path.join(d, "drv_%s.o" % tag)
    with open(drv, "w") as f:
        f.write(driver_source(tests))
    r = subprocess.run(["gcc", "-O0", "-w", "-fno-pie", "-ffp-contract=off", "-fno-builtin", "-c", "-o", obj, drv], capture_output=True, text=True)
    if r.returncode != 0:
        raise HarnessError("gcc rejects the generated driver: " + r.stderr[-400:])
    return obj


def run_group(d, tag, drvobj, objs):
    """Link the driver object with `objs` (GNU ld through gcc), run it, return the parsed records {(dir, n): rec}.
    Tests whose ppci object is not among `objs` skip themselves."""
    exe = os.path.join(d, "drv_%s.exe" % tag)
    rsp = os.path.join(d, "drv_%s.rsp" % tag)
    with open(rsp, "w") as f:
        f.write("\n".join([drvobj] + list(objs)) + "\n")
    r = subprocess.run(["gcc", "-no-pie", "-o", exe, "@" + rsp], capture_output=True, text=True)
    if r.returncode != 0:
        raise GroupFailure("link", (r.stderr or "").strip()[-600:])
    r = subprocess.run([exe], capture_output=True, text=True, errors="replace", preexec_fn=_limits)
    recs = {}
    cur = None
    ended = False
    for line in r.stdout.splitlines():
        t = line.split()
        if not t:
            continue
        if t[0] == "T":
            cur = (t[1], int(t[2]))
            recs[cur] = {"ret": {}, "fails": [], "crash": None}
        elif t[0] == "R":
            recs[(t[1], int(t[2]))]["ret"][int(t[3])] = t[4]
        elif t[0] == "F":
            recs[(t[1], int(t[2]))]["fails"].append((int(t[3]), t[4], int(t[5]), int(t[6], 16), int(t[7], 16)))
        elif t[0] == "C":
            recs[(t[1], int(t[2]))]["crash"] = (int(t[3]), int(t[4]))
        elif t[0] == "END":
            ended = True
    if not ended:
        raise GroupFailure("run", "driver died (status %s) during %s" % (r.returncode, cur))
    return recs


def classify(direction, sig, rec):
    """Provisional findings of one executed (direction, signature): list of (tag tuple, what)."""
    r, ps = sig
    who = ("ppci callee, gcc caller" if direction == "A" else "gcc callee, ppci caller")
    locs = abi_locs(ps)
    out = []
    head = "%s [%s]" % (sig_c(sig), who)
    if rec["crash"]:
        vec, signo = rec["crash"]
        out.append((("crash", SIGNALS.get(signo, str(signo))), "%s: %s during the call (vector %d)" % (head, SIGNALS.get(signo, signo), vec)))
        return out
    fails = sorted(rec["fails"])
    if any(f[1] == "nosym" for f in fails):
        out.append((("nosym",), "%s: a global of the ppci object is not visible to the linker" % head))
        return out
    args = [f for f in fails if f[1] == "arg"]
    rets = [f for f in fails if f[1] == "ret"]
    shim = [f for f in fails if f[1] == "shim"]
    if args:
        vec, _, pos, got, exp = min(args, key=lambda f: (f[2], f[0]))
        k = ps[pos]
        loc = locs[pos]
        if loc[0] == "stack":
            prev = [ps[i] for i in range(pos) if locs[i][0] == "stack"]
            tag = ("arg", "stack", WCLASS[k], WCLASS[prev[-1]] if prev else None)
            where = "stack eightbyte %d" % loc[1]
        else:
            tag = ("arg", loc[0], KNAME[k], None)
            where = ("integer register #%d" if loc[0] == "ireg" else "xmm%d") % loc[1]
            if vec == 0:
                # the recognisable vector tells a misplaced argument (wrong register sequence) from a damaged one
                for j, kj in enumerate(ps):
                    if j != pos and KINDS[kj][1] == KINDS[k][1]:
                        mask = (1 << (8 * min(KINDS[kj][2], KINDS[k][2]))) - 1
                        if got & mask == arg_bits(kj, j, 0) & mask:
                            tag = ("argperm", loc[0])
                            where += ", holds the value passed as argument %d" % j
                            break
        out.append((tag, "%s: argument %d (%s, %s) received as bits %#x, passed %#x (vector %d)"
                    % (head, pos, KINDS[k][0], where, got, exp, vec)))
    elif rets:
        vec, _, _, got, exp = rets[0]
        out.append((("ret", KNAME[r]), "%s: returned bits %#x, callee body computes %#x (vector %d)" % (head, got, exp, vec)))
    if shim:
        vec, _, _, mask, _ = shim[0]
        if mask == 0xFFFF:
            out.append((("shim", "no-return"), "%s: call did not return through the shim" % head))
        else:
            bad = [SHIM_REGS[i] for i in range(7) if mask >> i & 1]
            if "rsp" in bad:
                out.append((("rsp",), "%s: rsp after the call differs from rsp before it" % head))
            regs = [b for b in bad if b != "rsp"]
            if regs:
                out.append((("clobber", regs[0]), "%s: callee-saved %s not preserved across the call" % (head, ", ".join(regs))))
    for f in fails:
        if f[1] == "align":
            nstack = sum(1 for l in locs if l[0] == "stack")
            out.append((("align", "odd" if nstack % 2 else "even"),
                        "%s: rsp %% 16 != 0 at the call instruction (%d stack eightbytes)" % (head, nstack)))
            break
    for f in fails:
        if f[1] == "entered":
            out.append((("entered",), "%s: gcc callee entered %d times, expected once" % (head, f[3])))
            break
    return out


def compile_finding(direction, sig, exc):
    from vf.core import innermost_ppci_frame
    locs = abi_locs(sig[1])
    stack_classes = tuple(sorted({WCLASS[k] for k, l in zip(sig[1], locs) if l[0] == "stack"}))
    what = "%s [%s]: ppci raised %s(%s) in %s" % (sig_c(sig), "ppci callee" if direction == "A" else "ppci caller",
                                                 type(exc).__name__, str(exc)[:120], innermost_ppci_frame(exc))
    return (("compile", type(exc).__name__, innermost_ppci_frame(exc), stack_classes), what)


class Explorer:
    """Compiles, links, runs and classifies signatures inside one scratch directory."""

    def __init__(self, d, p):
        self.d = d
        self.p = p
        self.findings = []     # (order, direction, sigstr, tag, what, confirmed)
        self.confirmed_tags = set()
        self.seq = 0

    def build(self, n, sig, want_a=True, want_b=True):
        """ppci-compile both translation units of signature n; returns (test tuple, objs, compile findings)."""
        from vf.core import CpuTimeout
        objs = {}
        cf = []
        do = {}
        for direction, want in (("A", want_a), ("B", want_b)):
            do[direction] = False
            if not want:
                continue
            src = callee_source(sig, "pa%d" % n, "ga%d_" % n) if direction == "A" else caller_source(sig, n)
            path = os.path.join(self.d, "%s%d_%d.o" % (direction.lower(), n, self.seq))
            self.seq += 1
            try:
                ppci_compile(src, path)
                objs[direction] = path
                do[direction] = True
            except CpuTimeout:
                cf.append((direction, (("compile", "CpuTimeout", "-", ()), "%s: ppci did not finish within 60 CPU seconds" % sig_c(sig))))
            except Exception as ex:  # noqa
                cf.append((direction, compile_finding(direction, sig, ex)))
        return (n, sig, do["A"], do["B"]), objs, cf

    def run_tests(self, tests, objs, tag, drvobj):
        """Run a group; on a group-level failure bisect down to single signatures.
        Returns {(dir, n): rec}; group failures of a single signature become rec with 'group' set."""
        if not tests:
            return {}
        try:
            return run_group(self.d, tag, drvobj, [objs[t[0]][dr] for t in tests for dr, on in (("A", t[2]), ("B", t[3])) if on])
        except GroupFailure as gf:
            self.p.count("group_failures")
            if any(t[2] and t[3] for t in tests):
                # split the two directions first
                res = self.run_tests([(t[0], t[1], True, False) for t in tests if t[2]], objs, tag + "a", drvobj)
                res.update(self.run_tests([(t[0], t[1], False, True) for t in tests if t[3]], objs, tag + "b", drvobj))
                return res
            if len(tests) == 1:
                t = tests[0]
                return {("A" if t[2] else "B", t[0]): {"ret": {}, "fails": [], "crash": None, "group": (gf.stage, gf.detail)}}
            mid = len(tests) // 2
            res = self.run_tests(tests[:mid], objs, tag + "l", drvobj)
            res.update(self.run_tests(tests[mid:], objs, tag + "r", drvobj))
            return res

    def findings_of(self, direction, sig, rec):
        if rec.get("group"):
            stage, detail = rec["group"]
            side = "ppci callee" if direction == "A" else "ppci caller"
            lines = [l.strip() for l in detail.splitlines() if l.strip()]
            pick = [l for l in lines if ("undefined reference" in l or "relocation" in l or "error" in l) and "collect2" not in l]
            first = (pick or lines or [""])[0]
            if self.d in first:
                first = first.replace(self.d + "/", "")
            return [((stage,), "%s [%s]: %s failed on its own: %s" % (sig_c(sig), side, "gcc/ld link" if stage == "link" else "driver run", first[:200]))]
        return classify(direction, sig, rec)

    def single(self, sig, direction):
        """One signature, one direction, in isolation.  Returns (findings, rec)."""
        t, objs, cf = self.build(0, sig, direction == "A", direction == "B")
        if cf:
            return [f for _, f in cf], None
        self.seq += 1
        drvobj = compile_driver(self.d, "s%d" % self.seq, [(0, sig)])
        res = self.run_tests([t], {0: objs}, "s%d" % self.seq, drvobj)
        rec = res.get((direction, 0))
        if rec is None:
            rec = {"ret": {}, "fails": [(0, "nosym", 0, 0, 1)], "crash": None}
        return self.findings_of(direction, sig, rec), rec

    def selfcheck(self, items, drvobj):
        """The same driver with gcc (-O1) on BOTH sides must be silent for every signature of the batch: validates the
        shim, the stubs, the driver and the Python reference against gcc.  Any disagreement is a harness error."""
        from vf.core import HarnessError
        src = os.path.join(self.d, "selfcheck.c")
        obj = os.path.join(self.d, "selfcheck.o")
        with open(src, "w") as f:
            for n, (order, sig) in enumerate(items):
                f.write(callee_source(sig, "pa%d" % n, "ga%d_" % n))
                f.write(caller_source(sig, n))
        r = subprocess.run(["gcc", "-O1", "-w", "-fno-pie", "-ffp-contract=off", "-c", "-o", obj, src], capture_output=True, text=True)
        if r.returncode != 0:
            raise HarnessError("self-check: gcc rejects the generated sources: " + r.stderr[-400:])
        try:
            res = run_group(self.d, "sc", drvobj, [obj])
        except GroupFailure as gf:
            raise HarnessError("self-check (gcc on both sides) failed: %s" % gf)
        for n, (order, sig) in enumerate(items):
            for direction in "AB":
                rec = res.get((direction, n))
                fs = classify(direction, sig, rec) if rec is not None else [(("run",), "no record")]
                if fs or len(rec["ret"]) != 2:
                    raise HarnessError("self-check (gcc on both sides) disagrees with the reference: %s %s %r" % (direction, sig_str(sig), fs))
        self.p.count("selfcheck_gcc_vs_gcc_calls", 4 * len(items))

    def batch(self, items):
        """items: list of (order, sig)."""
        p = self.p
        tests, objs, built = [], {}, {}
        for n, (order, sig) in enumerate(items):
            t, o, cf = self.build(n, sig)
            objs[n] = o
            for direction, (tag, what) in cf:
                p.add()
                p.count("ppci_compile_failures")
                self.findings.append((order, direction, sig_str(sig), tag, what, True))
            if t[2] or t[3]:
                tests.append(t)
            built[("A", n)], built[("B", n)] = t[2], t[3]
        drvobj = compile_driver(self.d, "b", [(n, sig) for n, (order, sig) in enumerate(items)])
        self.selfcheck(items, drvobj)
        res = self.run_tests(tests, objs, "b", drvobj)
        for n, (order, sig) in enumerate(items):
            for direction in "AB":
                rec = res.get((direction, n))
                if rec is None:
                    if not built[(direction, n)]:
                        continue
                    # compiled by ppci but the driver found no such function: the symbol is missing or not global
                    rec = {"ret": {}, "fails": [(0, "nosym", 0, 0, 1)], "crash": None}
                ncalls = len(rec["ret"]) + (1 if rec["crash"] else 0)
                p.add(max(ncalls, 1))
                p.count("calls_executed", ncalls)
                for vec, bits in sorted(rec["ret"].items()):
                    p.outcome((direction, sig[0], bits))
                p.collect("locations_exercised", "%s:%s" % (direction, ",".join(sorted({"%s@%s" % (WCLASS[k], l[0]) for k, l in zip(sig[1], abi_locs(sig[1]))}))))
                fs = self.findings_of(direction, sig, rec)
                if not fs:
                    p.count("signatures_conforming")
                    continue
                p.count("signature_failures")
                new = [f for f in fs if (direction, f[0]) not in self.confirmed_tags]
                if not new:
                    p.count("failures_same_locus_not_reconfirmed")
                    continue
                # confirm in isolation (the batch already names the signature; this rules out cross-talk)
                alone, _ = self.single(sig, direction)
                alone_tags = {f[0] for f in alone}
                for tag, what in new:
                    if tag in alone_tags:
                        self.confirmed_tags.add((direction, tag))
                        self.findings.append((order, direction, sig_str(sig), tag, what, True))
                    else:
                        p.count("unclassified_batch_only_failures")
                        p.collect("unclassified_batch_only", "%s %s %r" % (direction, sig_str(sig), tag))


def worker(p, shard):
    from vf.core import scratch
    with scratch(ID) as d:
        ex = Explorer(d, p)
        for bi, items in shard:
            sub = os.path.join(d, "b%d" % bi)
            os.makedirs(sub)
            ex.d = sub
            ex.batch(items)
            import shutil
            shutil.rmtree(sub, ignore_errors=True)
        for f in ex.findings:
            p.collect("_findings", f)


# ---------------------------------------------------------------- keys

def assign_keys(findings):
    """findings: iterable of (order, direction, sigstr, tag, what, confirmed) -> list of (key, order, what, witness), n_explained.

    A compile failure is keyed by mechanism: the register class of the stack-passed argument kind that ppci does not
    implement, established by the signatures whose stack-passed arguments all have one class; failures of signatures
    with several stack classes are explained by those and only counted.  A wrong stack argument is keyed by the class
    of the stack argument before it (whose slot size decides its address) unless arguments of its own class already
    fail as the first stack argument."""
    findings = sorted(findings, key=lambda f: (f[0], f[1], f[2], repr(f[3])))
    out = []
    explained = 0
    alone = {}   # (direction, exc, frame) -> set of classes failing alone
    first_stack = {}  # direction -> set of own classes failing as first stack arg
    for order, direction, s, tag, what, _ in findings:
        if tag[0] == "compile" and len(tag[3]) == 1:
            alone.setdefault((direction, tag[1], tag[2]), set()).add(tag[3][0])
        if tag[0] == "arg" and tag[1] == "stack" and tag[3] is None:
            first_stack.setdefault(direction, set()).add(tag[2])
    for order, direction, s, tag, what, _ in findings:
        side = "callee" if direction == "A" else "caller"
        wit = {"sig": s, "dir": direction}
        if tag[0] == "compile":
            _, exc, frame, classes = tag
            if exc == "NotImplementedError" and len(classes) == 1:
                key = "%s/stack-arg-kind-unsupported/%s" % (side, classes[0])
            elif len(classes) > 1 and alone.get((direction, exc, frame), set()) & set(classes):
                explained += 1
                continue
            else:
                key = "%s/compile/%s/%s%s" % (side, exc, frame, "/stack-" + "+".join(classes) if classes else "")
        elif tag[0] == "arg":
            _, loc, own, prev = tag
            if loc != "stack":
                key = "%s/arg-wrong/%s@%s" % (side, own, loc)
            elif prev is None:
                key = "%s/arg-wrong/%s@stack-first" % (side, own)
            elif own in first_stack.get(direction, set()):
                explained += 1
                continue
            else:
                key = "%s/arg-wrong/stack-after-%s" % (side, prev)
        elif tag[0] == "argperm":
            key = "%s/arg-misplaced/%s" % (side, tag[1])
        elif tag[0] == "ret":
            key = "%s/ret-wrong/%s" % (side, tag[1])
        elif tag[0] == "clobber":
            key = "%s/callee-saved-clobbered/%s" % (side, tag[1])
        elif tag[0] == "rsp":
            key = "%s/rsp-not-preserved" % side
        elif tag[0] == "align":
            key = "%s/stack-misaligned-at-call/%s-stack-eightbytes" % (side, tag[1])
        elif tag[0] == "crash":
            key = "%s/crash/%s" % (side, tag[1])
        elif tag[0] == "entered":
            key = "%s/callee-not-entered-once" % side
        elif tag[0] == "shim":
            key = "%s/no-return" % side
        elif tag[0] == "link":
            key = "%s/link-failed" % side
        elif tag[0] == "nosym":
            key = "%s/symbol-not-linkable" % side
        elif tag[0] == "run":
            key = "%s/driver-died" % side
        else:
            key = "%s/%s" % (side, "-".join(str(t) for t in tag))
        out.append((key, order, what, wit))
    return out, explained


# ---------------------------------------------------------------- entry points

def run(ctx):
    sigs = signatures(ctx.tier, ctx.seed)
    ctx.note("n_signatures", len(sigs))
    ctx.note("n_signatures_with_stack_args", sum(1 for s in sigs if any(l[0] == "stack" for l in abi_locs(s[1]))))
    ctx.note("batch_size", BATCH)
    for s in (sigs[1], sigs[len(sigs) // 2], sigs[-1]):
        ctx.sample({"signature": sig_c(s), "abi_locations": ["%s%d" % l for l in abi_locs(s[1])],
                    "args_vector0": ["%#x" % arg_bits(k, i, 0) for i, k in enumerate(s[1])],
                    "expected_return_bits": [("%#x" % expected_return(s, v)) if s[0] != "v" else None for v in (0, 1)],
                    "callee": callee_source(s, "f", "g")})
    indexed = list(enumerate(sigs))
    batches = [(bi, indexed[i:i + BATCH]) for bi, i in enumerate(range(0, len(indexed), BATCH))]
    # heaviest (longest lists) first so that the pool's tail is short; results are order-independent
    ctx.pmap(worker, batches[::-1], nshards=len(batches))
    findings = ctx.sets.pop("_findings", set())
    keyed, explained = assign_keys(findings)
    if explained:
        ctx.counters["failures_explained_by_simpler_locus"] = explained
    for key, order, what, wit in keyed:
        ctx.violation(key, what, wit, order=order)


def replay(w):
    from vf.core import scratch, Partial
    sig = sig_parse(w["sig"])
    with scratch(ID) as d:
        ex = Explorer(d, Partial())
        fs, _ = ex.single(sig, w["dir"])
    if fs:
        return True, "; ".join(what for _, what in fs)
    return False, "%s: values, callee-saved registers, rsp and alignment as the ABI requires (direction %s)" % (sig_c(sig), w["dir"])
