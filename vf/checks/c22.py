"""C22 - WebAssembly execution (ppci.wasm.instantiate, targets python and native) vs V8, bit for bit.

Second generation (sec "Y"): (G) memory.grow sequences on fresh instances, (Q) comparisons as conditions, (B) bulk memory, (R) reference
types / table instructions, (S) start functions and globals of every type, (V) multi-value inside a module.

Sections: (N) every numeric operator as a one-instruction function on the full product of boundary operands,
(M) loads/stores of every width/signedness at edge addresses with memory snapshots, memory.size/grow,
(C) control skeletons with a trace global, (X) calls (direct/indirect/imported/recursive), globals, select, drop,
start function, data/elem segments.  Every module is executed by node and by ppci on both targets."""
import os
import sys
import struct
import signal
import pickle

ID = "C22"
LEVEL = "exploration"
RULE = ("(N) each of the 136 numeric operators (MVP + sign-extension + saturating truncation) as a one-instruction function on the full product of "
        "the boundary alphabet of its operand types (ints: V7 quick / V13 thorough; floats: 23 (f32) / 28 (f64) quick, 40 / 52 thorough bit patterns incl. both NaN "
        "signs, -0.0, denormals, ties, 2^31/2^32/2^63/2^64 neighbours); (M) 14 loads and 9 stores x offset immediates {0,4,(65535,0xffffffff)} x "
        "edge addresses {0..3,5,page-9..page+1,-1,-2^31} with a memory snapshot after every store, memory.size/grow sequences with and without "
        "max; (C) every control skeleton of nesting <=1 (quick) / <=2 (thorough) on all condition-bit vectors x index {0,1,2,3,4,-1}; (X) 15 "
        "hand-built call/global/select/start/segment modules; second generation: (G) memory.grow: every sequence of grow amounts of length <=2 over "
        "{0,1,2,-1} (thorough: <=3 over {0,1,2,3,65535,65536,-1,-2^31}) plus one scripted 8-step sequence, each on a fresh instance, x memory "
        "{1 page no max, 1..2, imported 1..2} (thorough also 1..1, 1..3, 0..2), with memory.size, zero-check of every new page, store/load of the last "
        "byte of every page and a memory snapshot after every step, grow+size in one expression, accesses just beyond the grown memory; (Q) every "
        "comparison operator (34) as condition of if / br_if / select / local+if / eqz+if / value on the V3 (ints) and 5x5 incl. nan,-0.0 (floats) "
        "operand product; (B) bulk memory: memory.fill/copy/init, data.drop on a one-page memory, full product of edge destination/source/length "
        "operands incl. zero length at/after the end, 2^32-1, overlap, passive/empty/dropped/active segments; (R) reference types: table.get/set, "
        "ref.null/func/is_null, typed select, table.size/grow/fill/copy/init, elem.drop on one funcref table 4..8 with active, passive and "
        "declarative segments, full edge-operand products, the table read back through is_null+call_indirect after every group; (S) start "
        "functions (global of each type x own/with imported global of that type; stores, memory.grow in start; three trapping start functions) "
        "and exported mutable globals read back; (V) multi-value inside a module (two/three-result calls, block/if/loop parameters); x targets "
        "{python, native}; distinct non-trivial = distinct (operator, V8 outcome)")
ASSUMPTIONS = [
    "reference engine: node v20 / V8 on the binary produced by the own encoder (wasmgen.encode), which V8 validates",
    "floats cross the boundary as bit patterns; a NaN result equals any NaN of the same type; traps are compared as trap / no trap",
    "a ppci trap is any Python exception raised by the exported callable; a process-killing signal is not accepted as a trap",
    "native code runs in a forked child (one per module, plus one per run of calls that V8 traps on) because ppci native code can kill the "
    "process; at most 3 process-killing calls per (operator family, trap kind, target, module) are executed, the rest is counted as capped",
    "state (globals/memory) is compared after calls on which both sides agree about trapping; after a V8-trapping call only when the call starts "
    "from a reset state (control skeletons)",
    "NotImplementedError from ppci = unsupported feature, counted and listed, not a violation",
    "families B, R, V give ppci the module as WAT text (own renderer, flat style) because ppci's binary reader/writer know neither bulk-memory nor "
    "reference-type instructions, passive segments or type-index block types (C21 counts that as unsupported); V8 gets the own binary of the same AST",
    "outside the supported feature set (recorded, not enumerated): exported functions with several results (ppci's export API has no way to return "
    "them), externref tables (NotImplementedError 'Non function pointer tables'), more than one table or memory, imported f32/f64 globals "
    "(NotImplementedError in eval_expression), imported memories/globals on the native target ('Cannot import')",
    "trapping bulk operations are ordered last inside each operand product (predicted from the specification only to save forked processes; V8 "
    "alone decides what is expected); state changes of a call on which V8 traps are not compared (it runs in a forked process)",
    "a start function on which V8 traps must make ppci's instantiate raise; a returned instance or a killed process is a violation",
    "violation keys end in the target (python | native), one key per target, never 'both'",
]
CLAIM = {"text": "for every enumerated (module, invocation) both ppci execution targets return V8's result bits, trap exactly when V8 traps, "
                 "and leave the same exported globals and memory",
         "note": "trusted: V8, own encoder (V8-validated), comparison harness", "technique": "bounded exhaustive differential execution vs V8",
         "engine": "K1 wasmgen + node adapter"}

TARGETS = ("python", "native")


# ---------------------------------------------------------------- value plumbing

def to_py(v):
    t, b = v
    if t == "f32":
        return struct.unpack("<f", struct.pack("<I", b))[0]
    if t == "f64":
        return struct.unpack("<d", struct.pack("<Q", b))[0]
    return b


def round_f32(x):
    try:
        return struct.unpack("<f", struct.pack("<f", x))[0]
    except OverflowError:
        return float("inf") if x > 0 else float("-inf")


def from_py(t, r):
    """ppci result -> ("ok", (t, bits)) | ("unrounded", (t, bits of the rounded value), repr) | ("bad", description)."""
    if t is None:
        return ("ok", None)
    if t in ("i32", "i64"):
        w = 32 if t == "i32" else 64
        if isinstance(r, bool):
            r = int(r)
        if not isinstance(r, int):
            return ("bad", "%s result is %r" % (t, r))
        if not -(1 << (w - 1)) <= r < (1 << w):
            return ("bad", "%s result %d does not fit %d bits" % (t, r, w))
        r &= (1 << w) - 1
        return ("ok", (t, r - (1 << w) if r >> (w - 1) else r))
    if isinstance(r, int) and not isinstance(r, bool):
        return ("bad", "%s result is the int %r" % (t, r))
    if not isinstance(r, float):
        return ("bad", "%s result is %r" % (t, r))
    if t == "f64":
        return ("ok", (t, struct.unpack("<Q", struct.pack("<d", r))[0]))
    rr = round_f32(r)
    bits = struct.unpack("<I", struct.pack("<f", rr))[0]
    if rr != r and r == r:
        return ("unrounded", (t, bits), repr(r))
    return ("ok", (t, bits))


# ---------------------------------------------------------------- operand classes (locus vocabulary)

PRIORITY = ["nan", "inf", "int-min", "neg-zero", "denormal", "big", "neg-frac", "frac", "minus-one", "neg", "int-max", "ordinary"]


def one_class(v):
    t, b = v
    if t in ("i32", "i64"):
        w = 32 if t == "i32" else 64
        if b == -(1 << (w - 1)):
            return "int-min"
        if b == -1:
            return "minus-one"
        if b < 0:
            return "neg"
        if b >= (1 << (w - 1)) - 2:
            return "int-max"
        return "ordinary"
    x = to_py(v)
    if x != x:
        return "nan"
    if x in (float("inf"), float("-inf")):
        return "inf"
    if x == 0:
        return "neg-zero" if (b >> (31 if t == "f32" else 63)) else "ordinary"
    if abs(x) < (1.2e-38 if t == "f32" else 2.3e-308):
        return "denormal"
    if abs(x) >= 2.0 ** 31:
        return "big"
    if x != int(x):
        return "neg-frac" if x < 0 else "frac"
    return "neg" if x < 0 else "ordinary"


def arg_class(args):
    cs = [one_class(a) for a in args] or ["ordinary"]
    return min(cs, key=PRIORITY.index)


def result_class(want, got):
    """Class derived from the expected/observed results when that is more telling than the operands."""
    from vf.oracles import node
    if want is None or got is None or want[0] not in ("f32", "f64"):
        return None
    if node.is_nan(want) and not node.is_nan(got):
        return "nan-result"
    sign = 1 << (31 if want[0] == "f32" else 63)
    if want[1] & ~sign == 0 and got[1] & ~sign == 0:
        return "zero-sign"
    return None


TRAP_KINDS = [("unreachable", "unreachable"), ("divide by zero", "int-div-zero"), ("remainder by zero", "int-div-zero"),
              ("unrepresentable in integer", "float-unrepresentable"), ("divide result unrepresentable", "int-overflow"),
              ("memory access out of bounds", "oob-memory"), ("table index is out of bounds", "oob-table"),
              ("table access out of bounds", "oob-table"), ("element segment out of bounds", "oob-elem-segment"),
              ("data segment", "oob-data-segment"), ("signature mismatch", "indirect-call-type"), ("null function", "indirect-call-type"), ("call stack", "stack-exhausted")]


def trap_kind(msg):
    for needle, kind in TRAP_KINDS:
        if needle in msg:
            return kind
    return "other"


FCMP = ("eq", "ne", "lt", "le", "gt", "ge")


def key_op(op):
    """Locus name of an operator: width-agnostic (i32/i64 -> i*, f32/f64 -> f*), immediates and skeleton result types dropped,
    families div/rem/trunc/trunc_sat/load/store/float-compare collapsed."""
    base = op.split("@")[0]
    for suf in ("-i32", "-f64"):
        if base.endswith(suf):
            base = base[:-len(suf)]
    if "." in base and base.split(".")[0] in ("i32", "i64", "f32", "f64"):
        t, name = base.split(".", 1)
        for fam in ("load", "store"):
            if name.startswith(fam):
                return fam
        for fam in ("div", "rem", "trunc_sat"):
            if name.startswith(fam):
                return t[0] + "*." + fam
        if name.startswith("trunc_f"):
            return "i*.trunc_f"
        if t[0] == "f" and name in FCMP:
            return "f*.cmp"
        name = name.replace("32", "*").replace("64", "*") if ("_i" in name or "_f" in name) else name
        return t[0] + "*." + name
    return base


def op_family(op):
    """i32.div_s -> div ; i64.trunc_f32_u -> trunc ; i32.load8_s@o4 -> load ; others unchanged."""
    base = op.split("@")[0]
    name = base.split(".", 1)[1] if "." in base and base.split(".")[0] in ("i32", "i64", "f32", "f64") else base
    for fam in ("div", "rem", "trunc_sat", "trunc", "load", "store"):
        if name.startswith(fam):
            return fam
    return base


# ---------------------------------------------------------------- cases

def numeric_units(tier):
    """[(op, FT, body, [args...])] for every numeric operator."""
    from vf.gen import wasmgen as W
    k = 7 if tier == "quick" else 13
    out = []
    for name, _, params, result in W.NUMERIC:
        alph = [W.alphabet(p, k, tier) for p in params]
        import itertools
        calls = [tuple(zip(params, combo)) for combo in itertools.product(*alph)]
        body = [W.Ins(name, None, [W.lget(i) for i in range(len(params))])]
        out.append((name, W.FT(params, (result,)), body, calls))
    return out


N_PER_MODULE = 34


def case_N(tier, chunk, only=None):
    from vf.gen import wasmgen as W
    units = numeric_units(tier)
    units = units[chunk * N_PER_MODULE:(chunk + 1) * N_PER_MODULE] if only is None else [u for u in units if u[0] == only]
    return build_plain("N", units, {"tier": tier})


def build_plain(sec, units, base_wit):
    """units: [(op, FT, body, calls)] -> case with one exported function per unit; stateless."""
    from vf.gen import wasmgen as W
    m = W.module_of_funcs([(ft, (), body) for _, ft, body, _ in units])
    calls, info = [], []
    for j, (op, ft, body, cs) in enumerate(units):
        for ci, args in enumerate(cs):
            calls.append(("e%d" % j, list(args), ft.results[0] if ft.results else None, False))
            info.append({"op": op.split("|")[0], "unit": op, "ci": ci})
    return {"sec": sec, "m": m, "calls": calls, "info": info, "stateless": True, "wit": base_wit,
            "units": units, "rebuild": lambda us: build_plain(sec, us, base_wit)}


MEM_ADDRS_Q = [0, 1, 2, 3, 5, 65527, 65528, 65529, 65531, 65532, 65533, 65534, 65535, 65536, 65537, -1, -2 ** 31]
STORE_VALUES = {"i32": [0x11223344, -1, -2 ** 31 + 0x7F], "i64": [0x1122334455667788, -1, -2 ** 63 + 0x80FF],
                "f32": [0x3FC00000, 0xFFC00000, 0x80000000], "f64": [0x3FF8000000000000, 0xFFF8000000000000, 0x8000000000000000]}


def case_M(tier, variant):
    """variant 0: memory 1..2 pages; variant 1: memory 1 page without max.  Stateful: calls run in order."""
    from vf.gen import wasmgen as W
    offsets = [0, 4] if tier == "quick" else [0, 4, 65535, 0xFFFFFFFF]
    funcs, names = [], []
    for name, (_, vt, size) in W.LOADS.items():
        for off in offsets:
            funcs.append((W.FT((W.I32,), (vt,)), (), [W.Ins(name, (W.natural_align(name), off), [W.lget(0)])]))
            names.append((name, off, vt, size))
    nload = len(funcs)
    for name, (_, vt, size) in W.STORES.items():
        for off in offsets:
            funcs.append((W.FT((W.I32, vt), ()), (), [W.Ins(name, (W.natural_align(name), off), [W.lget(0), W.lget(1)])]))
            names.append((name, off, vt, size))
    i_size = len(funcs)
    funcs.append((W.FT((), (W.I32,)), (), [W.Ins("memory.size")]))
    i_grow = len(funcs)
    funcs.append((W.FT((W.I32,), (W.I32,)), (), [W.Ins("memory.grow", None, [W.lget(0)])]))
    pattern = bytes([0x01, 0x82, 0x03, 0xF4, 0x05, 0x86, 0x07, 0xF8, 0x7F, 0x80, 0xFF, 0x00, 0x11, 0x92, 0x13, 0x94])
    datas = [(0, pattern), (W.PAGE - 16, pattern[::-1])]
    m = W.module_of_funcs(funcs, {"mem": (1, 2) if variant == 0 else (1, None), "datas": datas, "exports": [("mem", "memory", 0)]})
    calls, info = [], []

    def add(j, args, ret, snap, op):
        calls.append(("e%d" % j, args, ret, snap))
        info.append({"op": op, "unit": "M%d" % variant, "ci": len(calls) - 1})

    addrs = MEM_ADDRS_Q if tier == "quick" else MEM_ADDRS_Q + [4, 7, 8, 65519, 65520, 65530, 131071, 131072, 2 ** 31 - 1, -65536, -4]
    add(i_size, [], W.I32, False, "memory.size")

    def inb(a, off, size):
        return 0 <= (a & 0xFFFFFFFF) + off and (a & 0xFFFFFFFF) + off + size <= W.PAGE

    # in-bounds accesses first, then the out-of-bounds ones (contiguous, so that they share forked grandchildren)
    for want in (True, False):
        for j in range(nload):
            name, off, vt, size = names[j]
            for a in addrs:
                if inb(a, off, size) == want:
                    add(j, [(W.I32, a)], vt, False, "%s@o%d" % (name, off))
    for want in (True, False):
        for j in range(nload, i_size):
            name, off, vt, size = names[j]
            for a in addrs:
                if inb(a, off, size) == want:
                    for v in STORE_VALUES[vt][:2 if tier == "quick" else 3]:
                        add(j, [(W.I32, a), (vt, v)], None, True, "%s@o%d" % (name, off))
    # grow sequences
    j_ld = [i for i, n in enumerate(names) if n[0] == "i32.load" and n[1] == 0][0]
    j_st = [i for i, n in enumerate(names) if n[0] == "i32.store" and n[1] == 0][0]
    seq = [(i_grow, [(W.I32, 0)]), (i_size, []), (j_ld, [(W.I32, 65536)]), (i_grow, [(W.I32, 1)]), (i_size, []),
           (j_ld, [(W.I32, 65536)]), (j_st, [(W.I32, 131068), (W.I32, 0x55667788)]), (j_ld, [(W.I32, 131068)]), (j_ld, [(W.I32, 131069)]),
           (j_ld, [(W.I32, 65532)]), (i_grow, [(W.I32, 1)]), (i_size, []), (i_grow, [(W.I32, 65535)]), (i_grow, [(W.I32, -1)]),
           (i_grow, [(W.I32, 65536)]), (i_size, []), (i_grow, [(W.I32, 0)])]
    for j, args in seq:
        if j == i_grow:
            add(j, args, W.I32, True, "memory.grow")
        elif j == i_size:
            add(j, args, W.I32, False, "memory.size")
        else:
            name, off, vt, size = names[j]
            add(j, args, vt if name.endswith("load") else None, True, "%s@o%d" % (name, off))
    return {"sec": "M", "m": m, "calls": calls, "info": info, "stateless": False, "wit": {"tier": tier, "variant": variant}, "units": None, "rebuild": None}


C_PER_MODULE = 60


def skeleton_units(depth):
    from vf.gen import wasmgen as W
    return list(W.skeleton_functions(depth))


def case_C(depth, units, base_wit):
    """units: skeleton tuples (tag, FT, locals, body, ncond, uses_index).  Each call is followed by a snapshot of the trace global."""
    from vf.gen import wasmgen as W
    from vf.checks.c21 import sk_atoms
    m = W.skeleton_module([(ft, l, b) for _, ft, l, b, _, _ in units], with_reset=True)
    calls, info = [], []
    for j, (tag, ft, l, b, nc, ui) in enumerate(units):
        op = sk_atoms(tag)[0]
        for ci, args in enumerate(W.skeleton_args(nc, ui, rich=True)):
            # the trace global is cleared right before every call, which makes the calls independent of each other
            calls.append(("e%d" % (3 + j), list(args), ft.results[0] if ft.results else None, True, "reset"))
            info.append({"op": op, "unit": tag, "ci": ci})
    return {"sec": "C", "m": m, "calls": calls, "info": info, "stateless": True, "wit": base_wit, "units": units,
            "rebuild": lambda us: case_C(depth, us, base_wit)}


def extra_cases():
    """Hand-built modules for calls, globals, select/drop, start, segments.  Returns [(name, builder)]."""
    from vf.gen import wasmgen as W
    I32, I64, F32, F64, Ins, lget, FT, i32c = W.I32, W.I64, W.F32, W.F64, W.Ins, W.lget, W.FT, W.i32c
    f32b, f64b = W.f32_bits, W.f64_bits
    out = []

    def case(name, funcs, calls, extra=None, stateless=False):
        def build():
            m = W.module_of_funcs(funcs, extra or {})
            cs, info = [], []
            for ci, (fn, args, ret) in enumerate(calls):
                cs.append((fn, args, ret, True))
                info.append({"op": name, "unit": name, "ci": ci})
            return {"sec": "X", "m": m, "calls": cs, "info": info, "stateless": stateless, "wit": {"name": name}, "units": None, "rebuild": None}
        out.append((name, build))

    # 1. argument order and mixed-type parameter passing through direct calls
    sub = {I32: "i32.sub", I64: "i64.sub", F32: "f32.sub", F64: "f64.sub"}
    for vt in W.VTS:
        callee = (FT((vt, vt), (vt,)), (), [Ins(sub[vt], None, [lget(0), lget(1)])])
        caller = (FT((vt, vt), (vt,)), (), [Ins("call", 0, [lget(0), lget(1)])])
        swapped = (FT((vt, vt), (vt,)), (), [Ins("call", 0, [lget(1), lget(0)])])
        vals = {I32: [7, -2], I64: [2 ** 40, -3], F32: [f32b(1.5), f32b(-0.25)], F64: [f64b(1.5), f64b(-0.25)]}[vt]
        calls = [("e%d" % f, [(vt, a), (vt, b)], vt) for f in (0, 1, 2) for a in vals for b in vals]
        case("call-order-" + vt, [callee, caller, swapped], calls, stateless=True)
    # 2. many mixed parameters (register + stack passing in native code)
    ptypes = (I32, I64, F32, F64, I32, F64, I64, F32, I32, I32, F64, F64)
    pick = []
    for k, vt in enumerate(ptypes):
        pick.append((FT(ptypes, (vt,)), (), [lget(k)]))
    wrap = []
    for k, vt in enumerate(ptypes):
        wrap.append((FT(ptypes, (vt,)), (), [Ins("call", k, [lget(i) for i in range(len(ptypes))])]))
    vals = []
    for k, vt in enumerate(ptypes):
        vals.append((vt, {I32: 100 + k, I64: 2 ** 35 + k, F32: f32b(k + 0.5), F64: f64b(-(k + 0.25))}[vt]))
    calls = [("e%d" % j, list(vals), ptypes[j % len(ptypes)]) for j in range(2 * len(ptypes))]
    case("call-many-params", pick + wrap, calls, stateless=True)
    # 3. recursion: factorial (i64), fibonacci (i32), depth counter (i32) to depth 200
    fac = (FT((I64,), (I64,)), (), [W.If(I64, [Ins("i64.eqz", None, [lget(0)])], [W.const(I64, 1)],
                                         [Ins("i64.mul", None, [lget(0), Ins("call", 0, [Ins("i64.sub", None, [lget(0), W.const(I64, 1)])])])])])
    fib = (FT((I32,), (I32,)), (), [W.If(I32, [Ins("i32.lt_u", None, [lget(0), i32c(2)])], [lget(0)],
                                         [Ins("i32.add", None, [Ins("call", 1, [Ins("i32.sub", None, [lget(0), i32c(1)])]),
                                                                Ins("call", 1, [Ins("i32.sub", None, [lget(0), i32c(2)])])])])])
    deep = (FT((I32,), (I32,)), (), [W.If(I32, [lget(0)], [Ins("i32.add", None, [i32c(1), Ins("call", 2, [Ins("i32.sub", None, [lget(0), i32c(1)])])])],
                                          [i32c(0)])])
    case("recursion", [fac, fib, deep], [("e0", [(I64, n)], I64) for n in (0, 1, 5, 20, 25)] + [("e1", [(I32, n)], I32) for n in (0, 1, 2, 10, 15)] +
         [("e2", [(I32, n)], I32) for n in (0, 1, 50, 200)], stateless=True)
    # 4. imported functions of several signatures, call log compared
    imps = [W.Imp("env", "ii", "func", FT((I32, I32), (I32,))), W.Imp("env", "l", "func", FT((I64,), (I64,))),
            W.Imp("env", "dd", "func", FT((F64, F64), (F64,))), W.Imp("env", "s", "func", FT((F32,), (F32,))),
            W.Imp("env", "v", "func", FT((I32,), ()))]
    fs = [(FT((I32, I32), (I32,)), (), [Ins("call", 4, [lget(0)]), Ins("call", 0, [lget(0), lget(1)])]),
          (FT((I64,), (I64,)), (), [Ins("call", 1, [lget(0)])]),
          (FT((F64, F64), (F64,)), (), [Ins("call", 2, [lget(1), lget(0)])]),
          (FT((F32,), (F32,)), (), [Ins("call", 3, [lget(0)])]),
          (FT((I32,), (I32,)), (), [Ins("call", 0, [Ins("call", 0, [lget(0), i32c(1)]), Ins("call", 0, [i32c(2), lget(0)])])])]
    calls = [("e0", [(I32, a), (I32, b)], I32) for a in (0, 3, -1, 2 ** 31 - 1) for b in (0, -7)] + \
            [("e1", [(I64, a)], I64) for a in (0, -1, 2 ** 62, -2 ** 63)] + \
            [("e2", [(F64, f64b(a)), (F64, f64b(b))], F64) for a in (0.5, -2.0) for b in (1.0, 1e300)] + \
            [("e3", [(F32, f32b(a))], F32) for a in (0.5, -2.0, 16777216.0)] + [("e4", [(I32, a)], I32) for a in (1, -5)]
    case("imported-functions", fs, calls, {"imports": imps})
    # 5. call_indirect: correct signature, wrong signature, out-of-range index, uninitialised element
    t_i, t_l, t_v = FT((I32,), (I32,)), FT((I64,), (I64,)), FT((), ())
    fs = [(t_i, (), [Ins("i32.add", None, [lget(0), i32c(1)])]), (t_i, (), [Ins("i32.mul", None, [lget(0), i32c(3)])]),
          (t_l, (), [Ins("i64.add", None, [lget(0), W.const(I64, 5)])]), (t_v, (), []),
          (FT((I32, I32), (I32,)), (), [Ins("call_indirect", "ti", [lget(0), lget(1)])]),
          (FT((I64, I32), (I64,)), (), [Ins("call_indirect", "tl", [lget(0), lget(1)])]),
          (FT((I32,), ()), (), [Ins("call_indirect", "tv", [lget(0)])])]

    def build_ci(fs=fs):
        m = W.module_of_funcs(fs, {"table": (6, 6), "elems": [(0, [0, 1, 2, 3])]})
        tix = {"ti": m.type_index[t_i.key()], "tl": m.type_index[t_l.key()], "tv": m.type_index[t_v.key()]}
        for f in m.funcs:
            W._patch_ci(f.body, tix)
        cs, info = [], []
        calls = [("e4", [(I32, 10), (I32, k)], I32) for k in (0, 1, 2, 3, 4, 5, 6, 7, -1)] + \
                [("e5", [(I64, 10), (I32, k)], I64) for k in (2, 0, 3, 4, 6)] + [("e6", [(I32, k)], None) for k in (3, 0, 2, 5, 6, -1)]
        for ci, (fn, args, ret) in enumerate(calls):
            cs.append((fn, args, ret, False))
            info.append({"op": "call_indirect", "unit": "call-indirect", "ci": ci})
        return {"sec": "X", "m": m, "calls": cs, "info": info, "stateless": True, "wit": {"name": "call-indirect"}, "units": None, "rebuild": None}
    out.append(("call-indirect", build_ci))
    # 6. globals of every type: initial value, set/get through functions, exported globals
    gl = [W.Glob(I32, True, i32c(-7)), W.Glob(I64, True, W.const(I64, 2 ** 40 + 5)), W.Glob(F32, True, W.const(F32, f32b(1.5))),
          W.Glob(F64, True, W.const(F64, f64b(-2.25))), W.Glob(I32, False, i32c(99)), W.Glob(F64, False, W.const(F64, f64b(0.1)))]
    fs, calls = [], []
    for gi, vt in enumerate(W.VTS):
        fs.append((FT((), (vt,)), (), [Ins("global.get", gi)]))
        fs.append((FT((vt,), ()), (), [Ins("global.set", gi, [lget(0)])]))
    fs.append((FT((), (I32,)), (), [Ins("global.get", 4)]))
    fs.append((FT((), (F64,)), (), [Ins("global.get", 5)]))
    for gi, vt in enumerate(W.VTS):
        calls.append(("e%d" % (2 * gi), [], vt))
        for v in W.alphabet(vt, 3)[:4]:
            calls.append(("e%d" % (2 * gi + 1), [(vt, v)], None))
            calls.append(("e%d" % (2 * gi), [], vt))
    calls += [("e8", [], I32), ("e9", [], F64)]
    case("globals", fs, calls, {"globs": gl, "exports": [("g%d" % i, "global", i) for i in range(6)]})
    # 6b. non-finite global initialisers and constants
    gl = [W.Glob(F64, False, W.const(F64, 0xFFF8000000000000)), W.Glob(F32, True, W.const(F32, 0x7F800000))]
    fs = [(FT((), (F64,)), (), [Ins("global.get", 0)]), (FT((), (F32,)), (), [Ins("global.get", 1)])]
    case("globals-nonfinite", fs, [("e0", [], F64), ("e1", [], F32)], {"globs": gl, "exports": [("g0", "global", 0), ("g1", "global", 1)]})
    cunits = [("const-nonfinite|%s-%s" % (vt, lab), FT((), (vt,)), [W.const(vt, v)], [()]) for vt, lab, v in (
        (F64, "nan", 0x7FF8000000000000), (F64, "inf", 0x7FF0000000000000), (F64, "neg-inf", 0xFFF0000000000000), (F32, "nan", 0x7FC00000),
        (F32, "neg-inf", 0xFF800000), (F64, "big", f64b(1e308)), (F32, "neg-zero", f32b(-0.0)), (F64, "denormal", 1))]
    out.append(("consts-nonfinite", lambda: build_plain("X", cunits, {"name": "consts-nonfinite"})))
    # 7. select / drop / local.tee / nop / return on every type
    fs, calls = [], []
    for vt in W.VTS:
        fs.append((FT((vt, vt, I32), (vt,)), (), [Ins("select", None, [lget(0), lget(1), lget(2)])]))
        fs.append((FT((vt, vt), (vt,)), (), [lget(0), Ins("drop", None, [lget(1)]), Ins("nop")]))
        fs.append((FT((vt,), (vt,)), (vt,), [Ins("drop", None, [Ins("local.tee", 1, [lget(0)])]), Ins("return", None, [lget(1)]), W.zero(vt)]))
        a, b = W.alphabet(vt, 3)[1], W.alphabet(vt, 3)[2]
        nan = {F32: 0xFFC00000, F64: 0xFFF8000000000000}.get(vt, b)
        k = len(fs) - 3
        calls += [("e%d" % k, [(vt, x), (vt, y), (I32, c)], vt) for x, y in ((a, b), (nan, a)) for c in (0, 1, -1, 2 ** 31 - 1, 256)]
        calls += [("e%d" % (k + 1), [(vt, a), (vt, b)], vt), ("e%d" % (k + 2), [(vt, a)], vt), ("e%d" % (k + 2), [(vt, nan)], vt)]
    case("select-drop-tee", fs, calls, stateless=True)
    # 8. start function + data + elem segments + unreachable
    fs = [(FT((), ()), (), [Ins("i32.store", (2, 0), [i32c(16), i32c(0x0A0B0C0D)]), Ins("global.set", 0, [i32c(77)])]),
          (FT((I32,), (I32,)), (), [Ins("i32.load", (2, 0), [lget(0)])]),
          (FT((I32,), (I32,)), (), [W.If(None, [lget(0)], [Ins("unreachable")]), i32c(5)]),
          (FT((I32,), (I32,)), (), [Ins("call_indirect", "t", [lget(0), i32c(1)])])]

    def build_start(fs=fs):
        m = W.module_of_funcs(fs, {"mem": (1, None), "globs": [W.Glob(I32, True, i32c(1))], "start": 0, "table": (2, None), "elems": [(1, [1])],
                                   "datas": [(0, b"\x01\x02\x03\x04"), (14, b"\xff\xfe\xfd")], "exports": [("mem", "memory", 0), ("g", "global", 0)]})
        W._patch_ci(m.funcs[3].body, {"t": m.type_index[(("i32",), ("i32",))]})
        calls = [("e1", [(I32, a)], I32) for a in (0, 1, 13, 14, 16, 65532)] + [("e2", [(I32, 0)], I32), ("e2", [(I32, 1)], I32), ("e3", [(I32, 0)], I32),
                                                                                  ("e0", [], None), ("e1", [(I32, 16)], I32)]
        cs, info = [], []
        for ci, (fn, args, ret) in enumerate(calls):
            cs.append((fn, args, ret, True))
            info.append({"op": "start-segments", "unit": "start-segments", "ci": ci})
        return {"sec": "X", "m": m, "calls": cs, "info": info, "stateless": False, "wit": {"name": "start-segments"}, "units": None, "rebuild": None}
    out.append(("start-segments", build_start))
    # 9. loops with accumulators (i64 sum, f64 product), br_table dispatch with a large index
    loop_sum = (FT((I32,), (I64,)), (I64,), [
        W.Blk("block", None, [W.Blk("loop", None, [
            Ins("br_if", 1, [Ins("i32.eqz", None, [lget(0)])]),
            Ins("local.set", 1, [Ins("i64.add", None, [lget(1), Ins("i64.extend_i32_u", None, [lget(0)])])]),
            Ins("local.set", 0, [Ins("i32.sub", None, [lget(0), i32c(1)])]),
            Ins("br", 0)])]),
        lget(1)])
    dispatch = (FT((I32,), (I32,)), (), [
        W.Blk("block", None, [W.Blk("block", None, [W.Blk("block", None, [W.Blk("block", None, [
            Ins("br_table", ([0, 1, 2, 1, 0], 3), [lget(0)])]), Ins("return", None, [i32c(100)])]), Ins("return", None, [i32c(101)])]),
            Ins("return", None, [i32c(102)])]), i32c(103)])
    case("loops-dispatch", [loop_sum, dispatch], [("e0", [(I32, n)], I64) for n in (0, 1, 10, 1000)] +
         [("e1", [(I32, n)], I32) for n in (0, 1, 2, 3, 4, 5, 6, 100, -1, -2 ** 31, 2 ** 31 - 1)], stateless=True)
    # 10. an imported global and an imported memory (python target only supports them)
    fs = [(FT((), (I32,)), (), [Ins("global.get", 0)]), (FT((I32,), (I32,)), (), [Ins("i32.load8_u", (0, 0), [lget(0)])])]
    case("imported-global-memory", fs, [("e0", [], I32), ("e1", [(I32, 0)], I32)],
         {"imports": [W.Imp("env", "gi", "global", (I32, False)), W.Imp("env", "mem", "memory", (1, 2))]})
    return out



# ---------------------------------------------------------------- second-generation families (G, B, R, Q, S, V)

GROW_AMOUNTS_Q = [0, 1, 2, -1]
GROW_AMOUNTS_T = [0, 1, 2, 3, 65535, 65536, -1, -2 ** 31]
GROW_CONFIGS = [("max-none", (1, None), False), ("max-1", (1, 1), False), ("max-2", (1, 2), False), ("max-3", (1, 3), False),
                ("min0-max-2", (0, 2), False), ("imported-1-2", (1, 2), True)]
GROW_LONG = [1, 0, 1, 1, 2, 65536, -1, 0]
GROW_CONFIGS_QUICK = ("max-none", "max-2", "imported-1-2")


def grow_sequences(tier, lim):
    """Every sequence of grow amounts of length <= 2 (quick) / <= 3 (thorough) over the tier's alphabet, plus one long scripted sequence.
    An amount that would make V8 allocate exactly 65536 pages (4 GiB; may fail for lack of memory) is left out: the reference must be deterministic."""
    import itertools
    amounts = GROW_AMOUNTS_Q if tier == "quick" else GROW_AMOUNTS_T
    n = 2 if tier == "quick" else 3
    seqs = [s for k in range(1, n + 1) for s in itertools.product(amounts, repeat=k)] + [tuple(GROW_LONG)]
    out = []
    for sq in seqs:
        size, ok = lim[0], True
        for a in sq:
            ua = a & 0xFFFFFFFF
            if lim[1] is None and size + ua == 65536:
                ok = False
            if size + ua <= (65536 if lim[1] is None else lim[1]):
                size += ua
        if ok:
            out.append(sq)
    return out


def case_G(tier, cfg, seq):
    """memory.grow sequence `seq` on a fresh instance of memory configuration `cfg`.  After every grow: memory.size, then store/load of the
    last byte of every page that V8's model says exists (value = step tag), and a load of the first byte of each new page (must be 0).
    At the very end: load and store at the first byte beyond the memory (V8 traps)."""
    from vf.gen import wasmgen as W
    I32, Ins, lget, FT = W.I32, W.Ins, W.lget, W.FT
    name, lim, imported = [c for c in GROW_CONFIGS if c[0] == cfg][0]
    fs = [(FT((), (I32,)), (), [Ins("memory.size")]),
          (FT((I32,), (I32,)), (), [Ins("memory.grow", None, [lget(0)])]),
          (FT((I32,), (I32,)), (), [Ins("i32.load8_u", (0, 0), [lget(0)])]),
          (FT((I32, I32), ()), (), [Ins("i32.store8", (0, 0), [lget(0), lget(1)])]),
          (FT((I32,), (I32,)), (), [Ins("i32.load", (2, 0), [lget(0)])]),
          # grow and size in one expression: (memory.grow n) * 1000 + memory.size  (evaluation order: grow first)
          (FT((I32,), (I32,)), (), [Ins("i32.add", None, [Ins("i32.mul", None, [Ins("memory.grow", None, [lget(0)]), W.i32c(1000)]), Ins("memory.size")])])]
    extra = {"imports": [W.Imp("env", "mem", "memory", lim)]} if imported else {"mem": lim, "exports": [("mem", "memory", 0)]}
    m = W.module_of_funcs(fs, extra)
    calls, info = [], []

    def add(fn, args, ret, op, snap=False):
        calls.append((fn, args, ret, snap))
        info.append({"op": op, "unit": "G:%s" % cfg, "ci": len(calls) - 1})

    size = lim[0]
    add("e0", [], I32, "memory.size")
    for step, a in enumerate(seq):
        old = size
        ua = a & 0xFFFFFFFF
        if size + ua <= (65536 if lim[1] is None else lim[1]):
            size += ua
        if step == len(seq) - 1 and len(seq) > 1:
            add("e5", [(I32, a)], I32, "memory.grow")           # last step of a longer sequence: grow+size in one expression
        else:
            add("e1", [(I32, a)], I32, "memory.grow")
        add("e0", [], I32, "memory.size", snap=not imported)
        for pg in range(old, size):
            add("e2", [(I32, pg * W.PAGE)], I32, "i32.load8_u@o0")            # fresh pages read as zero
            add("e4", [(I32, (pg + 1) * W.PAGE - 4)], I32, "i32.load@o0")
        for pg in range(size):
            add("e3", [(I32, (pg + 1) * W.PAGE - 1), (I32, 0x41 + step)], None, "i32.store8@o0")
            add("e2", [(I32, (pg + 1) * W.PAGE - 1)], I32, "i32.load8_u@o0")
    if tier != "quick" or tuple(seq) == tuple(GROW_LONG):
        # (accesses beyond the grown memory: one forked process per target; quick tier: only after the long sequence)
        add("e2", [(I32, size * W.PAGE)], I32, "i32.load8_u@o0")
        add("e3", [(I32, size * W.PAGE), (I32, 1)], None, "i32.store8@o0")
    wit = {"fam": "G", "tier": tier, "cfg": cfg, "seq": list(seq)}
    return {"sec": "Y", "m": m, "calls": calls, "info": info, "stateless": False, "wit": wit, "units": None, "rebuild": None}


CMP_CONSUMERS = ("if", "br_if", "select", "local", "eqz-if", "value")


def units_Q():
    """Every comparison operator (32 binary, 2 eqz) as the condition of every consumer; operands: V3 product (ints) / 5x5 incl. nan, -0.0 (floats)."""
    from vf.gen import wasmgen as W
    I32, Ins, lget, FT, i32c = W.I32, W.Ins, W.lget, W.FT, W.i32c
    units = []
    for name, _, params, result in W.NUMERIC:
        short = name.split(".")[1]
        if not (short in ("eqz", "eq", "ne") or short[:2] in ("lt", "gt", "le", "ge")) or result != I32:
            continue
        n = len(params)
        calls = W.arg_vectors(params, 3)
        for cons in CMP_CONSUMERS:
            cond = Ins(name, None, [lget(i) for i in range(n)])
            locs = ()
            if cons == "if":
                body = [W.If(I32, [cond], [i32c(11)], [i32c(22)])]
            elif cons == "br_if":
                body = [W.Blk("block", I32, [i32c(11), cond, Ins("br_if", 0), Ins("drop"), i32c(22)])]
            elif cons == "select":
                body = [Ins("select", None, [i32c(11), i32c(22), cond])]
            elif cons == "local":
                locs = (I32,)
                body = [Ins("local.set", n, [cond]), W.If(I32, [lget(n)], [Ins("i32.add", None, [lget(n), i32c(10)])], [i32c(22)])]
            elif cons == "eqz-if":
                body = [W.If(I32, [Ins("i32.eqz", None, [cond])], [i32c(11)], [i32c(22)])]
            else:
                body = [Ins("i32.add", None, [cond, Ins("i32.mul", None, [cond, i32c(10)])])]
            units.append(("cond-%s/%s|%s" % (cons, key_op(name), name), FT(params, (I32,)), locs, body, calls))
    return units


def build_plain_l(sec, units, base_wit):
    """like build_plain, units carry locals: [(op, FT, locals, body, calls)]"""
    from vf.gen import wasmgen as W
    m = W.module_of_funcs([(ft, l, body) for _, ft, l, body, _ in units])
    calls, info = [], []
    for j, (op, ft, l, body, cs) in enumerate(units):
        for ci, args in enumerate(cs):
            calls.append(("e%d" % j, list(args), ft.results[0] if ft.results else None, False))
            info.append({"op": op.split("|")[0], "unit": op, "ci": ci})
    return {"sec": sec, "m": m, "calls": calls, "info": info, "stateless": True, "wit": base_wit,
            "units": units, "rebuild": lambda us: build_plain_l(sec, us, base_wit)}


def scripted(sec, name, m, calls, tier, text=False, stateless=False):
    """calls: [(export, args, ret, op)]; every call is followed by a snapshot."""
    cs, info = [], []
    for ci, (fn, args, ret, op) in enumerate(calls):
        cs.append((fn, args, ret, True))
        info.append({"op": op, "unit": name, "ci": ci})
    from vf.gen import wasmgen as W
    case = {"sec": sec, "m": m, "calls": cs, "info": info, "stateless": stateless, "wit": {"fam": name, "tier": tier}, "units": None, "rebuild": None}
    if text:
        case["text"] = W.wat(m, "flat")
    return case


def _u(x):
    return x & 0xFFFFFFFF


def traps_last(block, traps):
    """Calls of one product block, those that trap by the specification last and contiguous: a trapping bulk operation has no effect, so the
    order among the others is unchanged, and each contiguous run of trapping calls costs one forked process only.  (If this prediction were
    wrong, V8 would still decide what is expected; only the cost would change.)"""
    return [c for c in block if not traps(c)] + [c for c in block if traps(c)]


def case_B(tier):
    """Bulk memory: memory.fill / memory.copy / memory.init / data.drop on a one-page memory, full product of edge operands."""
    from vf.gen import wasmgen as W
    import itertools
    I32, Ins, lget, FT = W.I32, W.Ins, W.lget, W.FT
    three = [lget(0), lget(1), lget(2)]
    t3 = FT((I32, I32, I32), ())
    fs = [(t3, (), [Ins("memory.fill", None, three)]), (t3, (), [Ins("memory.copy", None, three)]),
          (t3, (), [Ins("memory.init", 0, three)]), (t3, (), [Ins("memory.init", 2, three)]),
          (FT((), ()), (), [Ins("data.drop", 0)]), (FT((), ()), (), [Ins("data.drop", 2)]), (FT((), ()), (), [Ins("data.drop", 1)]),
          (FT((I32,), (I32,)), (), [Ins("i32.load8_u", (0, 0), [lget(0)])])]
    m = W.module_of_funcs(fs, {"mem": (1, 1), "datas": [(None, b"ABCDEFGH"), (4, b"wxyz"), (None, b"")], "datacount": True, "exports": [("mem", "memory", 0)]})
    P = W.PAGE
    big = tier != "quick"
    calls = []
    ds = [0, 1, P - 2, P - 1, P, P + 1, -1] + ([2, P - 3, 2 ** 31 - 1, -2 ** 31] if big else [])
    ns = [0, 1, 2, 3, P, -1] + ([P - 1, P + 1, 2 ** 31] if big else [])
    blk = [("e0", [(I32, d), (I32, v), (I32, n)], None, "memory.fill") for d, v, n in
           itertools.product(ds, [0x41, 0x1FF, 0] if not big else [0x41, 0x1FF, 0, -1, 256], ns)]
    calls += traps_last(blk, lambda c: _u(c[1][0][1]) + _u(c[1][2][1]) > P)
    calls.append(("e0", [(I32, 0), (I32, 0), (I32, P)], None, "memory.fill"))
    calls.append(("e2", [(I32, 16), (I32, 0), (I32, 8)], None, "memory.init"))          # pattern ABCDEFGH at 16
    cd = [0, 1, 16, 17, 20, P - 1, P, -1] + ([15, 18, P - 8, P + 1] if big else [])
    blk = []
    for d, sr, n in itertools.product(cd, cd, [0, 1, 3, 8, P, -1]):
        blk.append(("e1", [(I32, d), (I32, sr), (I32, n)], None, "memory.copy"))
        if n == 8 and 0 <= d < P - 8 and 0 <= sr < P - 8:
            blk.append(("e2", [(I32, 16), (I32, 0), (I32, 8)], None, "memory.init"))  # restore the pattern after an overlapping copy
    calls += traps_last(blk, lambda c: c[0] == "e1" and (_u(c[1][0][1]) + _u(c[1][2][1]) > P or _u(c[1][1][1]) + _u(c[1][2][1]) > P))
    blk = [("e2", [(I32, d), (I32, sr), (I32, n)], None, "memory.init") for d, sr, n in
           itertools.product([0, P - 8, P - 7, P - 1, P, -1], [0, 1, 7, 8, 9, -1], [0, 1, 7, 8, 9, -1])]
    calls += traps_last(blk, lambda c: _u(c[1][0][1]) + _u(c[1][2][1]) > P or _u(c[1][1][1]) + _u(c[1][2][1]) > 8)
    for d, sr, n in itertools.product([0, P, P + 1], [0, 1], [0, 1]):
        calls.append(("e3", [(I32, d), (I32, sr), (I32, n)], None, "memory.init"))      # empty passive segment
    calls += [("e5", [], None, "data.drop"), ("e3", [(I32, 0), (I32, 0), (I32, 0)], None, "memory.init"), ("e5", [], None, "data.drop"),
              ("e6", [], None, "data.drop"),                                              # dropping an active segment is allowed
              ("e4", [], None, "data.drop")]
    for d, sr, n in itertools.product([0, P, P + 1], [0, 1], [0, 1]):
        calls.append(("e2", [(I32, d), (I32, sr), (I32, n)], None, "memory.init"))      # after data.drop: only n == 0 within bounds is allowed
    calls.append(("e4", [], None, "data.drop"))
    calls.append(("e7", [(I32, 16)], I32, "i32.load8_u@o0"))
    return scripted("Y", "B", m, calls, tier, text=True)


def case_R(tier):
    """Reference types / table instructions on one funcref table (4..8): table.get/set, ref.null/func/is_null, table.size/grow/fill/copy/init, elem.drop."""
    from vf.gen import wasmgen as W
    import itertools
    I32, Ins, lget, FT, i32c = W.I32, W.Ins, W.lget, W.FT, W.i32c
    t_i = FT((I32,), (I32,))
    tget = Ins("table.get", None, [lget(0)])
    fs = [(t_i, (), [Ins("i32.add", None, [lget(0), i32c(1)])]),                                    # e0 = $a
          (t_i, (), [Ins("i32.mul", None, [lget(0), i32c(3)])]),                                    # e1 = $b
          (t_i, (), [Ins("ref.is_null", None, [tget])]),                                            # e2 isnull(i)
          (t_i, (), [W.If(I32, [Ins("ref.is_null", None, [tget])], [i32c(-1)], [Ins("call_indirect", "ti", [i32c(5), lget(0)])])]),   # e3 which(i)
          (FT((I32,), ()), (), [Ins("table.set", None, [lget(0), Ins("ref.null", "func")])]),       # e4 setnull(i)
          (FT((I32,), ()), (), [Ins("table.set", None, [lget(0), Ins("ref.func", 0)])]),            # e5 seta(i)
          (FT((I32, I32), ()), (), [Ins("table.set", None, [lget(0), Ins("table.get", None, [lget(1)])])]),     # e6 mv(i, j)
          (FT((), (I32,)), (), [Ins("table.size")]),                                                # e7 size
          (t_i, (), [Ins("table.grow", None, [Ins("ref.func", 1), lget(0)])]),                      # e8 grow with $b
          (t_i, (), [Ins("table.grow", None, [Ins("ref.null", "func"), lget(0)])]),                 # e9 grow with null
          (FT((I32, I32), ()), (), [Ins("table.fill", None, [lget(0), Ins("ref.func", 0), lget(1)])]),          # e10 fill a
          (FT((I32, I32), ()), (), [Ins("table.fill", None, [lget(0), Ins("ref.null", "func"), lget(1)])]),     # e11 fill null
          (FT((I32, I32, I32), ()), (), [Ins("table.copy", None, [lget(0), lget(1), lget(2)])]),    # e12 copy
          (FT((I32, I32, I32), ()), (), [Ins("table.init", 1, [lget(0), lget(1), lget(2)])]),       # e13 init from passive segment 1
          (FT((), ()), (), [Ins("elem.drop", 1)]),                                                  # e14
          (FT((I32,), (I32,)), (), [Ins("ref.is_null", None, [Ins("ref.null", "func")]),
                                    Ins("i32.add", None, [Ins("i32.shl", None, [Ins("ref.is_null", None, [Ins("ref.func", 0)]), i32c(1)])])]),  # e15: 1
          (FT((I32, I32, I32), (I32,)), (), [Ins("select.t", I32, [lget(0), lget(1), lget(2)])])]   # e16 typed select
    m = W.module_of_funcs(fs, {"table": (4, 8), "elems": [(0, [0, 1]), (None, [1, 0, None]), ("declare", [0, 1])]})
    W._patch_ci([x for f in m.funcs for x in f.body], {"ti": m.type_index[t_i.key()]})
    for f in m.funcs:
        W._patch_ci(f.body, {"ti": m.type_index[t_i.key()]})
    calls = []

    def observe(n=9):
        for i in list(range(n)) + [-1]:
            calls.append(("e3", [(I32, i)], I32, "table.get"))
    calls.append(("e15", [(I32, 0)], I32, "ref.is_null"))
    calls += [("e16", [(I32, 7), (I32, 9), (I32, c)], I32, "select.t") for c in (0, 1, -1)]
    calls.append(("e7", [], I32, "table.size"))
    observe()
    for i in (0, 3, 4, 7, 8, -1):
        calls.append(("e2", [(I32, i)], I32, "table.get"))
    # table.set with an index outside the table comes last in the whole script (`late`): ppci's native code has no bounds check and the
    # native table lives in a shared mapping, so the stray write of the forked process that runs a V8-trapping call could disturb later calls
    late = []
    for i in (2, 0, 3):
        calls.append(("e5", [(I32, i)], None, "table.set"))
        calls.append(("e4", [(I32, i)], None, "table.set"))
        calls.append(("e5", [(I32, i)], None, "table.set"))
    observe(5)
    calls.append(("e4", [(I32, 0)], None, "table.set"))
    for i, j in itertools.product((0, 1, 3), (0, 1, 3, 4, -1)):
        (late if j in (4, -1) else calls).append(("e6", [(I32, i), (I32, 8 if j == 4 else j)], None, "table.set"))
    observe(5)
    for i in (8, 9, -1):
        late += [("e5", [(I32, i)], None, "table.set"), ("e4", [(I32, i)], None, "table.set")]
        late += [("e6", [(I32, i), (I32, j)], None, "table.set") for j in (0, 7, 8, -1)]
    # grow: every amount on the sizes 4, 5, 7, 8
    for a in (0, 1, 5, -1, 2, 3, 1, 0, 1, 65536, -2 ** 31):
        calls.append(("e8" if a != 2 else "e9", [(I32, a)], I32, "table.grow"))
        calls.append(("e7", [], I32, "table.size"))
    observe()
    blk = [("e10" if (i + n) % 2 else "e11", [(I32, i), (I32, n)], None, "table.fill") for i, n in itertools.product((0, 3, 7, 8, 9, -1), (0, 1, 2, 8, 9, -1))]
    calls += traps_last(blk, lambda c: _u(c[1][0][1]) + _u(c[1][1][1]) > 8)
    observe()
    calls.append(("e13", [(I32, 0), (I32, 0), (I32, 3)], None, "table.init"))
    blk = [("e12", [(I32, d), (I32, sr), (I32, n)], None, "table.copy") for d, sr, n in itertools.product((0, 1, 2, 6, 8, 9, -1), (0, 1, 2, 8, -1), (0, 1, 2, 3, 8, -1))]
    calls += traps_last(blk, lambda c: _u(c[1][0][1]) + _u(c[1][2][1]) > 8 or _u(c[1][1][1]) + _u(c[1][2][1]) > 8)
    observe()
    blk = [("e13", [(I32, d), (I32, sr), (I32, n)], None, "table.init") for d, sr, n in itertools.product((0, 5, 6, 8, 9, -1), (0, 1, 3, 4, -1), (0, 1, 3, 4, -1))]
    calls += traps_last(blk, lambda c: _u(c[1][0][1]) + _u(c[1][2][1]) > 8 or _u(c[1][1][1]) + _u(c[1][2][1]) > 3)
    observe()
    calls.append(("e14", [], None, "elem.drop"))
    for d, sr, n in itertools.product((0, 8, 9), (0, 1), (0, 1)):
        calls.append(("e13", [(I32, d), (I32, sr), (I32, n)], None, "table.init"))
    calls.append(("e14", [], None, "elem.drop"))
    observe()
    calls += late
    case = scripted("Y", "R", m, calls, tier, text=True)
    for c in range(len(case["calls"])):
        case["calls"][c] = case["calls"][c][:3] + (False,)          # no exported state to snapshot: tables are observed through which(i)
    return case


def cases_S(tier):
    """Start functions and exported/imported globals of every type: the start function sets a mutable exported global, stores to memory and grows it;
    afterwards the global is read back through its export and through a getter, set through a setter and read back again."""
    from vf.gen import wasmgen as W
    I32, Ins, lget, FT, i32c = W.I32, W.Ins, W.lget, W.FT, W.i32c
    out = []
    vals = {W.I32: [-7, 2 ** 31 - 1], W.I64: [2 ** 40 + 5, -2 ** 63], W.F32: [W.f32_bits(1.5), 0xFFC00000], W.F64: [W.f64_bits(-2.25), 0x7FF0000000000000]}
    for vt in W.VTS:
        for imported in (False, True):
            a, b = vals[vt]
            gi = 1 if imported else 0
            start_body = [Ins("global.set", gi, [W.const(vt, a)]), Ins("i32.store", (2, 0), [i32c(8), i32c(0x0A0B0C0D)]),
                          Ins("i32.store8", (0, 0), [i32c(3), Ins("memory.grow", None, [i32c(1)])]),
                          Ins("i32.store8", (0, 0), [i32c(W.PAGE + 5), Ins("memory.size")])]
            fs = [(FT((), ()), (), start_body),
                  (FT((), (vt,)), (), [Ins("global.get", gi)]),
                  (FT((vt,), ()), (), [Ins("global.set", gi, [lget(0)])]),
                  (FT((), (vt,)), (), [Ins("global.get", 0)]),
                  (FT((I32,), (I32,)), (), [Ins("i32.load", (2, 0), [lget(0)])])]
            extra = {"mem": (1, 3), "globs": [W.Glob(vt, True, W.const(vt, b))], "start": 0, "exports": [("mem", "memory", 0), ("g", "global", gi)]}
            if imported:
                extra["imports"] = [W.Imp("env", "gi", "global", (vt, False))]
            m = W.module_of_funcs(fs, extra)
            calls = [("e1", [], vt, "start"), ("e3", [], vt, "global.get"), ("e4", [(I32, 8)], I32, "start"), ("e4", [(I32, 0)], I32, "start"),
                     ("e4", [(I32, W.PAGE + 4)], I32, "start"), ("e2", [(vt, b)], None, "global.set"), ("e1", [], vt, "global.get"),
                     ("e0", [], None, "start"), ("e1", [], vt, "global.get"), ("e4", [(I32, 0)], I32, "start")]
            name = "S:%s%s" % (vt, "-imported-global" if imported else "")
            calls = [(f, args, ret, op + ("/imported-global-module" if imported and op != "start" else "")) for f, args, ret, op in calls]
            out.append((name, (lambda m=m, calls=calls, name=name: scripted("Y", name, m, calls, tier))))
    # a start function that traps: instantiation must fail on both sides
    for kind, body in (("unreachable", [Ins("unreachable")]), ("oob-store", [Ins("i32.store", (2, 0), [i32c(W.PAGE - 2), i32c(1)])]),
                       ("div-zero", [Ins("drop", None, [Ins("i32.div_s", None, [i32c(1), Ins("global.get", 0)])])])):
        fs = [(FT((), ()), (), body), (FT((), (I32,)), (), [i32c(1)])]
        m = W.module_of_funcs(fs, {"mem": (1, 1), "globs": [W.Glob(I32, True, i32c(0))], "start": 0})
        name = "S:start-traps-" + kind
        out.append((name, (lambda m=m, name=name: scripted("Y", name, m, [("e1", [], I32, "start")], tier))))
    return out


def case_V(tier):
    """Multi-value used inside a module (functions with two results called internally, blocks/ifs/loops with parameters); exports return one value."""
    from vf.gen import wasmgen as W
    I32, I64, F64, Ins, lget, FT, i32c = W.I32, W.I64, W.F64, W.Ins, W.lget, W.FT, W.i32c
    t2 = FT((I32,), (I32, I32))
    tmix = FT((I32,), (I64, F64, I32))
    tb = FT((I32,), (I32,))
    tb2 = FT((I32, I32), (I32, I32))
    fs = [(t2, (), [lget(0), Ins("i32.add", None, [lget(0), i32c(1)])]),                                   # f0: x -> (x, x+1)
          (tmix, (), [Ins("i64.extend_i32_s", None, [lget(0)]), Ins("f64.convert_i32_s", None, [lget(0)]), Ins("i32.mul", None, [lget(0), i32c(2)])]),
          (FT((I32,), (I32,)), (), [Ins("call", 0, [lget(0)]), Ins("i32.sub")]),                             # e2: x - (x+1) = -1   (order of results)
          (FT((I32,), (I32,)), (), [Ins("call", 0, [lget(0)]), Ins("drop")]),                                # e3: first result
          (FT((I32,), (I32,)), (), [Ins("call", 0, [lget(0)]), Ins("i32.mul", None, [])]),                   # e4: x*(x+1)
          (FT((I32,), (F64,)), (), [Ins("call", 1, [lget(0)]), Ins("drop"), Ins("drop"), Ins("f64.convert_i64_s")]),                   # e5: first of three
          (FT((I32,), (F64,)), (F64, I32), [Ins("call", 1, [lget(0)]), Ins("local.set", 2), Ins("local.set", 1), Ins("drop"),
                                            Ins("f64.add", None, [lget(1), Ins("f64.convert_i32_s", None, [lget(2)])])]),   # e6: f64 + i32 results
          (FT((I32,), (I32,)), (), [lget(0), W.Blk("block", "tb", [i32c(2), Ins("i32.add")])]),               # e7: block with a parameter
          (FT((I32,), (I32,)), (), [lget(0), i32c(7), W.Blk("block", "tb2", [Ins("i32.add"), lget(0)]), Ins("i32.sub")]),   # e8: two params, two results
          (FT((I32, I32), (I32,)), (), [lget(0), W.If("tb", [lget(1)], [i32c(1), Ins("i32.add")], [i32c(2), Ins("i32.sub")])]),   # e9: if with a parameter
          (FT((I32,), (I32,)), (I32,), [lget(0), W.Blk("loop", "tb", [Ins("local.tee", 1), Ins("i32.const", 1), Ins("i32.sub"), Ins("local.tee", 1), lget(1),
                                                                       Ins("i32.const", 0), Ins("i32.gt_s"), Ins("br_if", 0)])])]   # e10: loop with a parameter
    m = W.module_of_funcs(fs, {"types": [tb, tb2]})
    tix = {"tb": m.type_index[tb.key()], "tb2": m.type_index[tb2.key()]}

    def patch(nodes):
        for n in nodes:
            if isinstance(n, W.Blk):
                if isinstance(n.bt, str) and n.bt in tix:
                    n.bt = tix[n.bt]
                patch(n.body)
            elif isinstance(n, W.If):
                if isinstance(n.bt, str) and n.bt in tix:
                    n.bt = tix[n.bt]
                patch(n.cond), patch(n.then), patch(n.els or [])
            else:
                patch(n.kids)
    for f in m.funcs:
        patch(f.body)
    # functions 0 and 1 return several values: not callable through ppci's export API (outside the supported set), keep them unexported
    m.exports = [e for e in m.exports if e[0] not in ("e0", "e1")]
    calls = []
    for fn, ret in (("e2", I32), ("e3", I32), ("e4", I32), ("e5", F64), ("e6", F64), ("e7", I32), ("e8", I32), ("e10", I32)):
        for x in (0, 1, -1, 5, 2 ** 31 - 1):
            if fn == "e10" and not 0 <= x <= 5:
                continue
            calls.append((fn, [(I32, x)], ret, "multi-value"))
    for x in (0, 5, -1):
        for c in (0, 1):
            calls.append(("e9", [(I32, x), (I32, c)], I32, "multi-value"))
    case = scripted("Y", "V", m, calls, tier, text=True, stateless=True)
    for c in range(len(case["calls"])):
        case["calls"][c] = case["calls"][c][:3] + (False,)
    return case


Q_PER_MODULE = 36


def ext_items(tier):
    """Work items of the second-generation families."""
    items = []
    for cfg, lim, imported in GROW_CONFIGS:
        if tier == "quick" and cfg not in GROW_CONFIGS_QUICK:
            continue
        seqs = grow_sequences(tier, lim)
        for i in range(0, len(seqs), 8):
            items.append(("G", cfg, i, i + 8))
    nq = len(units_Q())
    items += [("Q", i) for i in range((nq + Q_PER_MODULE - 1) // Q_PER_MODULE)]
    items += [("B",), ("R",), ("V",)]
    items += [("S", i) for i in range(len(cases_S(tier)))]
    return items


def build_ext(item, tier):
    """-> list of cases for one work item."""
    if item[0] == "G":
        lim = [c for c in GROW_CONFIGS if c[0] == item[1]][0][1]
        return [case_G(tier, item[1], sq) for sq in grow_sequences(tier, lim)[item[2]:item[3]]]
    if item[0] == "Q":
        us = units_Q()[item[1] * Q_PER_MODULE:(item[1] + 1) * Q_PER_MODULE]
        return [build_plain_l("Y", us, {"fam": "Q", "tier": tier})]
    if item[0] == "B":
        return [case_B(tier)]
    if item[0] == "R":
        return [case_R(tier)]
    if item[0] == "V":
        return [case_V(tier)]
    return [cases_S(tier)[item[1]][1]()]


def rebuild_ext(w):
    fam = w["fam"]
    tier = w.get("tier", "quick")
    if fam == "G":
        return case_G(tier, w["cfg"], tuple(w["seq"]))
    if fam == "Q":
        return build_plain_l("Y", [u for u in units_Q() if u[0] == w["unit"]], {"fam": "Q", "tier": tier})
    if fam == "B":
        return case_B(tier)
    if fam == "R":
        return case_R(tier)
    if fam == "V":
        return case_V(tier)
    return dict(cases_S(tier))[fam]()


def work_items(tier):
    from vf.gen import wasmgen as W
    n_ops = len(W.NUMERIC)
    items = [("N", c) for c in range((n_ops + N_PER_MODULE - 1) // N_PER_MODULE)]
    items += [("M", 0), ("M", 1)]
    depth = 1 if tier == "quick" else 2
    n = len(skeleton_units(depth))
    items += [("C", depth, i) for i in range((n + C_PER_MODULE - 1) // C_PER_MODULE)]
    items += [("X", i) for i in range(len(extra_cases()))]
    items += [("Y", it) for it in ext_items(tier)]
    return items


_SK_CACHE = {}


def build_case(item, tier):
    if item[0] == "Y":
        raise ValueError("Y items build several cases: use build_ext")
    if item[0] == "N":
        return case_N(tier, item[1])
    if item[0] == "M":
        return case_M(tier, item[1])
    if item[0] == "C":
        depth = item[1]
        if depth not in _SK_CACHE:
            _SK_CACHE[depth] = skeleton_units(depth)
        us = _SK_CACHE[depth][item[2] * C_PER_MODULE:(item[2] + 1) * C_PER_MODULE]
        return case_C(depth, us, {"depth": depth})
    name, build = extra_cases()[item[1]]
    return build()


# ---------------------------------------------------------------- executing ppci

def make_imports(spec, log):
    """ppci import dictionary for wasmgen.import_spec(m)."""
    from ppci import ir
    from ppci.wasm import components
    from vf.oracles import node
    tmap = {"i32": ir.i32, "i64": ir.i64, "f32": ir.f32, "f64": ir.f64}
    imports = {}
    for s in spec:
        d = imports.setdefault(s["mod"], {})
        if s["kind"] == "func":
            inner = node.host_function(s)
            names = ["a%d" % i for i in range(len(s["params"]))]
            ns = {"inner": inner, "log": log, "name": s["mod"] + "." + s["name"], "types": [tmap[p] for p in s["params"]],
                  "ptypes": list(s["params"])}
            for i, p in enumerate(s["params"]):
                ns["T%d" % i] = tmap[p]
            ns["R"] = tmap[s["result"]] if s["result"] else None
            src = "def host(%s) -> R:\n    log.append((name, [%s]))\n    return inner(%s)\n" % (
                ", ".join("%s: T%d" % (n, i) for i, n in enumerate(names)), ", ".join(names), ", ".join(names))
            exec(src, ns)
            d[s["name"]] = ns["host"]
        elif s["kind"] == "global":
            v = s["value"]
            d[s["name"]] = components.Global("$" + s["name"], s["type"], s["mut"], [components.Instruction(s["type"] + ".const", to_py((s["type"], v)))])
        elif s["kind"] == "memory":
            d[s["name"]] = components.Memory("$" + s["name"], s["min"], s["max"])
        else:
            d[s["name"]] = components.Table("$" + s["name"], "funcref", s["min"], s["max"])
    return imports


def host_log_typed(log, spec):
    """Python-side host log -> same shape as node's: [(name, [(vt, v)...])]."""
    ptypes = {s["mod"] + "." + s["name"]: s["params"] for s in spec if s["kind"] == "func"}
    out = []
    for name, args in log:
        typed = []
        for t, a in zip(ptypes[name], args):
            st, v = from_py(t, a)[:2]
            typed.append(v if st in ("ok", "unrounded") else ("bad", repr(a)))
        out.append((name, typed))
    return out


def snapshot(inst, m):
    from vf.gen import wasmgen as W
    from vf.oracles import node
    g = {}
    for name, vt in W.exported_globals(m):
        try:
            st = from_py(vt, inst.exports[name].read())
            g[name] = st[1] if st[0] in ("ok", "unrounded") else ("bad", st[1])
        except Exception as ex:  # noqa
            g[name] = ("unreadable", type(ex).__name__)
    mem = None
    mname = W.exported_memory(m)
    if mname is not None:
        try:
            mo = inst.exports[mname]
            pages = mo.size()
            data = bytes(mo.read(0, pages * W.PAGE)) if pages else b""
            mem = {"pages": pages, "runs": node.mem_runs(data)}
        except Exception as ex:  # noqa
            mem = ("unreadable", type(ex).__name__ + ": " + str(ex)[:60])
    return {"globals": g, "mem": mem}


def frame_of(ex):
    from vf.core import innermost_ppci_frame
    return innermost_ppci_frame(ex)


def one_call(inst, m, spec, log, call):
    from vf.core import cpu_limit, CpuTimeout
    name, args, ret, snap = call[:4]
    pre = call[4] if len(call) > 4 else None
    rec = {}
    before = len(log)
    try:
        with cpu_limit(30):
            if pre:
                inst.exports[pre]()
            f = inst.exports[name]
            r = f(*[to_py(a) for a in args])
        rec["out"] = ("value",) + from_py(ret, r)
    except CpuTimeout:
        rec["out"] = ("hang",)
    except Exception as ex:  # noqa
        rec["out"] = ("trap", type(ex).__name__, str(ex)[:80], frame_of(ex))
    if len(log) > before:
        rec["host"] = host_log_typed(log[before:], spec)
    if snap:
        rec["snap"] = snapshot(inst, m)
    return rec


def instantiate_ppci(wasm, spec, target, log, text=None):
    """text: WAT given to ppci instead of the binary (families whose instructions ppci's binary reader/writer do not know)."""
    from ppci.wasm import Module, instantiate
    return instantiate(Module(text if text is not None else wasm), imports=make_imports(spec, log), target=target)


CRASH_CAP = 3


def _send(fd, obj):
    data = pickle.dumps(obj)
    os.write(fd, struct.pack("<I", len(data)) + data)


def _read_records(fd):
    chunks = []
    while True:
        b = os.read(fd, 1 << 16)
        if not b:
            break
        chunks.append(b)
    data = b"".join(chunks)
    pos, out = 0, []
    while pos + 4 <= len(data):
        (ln,) = struct.unpack_from("<I", data, pos)
        if pos + 4 + ln > len(data):
            break
        out.append(pickle.loads(data[pos + 4:pos + 4 + ln]))
        pos += 4 + ln
    return out


def execute(emit, case, wasm, spec, todo, risky, target):
    """Instantiate on `target`, perform the calls in `todo` order and emit one record per event.

    Maximal runs of consecutive calls on which V8 traps are executed in a forked process, so that code which fails
    to trap can neither kill this process nor corrupt the instance state used by the following calls."""
    import mmap
    from vf.core import exc_key, cpu_limit, CpuTimeout
    from vf.gen import wasmgen as W
    unraised = []
    old_hook = sys.unraisablehook
    sys.unraisablehook = lambda u: unraised.append(type(u.exc_value).__name__)
    try:
        log = []
        try:
            with cpu_limit(600):
                inst = instantiate_ppci(wasm, spec, target, log, case.get("text"))
        except CpuTimeout:
            emit(("inst", ("CpuTimeout", "instantiate exceeded 600 s CPU", "?", "K/hang")))
            return
        except Exception as ex:  # noqa
            emit(("inst", (type(ex).__name__, str(ex)[:160], frame_of(ex), exc_key("K", ex))))
            return
        emit(("inst", None))
        calls = case["calls"]

        def perform(i):
            del unraised[:]
            rec = one_call(inst, case["m"], spec, log, calls[i])
            if unraised:
                rec["callback_exc"] = list(unraised)
            return rec

        mem_name = W.exported_memory(case["m"])
        shared = mmap.mmap(-1, 8)
        crashes = {}

        def crash_class(i):
            return (op_family(case["info"][i]["op"]), risky[i])

        pos = 0
        nt = len(todo)
        while pos < nt:
            i = todo[pos]
            if not risky[i] or (target == "python" and case["stateless"]):
                # (generated Python code cannot kill the process, and stateless cases have no state to protect)
                emit(("begin", i))
                emit(("call", i, perform(i)))
                pos += 1
                continue
            end = pos
            while end < nt and risky[todo[end]]:
                end += 1
            k = pos
            saved = None
            if target == "native" and mem_name is not None:
                # ppci's native memory is a MAP_SHARED anonymous mapping: writes of a forked process would be visible here
                try:
                    mo = inst.exports[mem_name]
                    saved = bytes(mo.read(0, mo.size() * 65536))
                except Exception:  # noqa
                    saved = None
            while k < end:
                # a defect class that already killed CRASH_CAP processes is not exercised again in this case
                while k < end and crashes.get(crash_class(todo[k]), 0) >= CRASH_CAP:
                    emit(("call", todo[k], {"out": ("skipped-crash-class",)}))
                    k += 1
                if k >= end:
                    break
                shared[:8] = struct.pack("<q", -1)
                r, w = os.pipe()
                sys.stdout.flush()
                sys.stderr.flush()
                pid = os.fork()
                if pid == 0:
                    code = 0
                    try:
                        import gc
                        gc.freeze()          # the inherited heap is never collected here: a full collection would copy every page of it
                        os.close(r)
                        devnull = os.open(os.devnull, os.O_WRONLY)
                        os.dup2(devnull, 1)
                        os.dup2(devnull, 2)
                        for q in range(k, end):
                            if crashes.get(crash_class(todo[q]), 0) >= CRASH_CAP:
                                _send(w, ("call", todo[q], {"out": ("skipped-crash-class",)}))
                                continue
                            shared[:8] = struct.pack("<q", q)
                            _send(w, ("call", todo[q], perform(todo[q])))
                    except BaseException:  # noqa
                        code = 3
                    os._exit(code)
                os.close(w)
                for rec in _read_records(r):
                    emit(rec)
                os.close(r)
                _, status = os.waitpid(pid, 0)
                if os.WIFSIGNALED(status):
                    q = max(k, struct.unpack("<q", shared[:8])[0])
                    emit(("call", todo[q], {"out": ("crash", signal.Signals(os.WTERMSIG(status)).name)}))
                    cc = crash_class(todo[q])
                    crashes[cc] = crashes.get(cc, 0) + 1
                    k = q + 1
                else:
                    k = end
            if saved is not None:
                try:
                    mo = inst.exports[mem_name]
                    if mo.size() * 65536 == len(saved):
                        mo.write(0, saved)
                except Exception:  # noqa
                    pass
            pos = end
        emit(("final", snapshot(inst, case["m"])))
    finally:
        sys.unraisablehook = old_hook


def run_target(case, wasm, spec, risky, target):
    """Execute the case on one ppci target.  python: in this process (only the calls on which V8 traps are forked off);
    native: inside a forked child, restarted after a crash, because generated machine code can kill the process.

    Stateless cases run the calls on which V8 traps last (one forked process for all of them); stateful cases keep the order."""
    n = len(case["calls"])
    calls = [None] * n
    res = {"inst_error": None, "calls": calls, "final": None}
    todo = list(range(n))
    if case["stateless"]:
        todo.sort(key=lambda i: bool(risky[i]))

    def absorb(records):
        begun, finished, got_inst = None, False, False
        for rec in records:
            if rec[0] == "inst":
                got_inst = True
                if rec[1] is not None:
                    res["inst_error"] = rec[1]
            elif rec[0] == "begin":
                begun = rec[1]
            elif rec[0] == "call":
                calls[rec[1]] = rec[2]
                if begun == rec[1]:
                    begun = None
            elif rec[0] == "final":
                res["final"] = rec[1]
                finished = True
        return begun, finished, got_inst

    if target == "python":
        records = []
        execute(records.append, case, wasm, spec, todo, risky, target)
        absorb(records)
        return res
    restarts = 0
    while True:
        r, w = os.pipe()
        sys.stdout.flush()
        sys.stderr.flush()
        pid = os.fork()
        if pid == 0:
            code = 0
            try:
                import resource
                import gc
                gc.freeze()
                os.close(r)
                resource.setrlimit(resource.RLIMIT_CPU, (900, 920))
                devnull = os.open(os.devnull, os.O_WRONLY)
                os.dup2(devnull, 1)
                os.dup2(devnull, 2)
                execute(lambda rec: _send(w, rec), case, wasm, spec, todo, risky, target)
            except BaseException:  # noqa
                code = 3
            os._exit(code)
        os.close(w)
        records = _read_records(r)
        os.close(r)
        _, status = os.waitpid(pid, 0)
        begun, finished, got_inst = absorb(records)
        if finished or res["inst_error"] is not None:
            return res
        sig = signal.Signals(os.WTERMSIG(status)).name if os.WIFSIGNALED(status) else "exit%d" % os.WEXITSTATUS(status)
        if not got_inst:
            res["inst_error"] = ("crash", "instantiation died with %s" % sig, "?", "K/crash/" + sig)
            return res
        todo = [i for i in todo if calls[i] is None]
        if not todo:
            return res
        if begun is None or calls[begun] is not None:
            begun = todo[0]
        calls[begun] = {"out": ("crash", sig)}
        todo = [i for i in todo if i != begun]
        restarts += 1
        if not case["stateless"] or restarts > 2000 or not todo:
            for i in todo:
                calls[i] = {"out": ("skipped",)}
            return res


# ---------------------------------------------------------------- comparison

def value_text(v):
    from vf.oracles import node
    return node.show(v)


def compare_call(case, i, ncall, rec, target, fails, p):
    """Append failure records for call i on `target`.  Returns an outcome token for coverage."""
    from vf.oracles import node
    info = case["info"][i]
    name, args, ret, snap = case["calls"][i][:4]
    has_pre = len(case["calls"][i]) > 4 and bool(case["calls"][i][4])
    no = node.call_outcome(ncall)
    out = rec["out"]
    base = {"op": info["op"], "unit": info["unit"], "ci": info["ci"], "i": i, "target": target,
            "call": "%s(%s)" % (info["op"], ", ".join(value_text(a) for a in args))}

    def fail(kind, klass, what):
        d = dict(base)
        d.update(kind=kind, klass=klass, what=what)
        fails.append(d)

    if out[0] == "skipped":
        p.count("calls_skipped_after_crash")
        return
    if out[0] == "skipped-crash-class":
        p.count("calls_capped_same_crash_class")
        return
    if no[0] == "error":
        p.count("node_call_errors")
        p.collect("node_errors", no[1][:80])
        return
    if no[0] == "trap":
        tk = trap_kind(ncall["trap"])
        if out[0] == "trap":
            p.outcome((info["op"], "trap", tk))
        elif out[0] == "value":
            got = out[2] if out[1] in ("ok", "unrounded") else out[2]
            extra = " (Python callback raised %s, ignored by ctypes)" % rec["callback_exc"][0] if rec.get("callback_exc") else ""
            fail("no-trap", tk, "V8 traps (%s), ppci returns %s%s" % (ncall["trap"], value_text(got) if out[1] != "bad" else got, extra))
        elif out[0] == "crash":
            fail("kills-process", tk + "/" + out[1], "V8 traps (%s), ppci's code kills the process with %s" % (ncall["trap"], out[1]))
        else:
            fail("hang", tk, "V8 traps (%s), ppci exceeded 30 s CPU" % ncall["trap"])
    else:
        want = no[1]
        if out[0] == "trap":
            fail("spurious-trap", out[1], "V8 returns %s, ppci raises %s: %s (%s)" % (value_text(want), out[1], out[2], out[3]))
        elif out[0] == "crash":
            fail("crash", out[1], "V8 returns %s, ppci's code kills the process with %s" % (value_text(want), out[1]))
        elif out[0] == "hang":
            fail("hang", "cpu", "V8 returns %s, ppci exceeded 30 s CPU" % value_text(want))
        else:
            st = out[1]
            if rec.get("callback_exc"):
                # native code called a Python runtime helper which raised: ctypes swallowed the exception and the generated code
                # went on with garbage.  Same root cause as the exception seen on the python target.
                fail("spurious-trap", rec["callback_exc"][0], "V8 returns %s, ppci's runtime helper raises %s (swallowed by ctypes, native code returns %s)" %
                     (value_text(want), rec["callback_exc"][0], value_text(out[2]) if st != "bad" else out[2]))
            elif st == "bad":
                fail("wrong", "result-out-of-range", "V8 returns %s, ppci returns %s" % (value_text(want), out[2]))
            else:
                got = out[2]
                if st == "unrounded":
                    d = dict(base)
                    d.update(kind="f32-unrounded", klass="any", op="f32-arith", what="f32 result %s is not representable in f32 (V8: %s)" % (out[3], value_text(want)))
                    fails.append(d)
                if not node.same_value(want, got):
                    fail("wrong", result_class(want, got) or arg_class(args), "V8 returns %s, ppci returns %s" % (value_text(want), value_text(got)))
                else:
                    p.outcome((info["op"], "value", want if want is None or not node.is_nan(want) else "nan"))
    # host calls
    nh = ncall.get("host") or []
    ph = rec.get("host") or []
    if no[0] != "trap" and out[0] == "value":
        if len(nh) != len(ph) or any(a[0] != b[0] or len(a[1]) != len(b[1]) or any(not _same_or_bad(x, y) for x, y in zip(a[1], b[1])) for a, b in zip(nh, ph)):
            fail("host-calls", "args", "imported functions were called with %r, V8 calls them with %r" % (ph[:3], nh[:3]))
    # state
    # state after a call on which both sides trap is compared only when the call starts from a defined state (pre-reset):
    # other trapping calls share a forked process with earlier calls that may have failed to trap
    if snap and "snap" in ncall and "snap" in rec and ((no[0] == "trap" and out[0] == "trap" and has_pre) or (no[0] == "value" and out[0] == "value")):
        d = snapshot_difference(ncall["snap"], rec["snap"], p)
        if d:
            fail("state", d[0], d[1])


def _same_or_bad(x, y):
    from vf.oracles import node
    if not isinstance(y, tuple) or len(y) != 2 or y[0] == "bad":
        return False
    return node.same_value(x, y)


def snapshot_difference(ns, ps, p):
    from vf.oracles import node
    for k, v in ns["globals"].items():
        if k.startswith("import:"):
            continue
        pv = ps["globals"].get(k)
        if isinstance(pv, tuple) and pv and pv[0] == "unreadable":
            p.count("globals_unreadable")
            p.collect("unclassified", "exported %s global cannot be read: %s" % (v[0], pv[1]))
            continue
        if isinstance(pv, tuple) and pv and pv[0] == "bad":
            return ("global", "global %s: V8 %s, ppci %s" % (k, value_text(v), pv[1]))
        if not node.same_value(v, pv):
            return ("global-" + v[0], "global %s: V8 %s, ppci %s" % (k, value_text(v), value_text(pv) if pv else pv))
    nm, pm = ns["mem"], ps["mem"]
    if nm is not None:
        if isinstance(pm, tuple):
            return ("memory-unreadable", "exported memory cannot be read: %s" % pm[1])
        if pm is None:
            return None        # imported (not exported) memory: V8 side shows it, the ppci API does not
        if nm["pages"] != pm["pages"]:
            return ("memory-size", "memory has %d pages, V8 has %d" % (pm["pages"], nm["pages"]))
        if nm["runs"] != pm["runs"]:
            a = {o + i: b for o, bs in nm["runs"] for i, b in enumerate(bs)}
            b = {o + i: x for o, bs in pm["runs"] for i, x in enumerate(bs)}
            diff = sorted(k for k in set(a) | set(b) if a.get(k, 0) != b.get(k, 0))
            lo = diff[0]
            return ("memory-bytes", "memory differs at %d byte(s) from address %d: V8 %s, ppci %s" %
                    (len(diff), lo, bytes(a.get(k, 0) for k in range(lo, lo + 8)).hex(), bytes(b.get(k, 0) for k in range(lo, lo + 8)).hex()))
    return None


def report(p, case, fails):
    """Turn failure records into violations: one key per (operator, kind, class, target), general failures collapsed."""
    sec = case["sec"]
    # collapse: an operator that is wrong on ordinary operands is wrong in general
    general = set()
    for f in fails:
        if f["kind"] == "wrong" and f["klass"] == "ordinary":
            general.add((f["op"], f["target"]))
    groups = {}
    for f in fails:
        op = f["op"]
        klass = f["klass"]
        if f["kind"] == "wrong" and (op, f["target"]) in general:
            klass = "general"
        op = "unreachable" if klass.startswith("unreachable") else key_op(op)
        gk = (op, f["kind"], klass)
        groups.setdefault(gk, {}).setdefault(f["target"], []).append(f)
    for (op, kind, klass), by_t in sorted(groups.items()):
        # one key per target (never "both"): which targets fail together in one case depends on the case, the key must not
        for tname in sorted(by_t):
            fs = by_t[tname]
            first = min(fs, key=lambda f: f["i"])
            key = "%s/%s/%s/%s" % (op, kind, klass, tname)
            wit = dict(case["wit"])
            wit.update(sec=sec, unit=first["unit"], ci=first["ci"], target=first["target"])
            p.violation(key, "%s [%s target]: %s (%d failing call(s) in this class)" % (first["call"], first["target"], first["what"], len(fs)), wit)


def process_case(p, case, node_res, depth=0):
    from vf.core import exc_key
    from vf.gen import wasmgen as W
    from vf.oracles import node
    m = case["m"]
    wasm = W.encode(m)
    spec = W.import_spec(m)
    if not node_res["valid"] or node_res["stage"] != "run":
        if node_res.get("stage") == "instantiate" and node_res.get("trap") and case["wit"].get("fam", "").startswith("S:start-traps"):
            # the start function traps in V8: instantiation must fail in ppci as well (no calls are made)
            tk = trap_kind(str(node_res.get("error")))
            empty = dict(case, calls=[], info=[])
            for target in TARGETS:
                p.add()
                r = run_target(empty, wasm, spec, [], target)
                err = r["inst_error"]
                wit = dict(case["wit"])
                wit.update(sec=case["sec"], unit=case["wit"]["fam"], ci=0, target=target)
                if err is None:
                    p.violation("start/no-trap/%s/%s" % (tk, target), "start function traps in V8 (%s) but instantiate(target=%r) returns an instance" %
                                (node_res.get("error"), target), wit)
                elif err[0] == "crash":
                    p.violation("start/kills-process/%s/%s/%s" % (tk, err[3].rsplit("/", 1)[-1], target),
                                "start function traps in V8 (%s), ppci: %s" % (node_res.get("error"), err[1]), wit)
                elif err[0] == "NotImplementedError":
                    p.count("unsupported_%s" % target)
                else:
                    p.outcome(("start", "trap", tk))
            return
        if node_res.get("stage") == "instantiate":
            # e.g. a start function that traps: nothing to compare here
            p.count("node_instantiate_failed")
            p.collect("node_errors", str(node_res.get("error"))[:80])
            return
        p.count("reference_binary_rejected_by_v8")
        p.collect("reference_rejected", "%s %s: %s" % (case["sec"], case["wit"], node_res.get("error")))
        return
    risky = [trap_kind(c["trap"]) if "trap" in c else None for c in node_res["calls"]]
    results = {}
    for target in TARGETS:
        results[target] = run_target(case, wasm, spec, risky, target)
    for target, r in results.items():
        if r["inst_error"] is None:
            continue
        err = r["inst_error"]
        if err[0] == "NotImplementedError":
            p.count("unsupported_%s" % target)
            p.collect("unclassified", "%s instantiate: NotImplementedError %s" % (target, err[1][:80]))
            continue
        if target == "native" and err[0] == "ValueError" and "Cannot import" in err[1]:
            p.count("unsupported_native")
            p.collect("unclassified", "native instantiate: %s" % err[1][:80])
            continue
        if case["rebuild"] is not None and len(case["units"]) > 1:
            continue       # bisected below
        unit = case["info"][-1]["op"] if case["info"] else "?"
        key = "%s/instantiate/%s/%s" % (key_op(unit), target, err[3].split("/", 1)[1] if len(err) > 3 and "/" in err[3] else err[0])
        wit = dict(case["wit"])
        wit.update(sec=case["sec"], unit=case["info"][0]["unit"] if case["info"] else None, ci=0, target=target)
        p.violation(key, "instantiate(target=%r) of a V8-valid module raised %s: %s (%s)" % (target, err[0], err[1], err[2]), wit)
    if any(r["inst_error"] is not None and r["inst_error"][0] != "NotImplementedError" for r in results.values()) \
            and case["rebuild"] is not None and len(case["units"]) > 1:
        # isolate the offending unit(s): split and re-run both halves (V8 included)
        us = case["units"]
        halves = [us[:len(us) // 2], us[len(us) // 2:]]
        subs = [case["rebuild"](h) for h in halves]
        nres = node.run([node_job(s) for s in subs])
        for s, nr in zip(subs, nres):
            process_case(p, s, nr, depth + 1)
        return
    fails = []
    for target, r in results.items():
        if r["inst_error"] is not None:
            continue
        diverged = False
        for i, rec in enumerate(r["calls"]):
            p.add()
            if rec is None:
                p.count("calls_without_record")
                continue
            if diverged:
                p.count("calls_not_compared_after_state_divergence")
                continue
            nb = len(fails)
            compare_call(case, i, node_res["calls"][i], rec, target, fails, p)
            if not case["stateless"] and any(f["kind"] == "state" for f in fails[nb:]):
                diverged = True
        if diverged:
            continue
        if r.get("final") is not None and node_res.get("final") is not None and not case["stateless"]:
            p.add()
            d = snapshot_difference(node_res["final"], r["final"], p)
            if d:
                last = len(case["calls"]) - 1
                info = case["info"][last] if case["info"] else {"op": "?", "unit": "?", "ci": 0}
                fails.append({"op": info["op"], "unit": info["unit"], "ci": info["ci"], "i": last, "target": target, "kind": "final-state", "klass": d[0],
                              "what": d[1], "call": "after all calls"})
    report(p, case, fails)


def node_job(case):
    from vf.oracles import node
    return node.job_for(case["m"], calls=case["calls"])


_WARM = False


def warm_native():
    """Import (never run) what native instantiation needs, once per worker: the forked children that execute native code inherit the
    loaded modules instead of importing the x86_64 back end anew for every case (about 1 s each)."""
    global _WARM
    if _WARM:
        return
    _WARM = True
    try:
        import importlib
        from ppci.api import get_current_arch
        get_current_arch()
        for name in ("ppci.wasm.execution._native_instance", "ppci.utils.codepage", "ppci.utils.memory_page", "ppci.binutils.linker",
                     "ppci.codegen.codegen", "ppci.codegen.registerallocator", "ppci.codegen.instructionselector", "ppci.codegen.peephole",
                     "ppci.binutils.debuginfo", "ppci.binutils.outstream", "ppci.format.elf", "ppci.lang.python.ir2py", "ppci.irutils"):
            try:
                importlib.import_module(name)
            except Exception:  # noqa
                pass
    except Exception:  # noqa
        pass


def worker(p, shard, tier):
    from vf.core import use_repo
    from vf.oracles import node
    use_repo()
    warm_native()
    cases = []
    for item in shard:
        cases += build_ext(item[1], tier) if item[0] == "Y" else [build_case(item, tier)]
    nres = node.run([node_job(c) for c in cases])
    for c, nr in zip(cases, nres):
        process_case(p, c, nr)


def run(ctx):
    from vf.core import HarnessError
    from vf.oracles import node
    node.selfcheck()
    items = work_items(ctx.tier)
    ctx.note("work_items", len(items))
    ctx.note("targets", list(TARGETS))
    # heavy items first
    order = {"C": 0, "M": 1, "N": 2, "X": 3, "Y": 4}
    items.sort(key=lambda it: order[it[0]])
    ctx.sample({"case": "N", "operator": "i32.rem_s", "args": ["i32:-2147483648", "i32:-1"], "reference": "V8 returns i32:0"})
    ctx.pmap(worker, items, extra=(ctx.tier,), nshards=len(items))
    if ctx.counters.get("calls_capped_same_crash_class"):
        ctx.cap("%d calls on which V8 traps were not executed because %d earlier calls of the same (operator family, trap kind) had already killed "
                "the process on that target" % (ctx.counters["calls_capped_same_crash_class"], CRASH_CAP))
    if ctx.counters.get("reference_binary_rejected_by_v8"):
        raise HarnessError("V8 rejects generated modules: %s" % sorted(ctx.sets.get("reference_rejected", ()))[:3])
    if ctx.counters.get("node_call_errors"):
        raise HarnessError("node could not perform calls: %s" % sorted(ctx.sets.get("node_errors", ()))[:3])


def replay(w):
    from vf.core import Partial, use_repo
    from vf.oracles import node
    use_repo()
    sec = w["sec"]
    if sec == "N":
        case = case_N(w["tier"], 0, only=w["unit"])
    elif sec == "M":
        case = case_M(w["tier"], w["variant"])
    elif sec == "C":
        us = [u for u in skeleton_units(w["depth"]) if u[0] == w["unit"]]
        case = case_C(w["depth"], us, {"depth": w["depth"]})
    elif sec == "Y":
        case = rebuild_ext(w)
    else:
        case = dict(extra_cases())[w["name"]]()
        if case["units"] is not None:
            us = [u for u in case["units"] if u[0] == w["unit"]]
            if us:
                case = case["rebuild"](us)
    if case["stateless"]:
        keep = [i for i, inf in enumerate(case["info"]) if inf["ci"] == w["ci"] and inf["unit"] == w["unit"]]
    else:
        keep = list(range(min(len(case["calls"]), w["ci"] + 1)))
    case["calls"] = [case["calls"][i] for i in keep]
    case["info"] = [case["info"][i] for i in keep]
    p = Partial()
    nr = node.run([node_job(case)])[0]
    process_case(p, case, nr)
    if p.violations:
        ks = sorted(p.violations)
        return True, "; ".join("%s :: %s" % (k, p.violations[k][1][:300]) for k in ks[:3])
    return False, "both targets agree with V8 on this case"
