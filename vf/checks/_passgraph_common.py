"""Initial-module families and driver shared by C02 and C03."""
import io
import itertools

RULE = ("explicit-state search: initial modules = irgen families L1 (all straight-line programs of k value instructions), L2 (all "
        "sequences of memory operations over aliasing addresses, a global and an external call), L3 (every CFG skeleton with <= B "
        "blocks x body/condition rotations over memory variables), L4 (hand-shaped phi patterns, tail recursion), L5 (one tiny program per shortcut visible in the passes: replaced value used twice, float identities, constant casts, CSE/forwarding across redefinitions) and the C corpus "
        "through the real C front end; transitions = each of the 9 optimisation passes; states deduplicated by canonical text; "
        "distinct non-trivial = distinct (pass, instruction-descriptor diff) among state-changing transitions.")
ASSUMPTIONS = ["states are kept alive by vf/sem/irtools.clone and violations are re-derived by replaying the pass sequence on a fresh module (./check --replay)",
               "bounded: depth of arbitrary pass sequences and size of initial modules as stated in coverage.bounds"]


def initials(tier, seed):
    """[(ident, kind)] -- ident is the JSON witness from which `make(ident)` rebuilds the module."""
    from vf.gen import irgen, ccorpus
    out = []
    for i, d in enumerate(irgen.l4_programs()):
        out.append({"fam": "l4", "i": i})
    for i, d in enumerate(irgen.l5_programs()):
        out.append({"fam": "l5", "i": i})
    for name, src in ccorpus.CORPUS:
        out.append({"fam": "c", "name": name})
    quick = tier == "quick"
    # L2
    for n in ((1, 2) if quick else (1, 2, 3)):
        cnt = sum(1 for _ in irgen.l2_programs(n))
        out += [{"fam": "l2", "n": n, "i": i} for i in range(cnt)]
    # L3
    for nb in ((1, 2, 3) if quick else (1, 2, 3)):
        variants = 2 if quick and nb == 3 else 4
        cnt = len(irgen.cfg_skeletons(nb)) * variants
        out += [{"fam": "l3", "nb": nb, "variants": variants, "i": i} for i in range(cnt)]
    if quick:
        # a complete seed slice of the 4-block skeletons (1/16), one rotation each
        sk = irgen.cfg_skeletons(4)
        idx = list(range(seed % 16, len(sk), 16))
        out += [{"fam": "l3s", "nb": 4, "si": i, "v": (i // 16 + seed) % len(irgen.L3_BODIES)} for i in idx]
    if not quick:
        sk = irgen.cfg_skeletons(4)
        # seed slice of the 4-block skeletons: every 8th skeleton starting at seed % 8, one rotation each
        idx = list(range(seed % 8, len(sk), 8))
        out += [{"fam": "l3s", "nb": 4, "si": i, "v": (i + seed) % 4} for i in idx]
    # L1
    types1 = ["i8", "u8", "i32", "u32", "f64"] if quick else irgen.INT_TYPES + irgen.FLOAT_TYPES
    for ty in types1:
        cnt = sum(1 for _ in irgen.l1_programs([ty], 1))
        out += [{"fam": "l1", "ty": ty, "k": 1, "i": i} for i in range(cnt)]
    types2 = [["i8", "u32", "i32", "u8", "f64", "i64", "u16", "i16"][seed % 8]] if quick else ["i8", "u8", "i32", "u32", "f64"]
    for ty in types2:
        cnt = sum(1 for _ in irgen.l1_programs([ty], 2))
        step = 3 if quick else 1
        out += [{"fam": "l1", "ty": ty, "k": 2, "i": i} for i in range(seed % step, cnt, step)]
    return out


_cache = {}


def make(ident):
    from vf.gen import irgen, ccorpus
    fam = ident["fam"]
    if fam == "c":
        from ppci.api import get_arch
        from ppci.lang.c import c_to_ir, COptions
        src = dict(ccorpus.CORPUS)[ident["name"]]
        return c_to_ir(io.StringIO(src), get_arch("x86_64"), COptions())
    if fam == "l4":
        return irgen.build(irgen.l4_programs()[ident["i"]])
    if fam == "l5":
        return irgen.build(irgen.l5_programs()[ident["i"]])
    if fam == "l2":
        key = ("l2", ident["n"])
        if key not in _cache:
            _cache[key] = list(irgen.l2_programs(ident["n"]))
        return irgen.build(_cache[key][ident["i"]])
    if fam == "l3":
        key = ("l3", ident["nb"], ident["variants"])
        if key not in _cache:
            _cache[key] = list(irgen.l3_programs(ident["nb"], ident["variants"]))
        return irgen.build(_cache[key][ident["i"]])
    if fam == "l3s":
        key = ("sk", ident["nb"])
        if key not in _cache:
            _cache[key] = irgen.cfg_skeletons(ident["nb"])
        skel = _cache[key][ident["si"]]
        v = ident["v"]
        nb = ident["nb"]
        bodies = [(k + v) % len(irgen.L3_BODIES) for k in range(nb)]
        conds = [(k + v) % len(irgen.L3_CONDS) for k in range(nb)]
        return irgen.build(irgen.l3_program(skel, bodies, conds))
    if fam == "l1":
        key = ("l1", ident["ty"], ident["k"])
        if key not in _cache:
            _cache[key] = list(irgen.l1_programs([ident["ty"]], ident["k"]))
        return irgen.build(_cache[key][ident["i"]])
    if fam == "desc":
        return irgen.build(ident["desc"])
    raise ValueError(fam)


def worker(p, shard, want, depth, vec_k, vec_cap, closure_cap):
    from vf import passgraph
    ex = passgraph.Explorer(p, want, depth, vec_k=vec_k, vec_cap=vec_cap, closure_cap=closure_cap)
    for ident in shard:
        small = ident["fam"] in ("l1", "l4", "l5") or (ident["fam"] == "l2" and ident["n"] == 1)
        ex.closure_cap = closure_cap if small else 0
        try:
            ex.explore(lambda: make(ident), ident)
        except Exception as e:  # noqa
            import traceback
            p.count("harness_explore_errors")
            p.collect("harness_errors", "%s: %s" % (ident, traceback.format_exc()[-300:]))
    p.count("states", ex.states)
    p.count("transitions", ex.transitions)
    p.collect("max_depth", ex.max_depth_seen)


def run(ctx, want):
    from vf.core import HarnessError
    ids = initials(ctx.tier, ctx.seed)
    depth = 2 if ctx.quick else 3
    vec_k, vec_cap = (3, 16) if ctx.quick else (7, 49)
    closure_cap = 0 if ctx.quick else 300
    ctx.note("bounds", {"initial_modules": len(ids), "pass_sequence_depth": depth, "closure_on_small_modules_cap_states": closure_cap,
                        "pipeline_prefixes": 24, "optimize_levels": ["1", "2", "s"], "vectors": "V%d product, cap %d" % (vec_k, vec_cap)})
    fams = {}
    for i in ids:
        fams[i["fam"]] = fams.get(i["fam"], 0) + 1
    ctx.note("initial_families", fams)
    ctx.sample({"initial": {"fam": "c", "name": "diamond"}, "passes": ["Mem2RegPromotor", "CleanPass"]})
    ctx.sample({"initial": {"fam": "l4", "i": 0}, "passes": ["CleanPass", "TailCallOptimization", "ConstantFolder"]})
    ctx.pmap(worker, ids, extra=(want, depth, vec_k, vec_cap, closure_cap), nshards=min(len(ids), 128))
    if ctx.counters.get("harness_explore_errors"):
        raise HarnessError("explorer crashed on %d initial modules: %s" % (ctx.counters["harness_explore_errors"], sorted(ctx.sets.get("harness_errors", []))[:2]))
    ctx.states = ctx.counters.get("states", 0)
    ctx.transitions = ctx.counters.get("transitions", 0)
    ctx.traces = ctx.states
    if ctx.counters.get("closure_cap_hit"):
        ctx.cap("closure search on small modules stopped at %d states for %d initial modules (depth-%d search completed for all)" % (closure_cap, ctx.counters["closure_cap_hit"], depth))


def replay(w, want):
    from vf import passgraph
    return passgraph.replay_sequence(lambda: make(w["initial"]), w, want)
