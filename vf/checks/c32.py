"""C32 - generated LR(1) parsers vs an independent derivation-counting oracle on every small grammar and every short token string."""
import itertools

ID = "C32"
LEVEL = "exploration"
RULE = ("every grammar (a set of productions, start symbol S) in three families: (F1) non-terminals {S,A}, terminals {a,b}, right-hand sides "
        "of length <= 2 incl. epsilon (42 productions), <= 5 productions (quick: <= 4); (F2) right-hand sides of length <= 3 (170 productions), "
        "<= 3 productions, at least one of length 3; (F3) a third non-terminal B, length <= 2 (93 productions), <= 4 productions "
        "(quick: <= 3), B used; kept if S is defined and productive, every used non-terminal is defined and reachable, and the set is the "
        "canonical representative under a<->b and A<->B; for each grammar LrParserBuilder either raises ParserGenerationException (nothing "
        "claimed) or the parser is run on every token string of length <= 6 (quick: 5) over the grammar's terminals; distinct non-trivial = "
        "distinct (builder outcome, shift/reduce flag, set of accepted strings) with a non-empty accepted set, plus distinct returned trees; (F4) 10 curated "
        "grammars over {S,A,B,C} whose nullability / FIRST sets are only reached through chains of non-terminals, each in every order of its production list")
ASSUMPTIONS = [
    "oracle: number of derivation trees (0, 1, many) of every string from every non-terminal, least fixpoint of the saturating counting "
    "equations computed by increasing string length (written in /verif from the definition of derivation; independent of ppci)",
    "semantic actions build the derivation tree (production index, children; terminals carry their input position); a returned value must be "
    "a derivation tree of exactly the input from S, and equal to the unique tree when the string has exactly one derivation",
    "an automatically resolved shift/reduce conflict is detected by a subclass of LrParserBuilder whose set_action observes the table before "
    "delegating to the real method (no edit of /repo); for such grammars only 'accepted => derivable' is required",
    "a non-ParserException error on a string outside the language is counted as unclassified (it is a rejection), not reported",
    "non-termination of parse() is decided deterministically: more than 1000 semantic actions in one parse of <= 6 tokens (a derivation "
    "tree of such a string in these grammars has < 100 nodes); a CPU-time watchdog is only the backstop",
    "the Earley parser is run on the same (grammar, string) pairs up to length 4 as a supplementary accept/reject comparison; the property "
    "statement is about LR parsers, so Earley disagreements are counted and listed in the evidence, not reported as violations",
    "F1-F3: productions are added in sorted order (VERIF_SEED odd: reversed order); every order is explored only for the F4 grammars",
]
CLAIM = {
    "text": "for every grammar in the three bounded families that the LR(1) builder accepts without a shift/reduce resolution, the generated "
            "parser accepts exactly the derivable token strings up to the length bound and returns the derivation tree; with a resolved "
            "shift/reduce conflict it accepts only derivable strings",
    "note": "trusted: the derivation-counting oracle and tree validator in vf/checks/c32.py",
    "technique": "bounded-exhaustive grammar and input enumeration against a derivation-counting oracle",
    "engine": "K1",
}

NTS = "SAB"
TERMS = "ab"


# ---------------------------------------------------------------- grammar enumeration

def all_productions(nts, maxlen):
    syms = nts + TERMS
    out = []
    for n in range(maxlen + 1):
        for lhs in nts:
            for rhs in itertools.product(syms, repeat=n):
                out.append((lhs, "".join(rhs)))
    return out


_SWAPS = {
    "ab": str.maketrans("ab", "ba"),
    "AB": str.maketrans("AB", "BA"),
    "abAB": str.maketrans("abAB", "baBA"),
}


def canonical(prods, with_b):
    key = tuple(sorted(prods))
    for name, tr in _SWAPS.items():
        if not with_b and name != "ab":
            continue
        img = tuple(sorted((l.translate(tr), r.translate(tr)) for l, r in prods))
        if img < key:
            return False
    return True


def well_formed(prods):
    """S defined and productive; every used non-terminal defined; every defined non-terminal reachable from S."""
    defined = {l for l, _ in prods}
    if "S" not in defined:
        return False
    for _, r in prods:
        for c in r:
            if c in NTS and c not in defined:
                return False
    reach = {"S"}
    todo = ["S"]
    while todo:
        x = todo.pop()
        for l, r in prods:
            if l == x:
                for c in r:
                    if c in NTS and c not in reach:
                        reach.add(c)
                        todo.append(c)
    if reach != defined:
        return False
    productive = set()
    changed = True
    while changed:
        changed = False
        for l, r in prods:
            if l not in productive and all(c in TERMS or c in productive for c in r):
                productive.add(l)
                changed = True
    return "S" in productive


FAMILIES = {"F1": ("SA", 2, None), "F2": ("SA", 3, "len3"), "F3": ("SAB", 2, "B")}
EXPECTED_POOL = {"F1": 42, "F2": 170, "F3": 93}
_POOLS = {}


def pool_of(name):
    if name not in _POOLS:
        nts, maxlen, _ = FAMILIES[name]
        _POOLS[name] = all_productions(nts, maxlen)
    return _POOLS[name]


def cells(spec):
    """Work units (family, k, prefix of <= 2 pool indices), simplest-first; a cell stands for every k-subset of the pool that
    starts with the prefix.  Enumeration and filtering of a cell happen in the worker."""
    out = []
    maxk = max(k for _, k in spec)
    for k in range(1, maxk + 1):
        for name, mk in spec:
            if k > mk:
                continue
            n = len(pool_of(name))
            if k == 1:
                out += [(name, k, (i,)) for i in range(n)]
            else:
                out += [(name, k, (i, j)) for i in range(n) for j in range(i + 1, n) if n - 1 - j >= k - 2]
    return out


def cell_size(name, k, prefix):
    import math
    n = len(pool_of(name))
    return math.comb(n - 1 - prefix[-1], k - len(prefix))


def grammars_of_cell(name, k, prefix):
    """Yield (rank inside the cell, productions) for the well-formed canonical grammars of the cell."""
    pool = pool_of(name)
    _, _, need = FAMILIES[name]
    with_b = name == "F3"
    head = tuple(pool[i] for i in prefix)
    rank = 0
    for rest in itertools.combinations(pool[prefix[-1] + 1:], k - len(prefix)):
        combo = head + rest
        rank += 1
        if need == "len3" and not any(len(r) == 3 for _, r in combo):
            continue
        if need == "B" and not any(l == "B" or "B" in r for l, r in combo):
            continue
        if well_formed(combo) and canonical(combo, with_b):
            yield rank, combo


# ---------------------------------------------------------------- oracle

_WORDS = {}


def words(terms, L):
    k = (terms, L)
    if k not in _WORDS:
        _WORDS[k] = ["".join(t) for n in range(L + 1) for t in itertools.product(terms, repeat=n)]
    return _WORDS[k]


def ways(rhs, w, n, cur, D):
    """Saturating (0,1,2) number of ways rhs derives w; D holds final counts of shorter strings, cur the current
    approximation for w itself."""
    cnt = [0] * (n + 1)
    cnt[0] = 1
    for sym in rhs:
        new = [0] * (n + 1)
        if sym in TERMS:
            for i in range(n):
                if cnt[i] and w[i] == sym:
                    new[i + 1] = cnt[i]
        else:
            Dx = D[sym]
            cx = cur[sym]
            for i in range(n + 1):
                c = cnt[i]
                if not c:
                    continue
                for j in range(i, n + 1):
                    v = cx if j - i == n else Dx[w[i:j]]
                    if v:
                        t = new[j] + c * v
                        new[j] = 2 if t > 2 else t
        cnt = new
        if not any(cnt):
            return 0
    return cnt[n]


def derivation_counts(prods, terms, L):
    """D[X][w] in {0, 1, 2=many (possibly infinitely many)} for every non-terminal X and string w of length <= L."""
    nts = sorted({l for l, _ in prods})
    by = {x: [r for l, r in prods if l == x] for x in nts}
    D = {x: {} for x in nts}
    for w in words(terms, L):
        n = len(w)
        cur = {x: 0 for x in nts}
        changed = True
        while changed:
            changed = False
            for x in nts:
                tot = 0
                for rhs in by[x]:
                    tot += ways(rhs, w, n, cur, D)
                    if tot >= 2:
                        tot = 2
                        break
                if tot != cur[x]:
                    cur[x] = tot
                    changed = True
        for x in nts:
            D[x][w] = cur[x]
    return D


def unique_tree(prods, D, x, w, off):
    """The derivation tree of w from x, given D[x][w] == 1.  Tree = (production index, children); terminal child = (symbol, position)."""
    n = len(w)
    for k, (l, rhs) in enumerate(prods):
        if l != x:
            continue
        # find the (unique) split with all parts derivable
        def split(pos, idx):
            if idx == len(rhs):
                return [] if pos == n else None
            sym = rhs[idx]
            if sym in TERMS:
                if pos < n and w[pos] == sym:
                    rest = split(pos + 1, idx + 1)
                    if rest is not None:
                        return [(pos, pos + 1)] + rest
                return None
            for j in range(pos, n + 1):
                if D[sym][w[pos:j]]:
                    rest = split(j, idx + 1)
                    if rest is not None:
                        return [(pos, j)] + rest
            return None
        parts = split(0, 0)
        if parts is not None:
            kids = []
            for sym, (i, j) in zip(rhs, parts):
                if sym in TERMS:
                    kids.append((sym, off + i))
                else:
                    kids.append(unique_tree(prods, D, sym, w[i:j], off + i))
            return (k, tuple(kids))
    raise AssertionError("no derivation although count == 1")


def validate(prods, tree, x, toks, pos):
    """If `tree` is a derivation tree of toks[pos:end] from x return end, else None."""
    if not (isinstance(tree, tuple) and len(tree) == 2 and isinstance(tree[0], int) and isinstance(tree[1], tuple)):
        return None
    k, kids = tree
    if not 0 <= k < len(prods):
        return None
    l, rhs = prods[k]
    if l != x or len(kids) != len(rhs):
        return None
    for sym, kid in zip(rhs, kids):
        if sym in TERMS:
            if kid != (sym, pos) or pos >= len(toks) or toks[pos] != sym:
                return None
            pos += 1
        else:
            pos = validate(prods, kid, sym, toks, pos)
            if pos is None:
                return None
    return pos


def nullable_nts(prods):
    nul = set()
    changed = True
    while changed:
        changed = False
        for l, r in prods:
            if l not in nul and all(c in nul for c in r):
                nul.add(l)
                changed = True
    return nul


def show_grammar(prods):
    by = {}
    for l, r in prods:
        by.setdefault(l, []).append(" ".join(r) if r else "eps")
    return "; ".join("%s -> %s" % (l, " | ".join(rs)) for l, rs in by.items())


# ---------------------------------------------------------------- ppci side

class _Lexer:
    def __init__(self, w, Token, loc, EOF):
        self.toks = [Token(c, i, loc) for i, c in enumerate(w)]
        self.eof = Token(EOF, EOF, loc)
        self.i = 0

    def next_token(self):
        if self.i < len(self.toks):
            t = self.toks[self.i]
            self.i += 1
            return t
        return self.eof


REDUCTION_LIMIT = 1000


class Runaway(Exception):
    """More semantic actions in one parse than any derivation tree of a string within the bound has nodes."""


def _action(k, Token, budget):
    def f(*args):
        budget[0] += 1
        if budget[0] > REDUCTION_LIMIT:
            raise Runaway()
        return (k, tuple((a.typ, a.val) if type(a) is Token else a for a in args))
    return f


_BUILDER = []


def builder_class():
    """LrParserBuilder subclass that records automatically resolved shift/reduce conflicts."""
    if not _BUILDER:
        from ppci.lang.tools import lr

        class ObservingBuilder(lr.LrParserBuilder):
            sr_resolved = 0

            def set_action(self, state, t, action):
                old = self.action_table.get((state, t))
                if old is not None and str(old) != str(action):
                    kinds = {type(old).__name__, type(action).__name__}
                    if kinds == {"Shift", "Reduce"}:
                        self.sr_resolved += 1
                return super().set_action(state, t, action)
        _BUILDER.append(ObservingBuilder)
    return _BUILDER[0]


def make_grammar(prods):
    from ppci.lang.tools.grammar import Grammar
    from ppci.lang.common import Token
    g = Grammar()
    terms = "".join(t for t in TERMS if any(t in r for _, r in prods))
    g.add_terminals(list(terms))
    budget = [0]
    for k, (l, r) in enumerate(prods):
        g.add_production(l, list(r), _action(k, Token, budget))
    g.start_symbol = "S"
    return g, terms, budget


def check_grammar(p, prods, L, Le, order=None):
    from ppci.lang.tools.common import ParserException, ParserGenerationException
    from ppci.lang.common import Token, SourceLocation
    from ppci.lang.tools.baselex import EOF
    from ppci.lang.tools.earley import EarleyParser
    from ppci.common import CompilerError
    from vf.core import cpu_limit, CpuTimeout, exc_key

    def viol(key, what, s=None):
        wit = {"prods": [list(x) for x in prods]}
        if s is not None:
            wit["s"] = s
        p.violation(key, what, wit, order=order)

    gtxt = show_grammar(prods)
    p.count("grammars")
    g, terms, budget = make_grammar(prods)
    try:
        with cpu_limit(30):
            b = builder_class()(g)
            parser = b.generate_parser()
    except ParserGenerationException:
        p.add()
        p.count("builder_rejected")
        p.outcome(("rejected",))
        return
    except CpuTimeout:
        p.add()
        viol("build/hang", "grammar {%s}: generate_parser did not terminate within 30 CPU-seconds" % gtxt)
        return
    except Exception as ex:  # noqa
        p.add()
        viol(exc_key("build", ex), "grammar {%s}: generate_parser raised %s: %s" % (gtxt, type(ex).__name__, ex))
        return
    sr = b.sr_resolved > 0
    p.count("builder_accepted_with_sr_resolution" if sr else "builder_accepted_conflict_free")
    D = derivation_counts(prods, terms, L)
    DS = D["S"]
    loc = SourceLocation("", 0, 0, 0)
    nul = nullable_nts(prods)
    recursive_start = any("S" in r for _, r in prods)
    accepted_set = []
    cur = [None]
    reported = set()
    try:
        with cpu_limit(30):
            for w in words(terms, L):
                cur[0] = w
                p.add()
                c = DS[w]
                err = None
                budget[0] = 0
                try:
                    val = parser.parse(_Lexer(w, Token, loc, EOF))
                    acc = True
                except ParserException:
                    acc = False
                except Runaway:
                    if sr:
                        p.count("unclassified_sr_parse_does_not_terminate")
                        continue
                    viol("parse/hang" + ("/nullable-nonterminal" if nul else ""),
                         "grammar {%s} built without conflict, but parse of '%s' does not terminate (more than %d reductions; S %s it)"
                         % (gtxt, " ".join(w) or "<empty>", REDUCTION_LIMIT, "derives" if c else "does not derive"), w)
                    return
                except Exception as ex:  # noqa
                    acc = False
                    err = ex
                toks = " ".join(w) or "<empty>"
                if acc:
                    accepted_set.append(w)
                if err is not None:
                    if c and not sr:
                        k = exc_key("parse", err)
                        if k not in reported:
                            reported.add(k)
                            viol(k, "grammar {%s}: parse of '%s' (derivable) raised %s: %s" % (gtxt, toks, type(err).__name__, err), w)
                    else:
                        p.count("unclassified_internal_error_on_rejected_or_sr_input")
                        p.collect("unclassified_internal_errors", exc_key("parse", err))
                    continue
                if acc and not c:
                    k = "lr/accepts-underivable" + ("/after-sr-resolution" if sr else "")
                    if k not in reported:
                        reported.add(k)
                        viol(k, "grammar {%s}: parser accepts '%s' which S does not derive (returned %r)" % (gtxt, toks, val), w)
                    continue
                if sr:
                    if acc:
                        p.count("sr_accepted_derivable")
                    elif c:
                        p.count("sr_rejected_derivable_not_claimed")
                    continue
                if c and not acc:
                    k = "lr/rejects-derivable/" + ("nullable-nonterminal" if nul else "no-nullable")
                    if k not in reported:
                        reported.add(k)
                        viol(k, "grammar {%s} built without conflict, but the parser rejects '%s' which S derives (%s)"
                             % (gtxt, toks, "uniquely" if c == 1 else "ambiguously"), w)
                    continue
                if acc:
                    seq = list(w)
                    if c == 1:
                        exp = unique_tree(prods, D, "S", w, 0)
                        ok = val == exp
                    else:
                        exp = None
                        ok = validate(prods, val, "S", seq, 0) == len(seq)
                        p.count("accepted_ambiguous_strings_in_conflict_free_grammar")
                    if ok:
                        p.outcome(("tree", val))
                    else:
                        inner = any(validate(prods, val, "S", seq, s) is not None for s in range(len(seq) + 1))
                        k = "lr/value/" + ("inner-start-reduce" if inner and recursive_start else
                                           ("partial-derivation" if inner else "not-a-derivation"))
                        if k not in reported:
                            reported.add(k)
                            viol(k, "grammar {%s}: parse of '%s' returned %r%s, which is %s"
                                 % (gtxt, toks, val, ", expected the unique derivation tree %r" % (exp,) if exp is not None else "",
                                    "a derivation of only a part of the input (Accept fired on an inner reduce of the start symbol)"
                                    if inner else "not a derivation tree of the input"), w)
    except CpuTimeout:
        if sr:
            p.count("unclassified_sr_parse_does_not_terminate")
        else:
            viol("parse/hang" + ("/nullable-nonterminal" if nul else ""),
                 "grammar {%s} built without conflict, but parse of '%s' did not terminate within 30 CPU-seconds" % (gtxt, " ".join(cur[0] or "")), cur[0])
        return
    if accepted_set:
        p.outcome((sr, tuple(accepted_set)))
    # supplementary: Earley on the same pairs (accept/reject only; not part of the property statement)
    try:
        with cpu_limit(30):
            ep = EarleyParser(g)
            for w in words(terms, min(L, Le)):
                p.count("earley_runs")
                budget[0] = 0
                try:
                    ep.parse(_Lexer(w, Token, loc, EOF))
                    eacc = True
                except CompilerError:
                    eacc = False
                except RecursionError:
                    p.count("earley_recursion_error")
                    continue
                except Exception as ex:  # noqa
                    p.count("earley_internal_error")
                    p.collect("earley_internal_errors", exc_key("earley", ex))
                    continue
                if eacc != bool(DS[w]):
                    p.count("earley_disagrees_with_oracle")
                    p.collect("earley_disagreements", "{%s} on '%s': earley %s, oracle %s"
                              % (gtxt, " ".join(w), "accepts" if eacc else "rejects", "derivable" if DS[w] else "underivable")
                              if len(p.sets.get("earley_disagreements", ())) < 6 else "...")
    except CpuTimeout:
        p.count("earley_hang")


def worker(p, shard, L, Le, reverse):
    for ci, (name, k, prefix) in shard:
        p.count("candidate_sets_" + name, cell_size(name, k, prefix))
        for rank, prods in grammars_of_cell(name, k, prefix):
            p.count("kept_" + name)
            if reverse:
                prods = tuple(reversed(prods))
            check_grammar(p, prods, L, Le, order=(k * 10 ** 6 + ci) * 10 ** 5 + rank)


# (F4) curated grammars with a fourth non-terminal C, each in EVERY order of its production list: nullability and FIRST sets that are only
# reached through other non-terminals (chains), so that any dependence of the table construction on the order of the rules shows
ORDER_GRAMMARS = [
    (("S", "CA"), ("C", "a"), ("A", "B"), ("B", ""), ("B", "b")),
    (("S", "CAb"), ("C", "a"), ("A", "B"), ("B", "")),
    (("S", "CA"), ("C", "a"), ("A", "B"), ("B", "C"), ("B", "")),
    (("S", "CAB"), ("C", "a"), ("A", "B"), ("B", ""), ("B", "b")),
    (("S", "CA"), ("C", "a"), ("A", "Bb"), ("A", ""), ("B", "")),
    (("S", "AC"), ("A", "B"), ("B", ""), ("B", "b"), ("C", "a")),
    (("S", "aA"), ("A", "B"), ("B", "C"), ("C", ""), ("C", "bS")),
    (("S", "CAa"), ("C", "b"), ("C", ""), ("A", "B"), ("B", "")),
    (("S", "A"), ("A", "B"), ("B", "C"), ("C", "a"), ("C", "")),
    (("S", "CA"), ("S", "b"), ("C", "aS"), ("A", "B"), ("B", "")),
]


def order_worker(p, shard, L, Le):
    for gi, perm in shard:
        base = ORDER_GRAMMARS[gi]
        prods = tuple(base[i] for i in perm)
        p.count("kept_F4")
        check_grammar(p, prods, L, Le, order=9 * 10 ** 12 + gi * 1000)


def oracle_selftest():
    """The oracle on grammars whose languages are known in closed form."""
    balanced = (("S", ""), ("S", "aSb"))
    D = derivation_counts(balanced, "ab", 6)
    for w in words("ab", 6):
        n = len(w) // 2
        assert D["S"][w] == (1 if w == "a" * n + "b" * n and len(w) % 2 == 0 else 0), w
    amb = (("S", "SS"), ("S", "a"))
    D = derivation_counts(amb, "a", 5)
    assert [D["S"]["a" * n] for n in range(6)] == [0, 1, 1, 2, 2, 2]
    cyc = (("S", "A"), ("A", "S"), ("A", "a"))
    D = derivation_counts(cyc, "a", 2)
    assert (D["S"][""], D["S"]["a"], D["S"]["aa"]) == (0, 2, 0)
    nul = (("S", "AAb"), ("A", ""), ("A", "a"))
    D = derivation_counts(nul, "ab", 3)
    assert (D["S"]["b"], D["S"]["ab"], D["S"]["aab"], D["S"]["a"]) == (1, 2, 1, 0)
    t = unique_tree(balanced, derivation_counts(balanced, "ab", 4), "S", "aabb", 0)
    assert t == (1, (("a", 0), (1, (("a", 1), (0, ()), ("b", 2))), ("b", 3)))
    assert validate(balanced, t, "S", list("aabb"), 0) == 4
    assert validate(balanced, t[1][1], "S", list("aabb"), 1) == 3


def run(ctx):
    oracle_selftest()
    for name, n in EXPECTED_POOL.items():
        if len(pool_of(name)) != n:
            raise AssertionError("production pool of %s has the wrong size" % name)
    if ctx.quick:
        spec, L, Le = [("F1", 4), ("F2", 3), ("F3", 3)], 5, 3
    else:
        spec, L, Le = [("F1", 5), ("F2", 3), ("F3", 4)], 6, 4
    work = cells(spec)
    ctx.note("families", {name: {"non_terminals": FAMILIES[name][0], "rhs_length_max": FAMILIES[name][1], "productions_max": k,
                                 "production_pool": len(pool_of(name))} for name, k in spec})
    ctx.note("string_length_max", L)
    ctx.note("earley_string_length_max", Le)
    reverse = bool(ctx.seed % 2)
    ctx.note("production_order", "reversed" if reverse else "sorted")
    ex = (("S", "AB"), ("A", "a"), ("B", ""))
    ctx.sample({"grammar": show_grammar(ex), "derivation_counts_of_S": {w or "<empty>": c for w, c in derivation_counts(ex, "a", 2)["S"].items()}})
    ex = (("S", "a"), ("S", "aS"))
    ctx.sample({"grammar": show_grammar(ex), "unique_tree_of_aa": repr(unique_tree(ex, derivation_counts(ex, "a", 2), "S", "aa", 0))})
    ex = (("S", "SS"), ("S", "a"), ("S", ""))
    ctx.sample({"grammar": show_grammar(ex), "derivation_counts_of_S(2=many)": {w or "<empty>": c for w, c in derivation_counts(ex, "a", 2)["S"].items()}})
    ctx.pmap(worker, list(enumerate(work)), extra=(L, Le, reverse), nshards=256)
    order_items = [(gi, perm) for gi, g in enumerate(ORDER_GRAMMARS) for perm in itertools.permutations(range(len(g)))]
    ctx.note("F4_order_family", {"base_grammars": [show_grammar(g) for g in ORDER_GRAMMARS], "production_orders": len(order_items)})
    ctx.pmap(order_worker, order_items, extra=(L, Le), nshards=32)
    import math
    for name, k in spec:
        n = len(pool_of(name))
        want = sum(math.comb(n, j) for j in range(1, k + 1))
        if ctx.counters.get("candidate_sets_" + name) != want:
            raise AssertionError("family %s: enumerated %r candidate sets, expected %d" % (name, ctx.counters.get("candidate_sets_" + name), want))
    if ctx.counters.get("earley_disagrees_with_oracle"):
        ctx.note("earley_note", "Earley accept/reject differs from the oracle on some pairs; supplementary observation, not a C32 violation")


def replay(w):
    from vf.core import Partial
    p = Partial()
    prods = tuple((l, r) for l, r in w["prods"])
    s = w.get("s") or ""
    check_grammar(p, prods, max(5, len(s)), 0)
    if p.violations:
        k = sorted(p.violations)[0]
        return True, k + ": " + p.violations[k][1]
    return False, "parser agrees with the derivation oracle on every string up to the bound"
