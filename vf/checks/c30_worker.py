"""C30 worker - one *configuration* process of the determinism exploration.

Launched by vf/checks/c30.py as

    [setarch x86_64 -R] python c30_worker.py  < spec.json  > records.jsonl

with a fixed minimal environment (PYTHONHASHSEED, PYTHONMALLOC, ...) so that the
process is itself deterministic.  It never imports anything from /verif.

spec = {"repo": "/repo", "pad": n, "script": [[program, target, level], ...]}

Order of events (fixed; this is what makes the configuration a *state*):
  1. read the spec,
  2. heap padding: n groups of objects of several size classes that stay alive,
  3. import ppci.api and load the target modules (get_arch),
  4. the script is executed in the process itself: operation 0 is the first
     compilation of a fresh process, the history of operation j is 0..j-1.

One JSON line per executed operation:
  {"j": position, "prog", "target", "level",
   "stages": [[stage, function, digest], ...], "obj": digest, "img": digest | "!Exc@where"}
  or "error": "ExcType@file.py:function" instead of obj/img when the compiler raises.
The same records plus the stage texts are always written to fd 3 (/dev/null or a file).
"""
import os
import sys
import re
import json
import signal
import hashlib

# ------------------------------------------------------------------ corpus
#
# Small C units, simplest first (the first diverging one is the witness).
# Everything is self-contained so that the object can be linked without a
# run-time library (programs that need one simply record a link error, which
# must then be the same error in every configuration).

C_CORPUS = [
    ("ret_const", "int f(void) { return 42; }\n"),
    ("add2", "int f(int a, int b) { return a + b; }\n"),
    ("arith", "int f(int a, int b, int c) { return (a + b) - (c & a) + (b | 5) - (a << 2); }\n"),
    ("cond", "int f(int c, int a, int b) { int x; if (c) x = a; else x = b; return x; }\n"),
    ("loop_sum", "int f(int n) { int s = 0; int i; for (i = 0; i < n; i++) s += i; return s; }\n"),
    ("call1", "int g(int a) { return a + 1; }\nint f(int a, int b) { return g(a) + g(b); }\n"),
    ("locals6", """
int f(int a, int b) {
  int p = a + b, q = a - b, r = a & b, s = a | b, t = p + q, u = r - s;
  return p + q + r + s + t + u;
}
"""),
    ("global_rw", "int g1; int g2 = 7;\nint f(int a) { g1 = a + g2; g2 = g1 - 1; return g1 + g2; }\n"),
    ("array_rw", """
int tab[8];
int f(int n) { int i; int s = 0; for (i = 0; i < 8; i++) { tab[i] = n + i; } for (i = 0; i < 8; i++) s += tab[i]; return s; }
"""),
    ("ptr_walk", """
int f(int *p, int n) { int s = 0; while (n > 0) { s += *p; p++; n--; } return s; }
"""),
    ("struct_fields", """
struct pt { int x; int y; int z; };
struct pt gp;
int f(struct pt *p, int k) { p->x = k; p->y = p->x + 2; p->z = p->y - p->x; gp.x = p->z; return gp.x + p->y; }
"""),
    ("char_short", """
char cbuf[4]; short sbuf[4];
int f(char c, short s) { cbuf[0] = c; cbuf[1] = c + 1; sbuf[0] = s; sbuf[1] = s - c; return cbuf[1] + sbuf[1]; }
"""),
    ("unsigned_ops", """
unsigned f(unsigned a, unsigned b) { unsigned x = a >> 3; unsigned y = b << 2; if (x > y) return x - y; return (y - x) & 0xff; }
"""),
    ("nested_loops", """
int f(int n, int m) { int i, j, s = 0; for (i = 0; i < n; i++) for (j = 0; j < m; j++) s += i - j; return s; }
"""),
    ("if_chain", """
int f(int a) { if (a == 1) return 10; else if (a == 2) return 20; else if (a == 3) return 35; else if (a < 0) return -1; return a + 100; }
"""),
    ("recursion", "int fib(int n) { if (n < 2) return n; return fib(n - 1) + fib(n - 2); }\n"),
    ("while_brk", """
int f(int n) { int s = 0; int i = 0; while (1) { i++; if (i > n) break; if (i & 1) continue; s += i; } return s; }
"""),
    ("ternary_logic", """
int f(int a, int b, int c) { int x = a > b ? a : b; int y = (a && b) || c; int z = !a; return x + y + z + (b < c ? 3 : 4); }
"""),
    ("many_args", "int f(int a, int b, int c, int d, int e, int g) { return a - b + c - d + e - g; }\n"
                  "int h(int x) { return f(x, x + 1, x + 2, x + 3, x + 4, x + 5); }\n"),
    ("four_funcs", """
static int sq(int a) { return a + a; }
static int inc(int a) { return a + 1; }
int mix(int a, int b) { return sq(a) - inc(b); }
int top(int a, int b, int c) { int r = mix(a, b); r += mix(b, c); r -= mix(c, a); return r; }
"""),
    ("bitops", """
unsigned f(unsigned v) { unsigned c = 0; while (v) { c += v & 1; v >>= 1; } return c; }
unsigned g(unsigned v, unsigned m) { return (v & ~m) | (m & 0x55); }
"""),
    ("xor_mix", "int f(int a, int b, int c) { int x = a ^ b; int y = x ^ c; return (x + y) ^ (a - c); }\n"),
    ("mul3", "int f(int a, int b) { return a * 3 + b * a; }\n"),
    ("divmod", "int f(int a, int b) { return a / b + a % b; }\nunsigned g(unsigned a, unsigned b) { return a / b + a % b; }\n"),
    ("swap_ptr", """
void swap(int *a, int *b) { int t = *a; *a = *b; *b = t; }
int f(int x, int y) { int a = x; int b = y; swap(&a, &b); return a - b; }
"""),
    ("gcd", "int gcd(int a, int b) { while (b != 0) { int t = b; b = a - (a / b) * b; a = t; } return a; }\n"),
    ("collatz", """
int f(int n) { int steps = 0; while (n != 1 && steps < 1000) { if (n & 1) n = n + n + n + 1; else n = n >> 1; steps++; } return steps; }
"""),
    ("strlen_cpy", """
int slen(char *s) { int n = 0; while (s[n]) n++; return n; }
void scpy(char *d, char *s) { while ((*d++ = *s++)) { } }
char msg[] = "hello";
char buf[16];
int f(void) { scpy(buf, msg); return slen(buf); }
"""),
    ("static_local", "int f(int a) { static int acc = 3; acc += a; return acc; }\n"),
    ("do_goto", """
int f(int n) { int s = 0; do { s += n; n--; } while (n > 0); if (s > 100) goto big; return s; big: return 100; }
"""),
    ("bubble", """
int arr[6] = {5, 2, 9, 1, 7, 3};
void sort(void) { int i, j; for (i = 0; i < 6; i++) for (j = 0; j + 1 < 6 - i; j++) if (arr[j] > arr[j + 1]) { int t = arr[j]; arr[j] = arr[j + 1]; arr[j + 1] = t; } }
"""),
    ("switch5", """
int f(int a, int b) { switch (a) { case 0: return b; case 1: return b + 1; case 2: b = b - 7; break; case 5: b = b + b; break; default: b = 0; } return b - a; }
"""),
    ("funcptr", """
int inc(int a) { return a + 1; }
int dec(int a) { return a - 1; }
int apply(int (*fp)(int), int v) { return fp(fp(v)); }
int f(int c, int v) { if (c) return apply(inc, v); return apply(dec, v); }
"""),
    ("struct_copy", """
struct big { int a[6]; };
struct big s1, s2;
void f(int k) { int i; for (i = 0; i < 6; i++) s1.a[i] = k + i; s2 = s1; }
"""),
    ("matrix", """
int A[9], B[9], C[9];
void mm(void) { int i, j, k; for (i = 0; i < 3; i++) for (j = 0; j < 3; j++) { int s = 0; for (k = 0; k < 3; k++) s += A[i * 3 + k] + B[k * 3 + j]; C[i * 3 + j] = s; } }
"""),
    ("crc", """
unsigned crc(unsigned char *p, int n) { unsigned c = 0xffff; int i; while (n-- > 0) { c = c ^ *p++; for (i = 0; i < 8; i++) { if (c & 1) c = (c >> 1) ^ 0xa001; else c = c >> 1; } } return c; }
"""),
    ("float_ops", "float f(float a, float b) { float c = a + b; if (c > b) c = c - a * b; return c; }\n"),
    ("double_ops", "double f(double a, int n) { double s = 0; int i; for (i = 0; i < n; i++) s = s + a; return s; }\n"),
    ("longlong", "long long f(long long a, long long b) { return a + b - (a & b); }\n"),
    ("phi_web", """
int f(int a, int b, int n) {
  int x = a, y = b, z = 0, i;
  for (i = 0; i < n; i++) { if (x > y) { int t = x; x = y; y = t; z += 1; } else { x += 2; if (z > 3) y -= 1; } }
  return x + y + z;
}
"""),
]


def _pressure(n, call):
    """n locals, all live across a loop (and across a call when call=True)."""
    decl = "".join("  int v%d = a + %d;\n" % (i, i * 3 + 1) for i in range(n))
    upd = "".join("    v%d = v%d + v%d;\n" % (i, i, (i + 1) % n) for i in range(n))
    tot = " + ".join("v%d" % i for i in range(n))
    src = ""
    if call:
        src += "int ext(int a) { return a - 1; }\n"
    src += "int f(int a, int n) {\n  int i;\n" + decl
    src += "  for (i = 0; i < n; i++) {\n" + upd
    if call:
        src += "    v0 = v0 + ext(v%d);\n" % (n - 1)
    src += "  }\n  return " + tot + ";\n}\n"
    return src


for _n in (4, 8, 12, 16, 24, 32):
    C_CORPUS.append(("pressure%d" % _n, _pressure(_n, False)))
for _n in (6, 10, 14, 20):
    C_CORPUS.append(("pressure%dc" % _n, _pressure(_n, True)))

C_CORPUS.append(("unit_large", """
int hist[16]; int total; char name[8] = "abc";
static int clamp(int v, int lo, int hi) { if (v < lo) return lo; if (v > hi) return hi; return v; }
static int weight(int i, int k) { return (i + k) - (i & k); }
int fill(int seed) { int i; int s = seed; for (i = 0; i < 16; i++) { s = s + s + i; hist[i] = clamp(s, -50, 50); } return s; }
int score(int k) { int i; int acc = 0; int best = -1000; int at = 0; for (i = 0; i < 16; i++) { int w = weight(i, k) + hist[i]; acc += w; if (w > best) { best = w; at = i; } } total = acc; return best + at; }
int run(int a, int b) { int r = fill(a); r += score(b); r -= score(a); if (name[0] == 'a') r++; return clamp(r, 0, 255); }
"""))

# Assembly units per target family (exercise the Earley assembler + relocations).
ASM_CORPUS = {
    "x86_64": [("asm_basic", "section code\nstart: mov rax, rbx\nxor rcx, rbx\ninc rcx\njmp start\nl2: jz l2\nret\n")],
    "arm": [("asm_basic", "section code\nstart: mov r4, 100\nadd r9, r7, r2\nldr r0, =l2\nsub r5, r6, r2\nldr r1, =start\nb start\nl2: bne l2\nmov pc, lr\n")],
    "riscv": [("asm_basic", "section code\nstart: addi x5, x4, 5\nmv x4, x5\nlui x6, 0x5\nl1: jal x1, start\nbeq x4, x5, l1\n")],
    "msp430": [("asm_basic", "section code\nstart: mov.w r14, r15\nmov.w #0x1337, r12\nadd.w r4, r5\njmp start\n")],
}

# an assembly that fails after it queued a literal / emitted something: what it leaves behind must not reach the next object
for _fam, _src in (("arm", "section code\nldr r0, =far_symbol\nmov r1,\n"), ("riscv", "section code\nstart: addi x5, x4, 5\nbogus x1,\n"),
                   ("x86_64", "section code\nstart: mov rax, rbx\nbogus rax,\n"), ("msp430", "section code\nstart: mov.w r14, r15\nbogus r1,\n")):
    ASM_CORPUS[_fam].append(("asm_fail", _src))

# a header that exists in three -I directories: the directory searched first decides (list order, never hash order)
INC_DIRS = ["inc_first", "inc_second", "inc_third"]
C_CORPUS.insert(3, ("inc_shadow", "#include <config.h>\n#include \"config.h\"\nint shadow(int a) { return a * CONFIG_VALUE + CONFIG_VALUE; }\n"))


def include_dirs():
    """Create (idempotently) the three include directories under /verif/build and return their paths."""
    base = os.path.join(os.path.dirname(os.path.dirname(os.path.dirname(os.path.abspath(__file__)))), "build", "c30inc")
    out = []
    for k, d in enumerate(INC_DIRS):
        path = os.path.join(base, d)
        os.makedirs(path, exist_ok=True)
        f = os.path.join(path, "config.h")
        text = "#define CONFIG_VALUE %d\n" % (1000 + 37 * k)
        if not os.path.exists(f) or open(f).read() != text:
            tmp = f + ".%d" % os.getpid()
            open(tmp, "w").write(text)
            os.replace(tmp, f)
        out.append(path)
    return out


TARGETS = ["x86_64", "arm", "riscv", "arm:thumb", "riscv:rvc", "or1k", "microblaze",
           "mips", "msp430", "xtensa", "m68k", "avr", "stm8"]

LAYOUT = """
MEMORY flash LOCATION=0x1000 SIZE=0x20000 { SECTION(code) }
MEMORY ram LOCATION=0x40000 SIZE=0x20000 { SECTION(data) }
"""


def family(target):
    return target.split(":")[0]


def programs():
    """Ordered program names (C units; asm units are addressed as asm:<name>)."""
    return [n for n, _ in C_CORPUS]


def source_of(prog, target):
    if prog.startswith("asm:"):
        for n, s in ASM_CORPUS.get(family(target), []):
            if "asm:" + n == prog:
                return "asm", s
        return "asm", None
    for n, s in C_CORPUS:
        if n == prog:
            return "c", s
    raise KeyError(prog)


# ------------------------------------------------------------------ one compile

class CpuTimeout(BaseException):
    pass


def _on_alarm(signum, frame):
    raise CpuTimeout()


ADDRESS = re.compile(r" at 0x[0-9a-fA-F]+")


def dg(text):
    if isinstance(text, str):
        text = text.encode()
    return hashlib.blake2b(text, digest_size=8).hexdigest()


def canon(text):
    """Stage text without the reader-only part of each line (after ' ;; ')."""
    return "\n".join(line.split(" ;; ")[0] for line in text.split("\n"))


def ins_text(ins):
    """Printable form of a (possibly not yet / freshly coloured) instruction.  str() of a
    coloured virtual register needs Register.from_num, which some targets lack."""
    try:
        return str(ins)
    except Exception:  # noqa
        regs = ",".join("%s:%s" % (r.name, r.color) for r in ins.registers)
        return "%s{%s}" % (type(ins).__name__, regs)


def make_reporter(events):
    """A ReportGenerator that records (stage, text) in call order."""
    import io
    from ppci import ir
    from ppci.irutils import Writer
    from ppci.utils.reporting import ReportGenerator
    from ppci.arch.generic_instructions import Label

    class Staging(ReportGenerator):
        def __init__(self):
            self.fn = None       # current function (after "Log for ...")
            self.n_ir = 0
            self.n_frame = 0

        def put(self, stage, text):
            events.append((stage, self.fn or "", text))

        def heading(self, level, title):
            if level == 3 and title.startswith("Log for "):
                self.fn = title[8:].split("(")[0].strip()
                self.n_frame = 0

        def message(self, msg):
            pass

        def dump_raw_text(self, text):
            pass

        def dump_exception(self, einfo):
            pass

        def dump_ir(self, ir_module):
            f = io.StringIO()
            w = Writer(file=f)
            if isinstance(ir_module, ir.Module):
                w.write(ir_module, verify=False)
                self.n_ir += 1
                self.put("frontend" if self.n_ir <= 2 else "optimizer", f.getvalue())
            else:
                w.write_function(ir_module)
                self.put("cg-input", f.getvalue())

        def dump_dag(self, dags):
            self.put("dag", "\n".join("%s" % (root,) for dag in dags for root in dag))

        def dump_trees(self, trees):
            self.put("isel-trees", "\n".join(str(t) for t in trees))

        def dump_frame(self, frame):
            self.n_frame += 1
            text = "\n".join(ins_text(i) for i in frame.instructions)
            self.put("isel" if self.n_frame == 1 else "regalloc", text)

        def dump_instructions(self, instructions, arch):
            # canonical form = encoding + instruction class + relocation symbols (what reaches the object file);
            # the printed form is appended after " ;; " for the reader only: it may show a register *set* in
            # iteration order (e.g. thumb 'pop {PC, R7}' / 'pop {R7, PC}') although the encoding is the same
            lines = []
            for ins in instructions:
                try:
                    shown = arch.asm_printer.print_instruction(ins)
                except Exception:  # noqa
                    shown = type(ins).__name__
                if isinstance(ins, Label):
                    lines.append("label %s" % ins.name)
                    continue
                try:
                    code = ins.encode().hex()
                    rel = ",".join(str(r.symbol_name) for r in ins.relocations())
                except Exception as ex:  # noqa
                    code, rel = "unencodable:" + type(ex).__name__, ""
                if code:
                    lines.append("%s %s %s ;; %s" % (code, type(ins).__name__, rel, shown))
                else:   # directives and place holders: no bytes; the printed form, minus any "object at 0x..." address
                    lines.append("%s %s %s" % (type(ins).__name__, rel, ADDRESS.sub(" at 0x?", shown)))
            self.put("emit", "\n".join(lines))

    return Staging()


def err_sig(ex):
    import traceback
    tb = traceback.extract_tb(ex.__traceback__)
    where = "?"
    for fr in reversed(tb):
        if "/ppci/" in fr.filename:
            where = "%s:%s" % (os.path.basename(fr.filename), fr.name)
            break
    return "%s@%s" % (type(ex).__name__, where)


def compile_op(prog, target, level, cpu=60):
    """Compile one unit for one target; returns the record body."""
    import io
    from ppci import api
    kind, src = source_of(prog, target)
    events = []
    rec = {}
    old = signal.signal(signal.SIGVTALRM, _on_alarm)
    signal.setitimer(signal.ITIMER_VIRTUAL, cpu)
    try:
        try:
            if kind == "asm":
                obj = api.asm(io.StringIO(src), target)
            else:
                rep = make_reporter(events)
                copts = None
                if prog == "inc_shadow":
                    from ppci.lang.c import COptions
                    copts = COptions()
                    for d in include_dirs():
                        copts.add_include_path(d)
                obj = api.cc(io.StringIO(src), target, coptions=copts, opt_level=level, reporter=rep)
            f = io.StringIO()
            obj.save(f)
            objtext = f.getvalue()
        except CpuTimeout:
            rec["error"] = "CpuTimeout"
            obj = None
        except Exception as ex:  # noqa
            rec["error"] = err_sig(ex)
            obj = None
        if obj is not None:
            events.append(("object", "", objtext))
            rec["obj"] = dg(objtext)
            rec["size"] = sum(len(s.data) for s in obj.sections)
            try:
                img = api.link([obj], layout=io.StringIO(LAYOUT))
                f = io.StringIO()
                img.save(f)
                blob = b"".join(i.name.encode() + b"@%x:" % i.address + bytes(i.data) for i in img.images)
                events.append(("link", "", f.getvalue() + "\nIMAGES " + blob.hex()))
                rec["img"] = dg(events[-1][2])
                # the same object linked a second time in this process gives the same image, and linking does not change its input
                img2 = api.link([obj], layout=io.StringIO(LAYOUT))
                f2 = io.StringIO()
                img2.save(f2)
                blob2 = b"".join(i.name.encode() + b"@%x:" % i.address + bytes(i.data) for i in img2.images)
                rec["relink"] = "same" if f2.getvalue() + "\nIMAGES " + blob2.hex() == events[-1][2] else "differs"
                f3 = io.StringIO()
                obj.save(f3)
                rec["input_after_link"] = "same" if f3.getvalue() == objtext else "changed"
            except CpuTimeout:
                rec["img"] = "!CpuTimeout"
            except Exception as ex:  # noqa
                rec["img"] = "!" + err_sig(ex)
    finally:
        signal.setitimer(signal.ITIMER_VIRTUAL, 0)
        signal.signal(signal.SIGVTALRM, old)
    rec["stages"] = [[s, fn, dg(canon(t))] for s, fn, t in events]
    return rec, events


# ------------------------------------------------------------------ process driver

def emit(rec, fd=1):
    data = (json.dumps(rec, sort_keys=True) + "\n").encode()
    while data:
        n = os.write(fd, data)
        data = data[n:]


def side_channel(rec, events):
    """The same records plus the stage texts always go to fd 3 (the launcher connects it to
    /dev/null or to a file), so that a verbose run performs exactly the same allocations
    as a normal one and therefore is the same configuration state."""
    out = dict(rec)
    out["texts"] = [[s, fn, t] for s, fn, t in events]
    emit(out, 3)


def run_ops(ops):
    """Execute a sequence of compile operations in this process, one record each.
    The CPU time is reported as a fixed-width string formatted straight from the float: a record
    whose length depended on a measured time, or an int object that is allocated only when the
    value exceeds the small-int cache, would make the heap layout depend on timing."""
    import time
    for j, (prog, target, level) in enumerate(ops):
        c0 = time.process_time()
        rec, events = compile_op(prog, target, level)
        rec.update({"j": j, "prog": prog, "target": target, "level": level, "cpu": "%010.3f" % (time.process_time() - c0)})
        emit(rec)
        side_channel(rec, events)
        del events, rec


def pad_heap(n):
    """n groups of live objects of several size classes, allocated before ppci is imported."""
    keep = []
    for i in range(n):
        keep.append(object())
        keep.append([None] * (i % 7))
        keep.append({i: None})
        keep.append(bytes(8 * (i % 61) + 1))
        keep.append((i, keep[-1]))
    return keep


def main():
    spec = json.loads(sys.stdin.read())
    sys.stdout = sys.stderr   # records go to fd 1 with os.write; anything ppci prints must not mix in
    # logging.LogRecord allocates a transient int only when the millisecond part of the wall clock exceeds the
    # small-int cache: with PYTHONMALLOC=malloc that makes the heap layout depend on the time of day
    import logging
    logging.disable(logging.CRITICAL)
    keep = pad_heap(spec["pad"])
    sys.path.insert(0, spec["repo"])
    import ppci
    from ppci import api  # noqa
    got = os.path.dirname(os.path.dirname(os.path.abspath(ppci.__file__)))
    if os.path.realpath(got) != os.path.realpath(spec["repo"]):
        emit({"harness_error": "ppci imported from %s" % got})
        return 2
    script = spec["script"]
    # process set-up that any user of these targets performs: load the target modules
    for t in sorted({op[1] for op in script}):
        api.get_arch(t)
    try:
        run_ops(script)
    except BaseException as ex:  # noqa
        emit({"harness_error": "%s: %s" % (type(ex).__name__, ex)})
        return 3
    emit({"done": len(script), "keep": len(keep),
          "seed": os.environ.get("PYTHONHASHSEED"), "malloc": os.environ.get("PYTHONMALLOC", "")})
    return 0


if __name__ == "__main__":
    sys.exit(main())
