"""C31 - regex -> DFA (Brzozowski derivatives) vs re.fullmatch, product automaton vs a reference Thompson NFA, maximal munch scanner."""
import re
import io
import itertools
import contextlib

ID = "C31"
LEVEL = "model_checking"
RULE = ("every regex AST with <= 5 (thorough: 6) nodes over leaves {a, b, ., [ab], [a-c], \\*, \\(} and constructors {concat, |, *, +, ?}; "
        "each AST is presented three ways: minimally parenthesised text, text with every operand parenthesised, and built through the "
        "public Regex API (so a parser defect cannot mask the derivative/DFA code); per presentation: (i) the DFA tables are run on every "
        "string of length <= 5 (thorough 6) over {a,b,c,*,(}, plus 152 strings of length <= 2 containing newline, NUL, 0xff or a neighbour of a class "
        "boundary, and compared with re.fullmatch (DOTALL), (ii) the full product automaton of the "
        "compiled DFA with a lazily determinised Thompson NFA built from the AST is explored over the exact byte-class partition of 0..255 "
        "(no length bound; acceptance must agree in every reachable product state), (iii) scan() on every string of length <= 4 (thorough: 5 "
        "for ASTs of <= 5 nodes) "
        "vs a brute-force maximal-munch tokeniser, (iv) make_scanner on every ordered pair of ASTs with <= 2 (thorough 3) nodes; distinct "
        "non-trivial = distinct (number of DFA states, set of accepted strings) with a language that is neither empty nor everything")
ASSUMPTIONS = [
    "reference engine: CPython re.fullmatch with re.DOTALL ('.' = any byte, which is what ppci's SIGMA = 0..255 denotes)",
    "reference Thompson NFA written in /verif; for every AST it is compared with re on all bounded strings before it is used (a disagreement "
    "makes the AST unclassified, never a violation)",
    "re is exponential on deeply nested quantifiers: with 3 nested quantifiers re judges strings of length <= 5, with 4 those of length <= 2, with 5 or more those of length <= 1, and the reference NFA "
    "(validated on those) judges the longer ones; counted in n_strings_judged_by_reference_nfa_only",
    "non-termination of compile() is decided by a deterministic work budget of 10000 sub-expression derivative() calls (terminating "
    "expressions of the enumerated sizes need < 1000), counted by wrappers installed from the check (not by editing /repo)",
    "symbols are bytes 0..255 (ppci's SIGMA); code points above 255, complemented classes [^..], anchors, counted repetition and empty "
    "alternatives are outside the supported syntax named by the property and are not generated",
    "scanner on a nullable expression: only the tokens before the first empty longest match are compared (scan() then yields '' forever; "
    "the property does not say what a scanner must do with an empty token)",
    "make_scanner: the token text split must be maximal munch and the reported name must be one of the expressions matching that text; "
    "the priority among equally long matches is not part of the property and is not judged",
]
CLAIM = {
    "text": "for every regular expression of the stated size, in three presentations, the compiled DFA accepts exactly the language of the "
            "expression: proven for all byte strings of any length by product-automaton exploration against a reference NFA that itself "
            "agrees with CPython's re on all bounded strings; scan()/make_scanner split every bounded input by maximal munch",
    "note": "trusted: CPython re (DOTALL), the Thompson construction and subset simulation in vf/checks/c31.py",
    "technique": "bounded-exhaustive regex enumeration + product automaton language equivalence",
    "engine": "K1 + automaton product (K2)",
}

ALPHA = "abc*("
LEAVES = [("a", (97,)), ("b", (98,)), (".", tuple(range(256))), ("[ab]", (97, 98)), ("[a-c]", (97, 98, 99)), ("\\*", (42,)), ("\\(", (40,))]
LEAF_KIND = ["sym", "sym", "dot", "class", "range", "esc", "esc"]
CONS_NAME = {"*": "star", "+": "plus", "?": "opt", "c": "cat", "o": "alt"}


# ---------------------------------------------------------------- AST enumeration and rendering

_SIZE_CACHE = {}


def asts_of_size(n):
    """All ASTs with exactly n nodes (leaf = 1 node, unary = 1 + operand, binary = 1 + both)."""
    if n in _SIZE_CACHE:
        return _SIZE_CACHE[n]
    if n == 1:
        out = [("l", i) for i in range(len(LEAVES))]
    else:
        out = []
        for op in "*+?":
            for x in asts_of_size(n - 1):
                out.append((op, x))
        for op in "co":
            for k in range(1, n - 1):
                for x in asts_of_size(k):
                    for y in asts_of_size(n - 1 - k):
                        out.append((op, x, y))
    _SIZE_CACHE[n] = out
    return out


EXPECTED_COUNTS = {1: 7, 2: 21, 3: 161, 4: 1071, 5: 8603, 6: 69321}


def to_tuple(j):
    if isinstance(j, (list, tuple)):
        return tuple(to_tuple(x) for x in j)
    return j


def to_list(a):
    if isinstance(a, tuple):
        return [to_list(x) for x in a]
    return a


def render(ast, mode):
    """mode 'min': standard minimal parenthesisation; 'full': every operand of every operator parenthesised."""
    k = ast[0]
    if k == "l":
        return LEAVES[ast[1]][0]
    if k in "*+?":
        x = ast[1]
        s = render(x, mode)
        if mode == "full" or x[0] != "l":
            s = "(" + s + ")"
        return s + k
    parts = []
    for x in ast[1:]:
        s = render(x, mode)
        if mode == "full" or (k == "c" and x[0] == "o"):
            s = "(" + s + ")"
        parts.append(s)
    return ("" if k == "c" else "|").join(parts)


def features(ast):
    cons, leaves = set(), set()

    def walk(x):
        if x[0] == "l":
            leaves.add(LEAF_KIND[x[1]])
        else:
            cons.add(CONS_NAME[x[0]])
            for y in x[1:]:
                walk(y)
    walk(ast)
    return sorted(cons), sorted(leaves)


def feature_key(prefix, ast):
    cons, leaves = features(ast)
    return "%s/%s/%s" % (prefix, "+".join(cons) or "leaf", "+".join(leaves))


def bare_concat(x, mode):
    """Does the rendering of x contain a concatenation outside any parentheses?"""
    if x[0] == "c":
        return True
    if x[0] == "o" and mode == "min":
        return any(bare_concat(y, mode) for y in x[1:])
    return False


def has_group_with_concat(ast, mode):
    k = ast[0]
    if k == "l":
        return False
    for x in ast[1:]:
        wrapped = mode == "full" or (k in "*+?" and x[0] != "l") or (k == "c" and x[0] == "o")
        if wrapped and bare_concat(x, mode):
            return True
        if has_group_with_concat(x, mode):
            return True
    return False


def has_alt_of_concat(ast):
    if ast[0] == "l":
        return False
    if ast[0] == "o" and any(x[0] == "c" for x in ast[1:]):
        return True
    return any(has_alt_of_concat(x) for x in ast[1:])


# ---------------------------------------------------------------- reference automaton

class RefNFA:
    """Thompson NFA over bytes with lazy subset construction.

    AST node kinds: ('l', i) leaf from LEAVES, ('s', frozenset) explicit byte set, ('e',) epsilon, unary * + ?, binary c o."""

    def __init__(self, ast):
        self.eps = []
        self.edge = []  # per state: None or (frozenset of bytes, target)
        s, e = self._build(ast)
        self.final = e
        self.ids = {}
        self.sets = []
        self.acc = []
        self.tr = []
        self.start = self._intern(self._closure([s]))

    def _new(self):
        self.eps.append([])
        self.edge.append(None)
        return len(self.eps) - 1

    def _build(self, a):
        k = a[0]
        if k in ("l", "s"):
            s, e = self._new(), self._new()
            self.edge[s] = (frozenset(LEAVES[a[1]][1]) if k == "l" else frozenset(a[1]), e)
            return s, e
        if k == "e":
            s, e = self._new(), self._new()
            self.eps[s].append(e)
            return s, e
        if k == "c":
            s1, e1 = self._build(a[1])
            s2, e2 = self._build(a[2])
            self.eps[e1].append(s2)
            return s1, e2
        if k == "o":
            s, e = self._new(), self._new()
            for x in a[1:]:
                s1, e1 = self._build(x)
                self.eps[s].append(s1)
                self.eps[e1].append(e)
            return s, e
        s1, e1 = self._build(a[1])
        s, e = self._new(), self._new()
        self.eps[s].append(s1)
        self.eps[e1].append(e)
        if k in "*?":
            self.eps[s].append(e)
        if k in "*+":
            self.eps[e1].append(s1)
        return s, e

    def _closure(self, states):
        seen = set(states)
        todo = list(states)
        while todo:
            s = todo.pop()
            for t in self.eps[s]:
                if t not in seen:
                    seen.add(t)
                    todo.append(t)
        return frozenset(seen)

    def _intern(self, fs):
        i = self.ids.get(fs)
        if i is None:
            i = len(self.sets)
            self.ids[fs] = i
            self.sets.append(fs)
            self.acc.append(self.final in fs)
            self.tr.append({})
        return i

    def step(self, i, byte):
        t = self.tr[i].get(byte)
        if t is None:
            nxt = []
            for s in self.sets[i]:
                ed = self.edge[s]
                if ed is not None and byte in ed[0]:
                    nxt.append(ed[1])
            t = self._intern(self._closure(nxt))
            self.tr[i][byte] = t
        return t

    def boundaries(self):
        b = set()
        for ed in self.edge:
            if ed is not None:
                vs = sorted(ed[0])
                for i, v in enumerate(vs):
                    if i == 0 or vs[i - 1] != v - 1:
                        b.add(v)
                    if i == len(vs) - 1 or vs[i + 1] != v + 1:
                        b.add(v + 1)
        return b


class TableDFA:
    """ppci's compiled tables, stepped with ppci's own pick_transition (each (state, byte) looked up once)."""

    def __init__(self, prog, pick):
        self.trans, self.accepts, self.error = prog
        self.pick = pick
        self.cache = {}
        self.start = 0

    def step(self, st, byte):
        k = (st, byte)
        t = self.cache.get(k)
        if t is None:
            t = self.pick(self.trans, st, byte)
            self.cache[k] = t
        return t

    def acc_of(self, st):
        return bool(self.accepts[st])

    def boundaries(self):
        b = set()
        for row in self.trans:
            for first, last, _ in row:
                b.add(first)
                b.add(last + 1)
        return b


def class_reps(*boundary_sets):
    """Representatives (both ends and a middle) of every class of the partition of 0..255 induced by the boundaries."""
    b = {0, 256}
    for s in boundary_sets:
        b |= {x for x in s if 0 <= x <= 256}
    b = sorted(b)
    reps = []
    for lo, hi1 in zip(b, b[1:]):
        hi = hi1 - 1
        reps.append(lo)
        if hi > lo:
            reps.append(hi)
        if hi - lo > 1:
            reps.append((lo + hi) // 2)
    return reps


def product(dfa, nfa, reps, acc_a, acc_b):
    """Explore all reachable product states; return (first disagreement path or None, states, transitions)."""
    start = (dfa.start, nfa.start)
    seen = {start: None}
    order = [start]
    ntrans = 0
    i = 0
    while i < len(order):
        st = order[i]
        i += 1
        if acc_a(st[0]) != acc_b(st[1]):
            path = []
            cur = st
            while seen[cur] is not None:
                prev, byte = seen[cur]
                path.append(byte)
                cur = prev
            return path[::-1], len(order), ntrans
        for byte in reps:
            nx = (dfa.step(st[0], byte), nfa.step(st[1], byte))
            ntrans += 1
            if nx not in seen:
                seen[nx] = (st, byte)
                order.append(nx)
    return None, len(order), ntrans


# ---------------------------------------------------------------- bounded strings

_STR_CACHE = {}


def strings(L):
    """(strings in (length, lexicographic) order, parent index, last byte) for all strings of length <= L over ALPHA."""
    if L not in _STR_CACHE:
        ss, parent, last = [""], [-1], [-1]
        index = {"": 0}
        for n in range(1, L + 1):
            for t in itertools.product(ALPHA, repeat=n):
                s = "".join(t)
                index[s] = len(ss)
                ss.append(s)
                parent.append(index[s[:-1]])
                last.append(ord(s[-1]))
        _STR_CACHE[L] = (ss, parent, last)
    return _STR_CACHE[L]


PROBE_SYMBOLS = ALPHA + "\n\x00z\xffd)+`"
PROBES = ["".join(t) for n in (1, 2) for t in itertools.product(PROBE_SYMBOLS, repeat=n) if any(c not in ALPHA for c in t)]


def accepts(aut, acc, s):
    st = aut.start
    for c in s:
        st = aut.step(st, ord(c))
    return acc(st)


def re_language(text, ss):
    fm = re.compile(text, re.DOTALL).fullmatch
    return [fm(s) is not None for s in ss]


def run_automaton(aut, acc, parent, last):
    st = [aut.start] * len(parent)
    out = [False] * len(parent)
    out[0] = acc(aut.start)
    step = aut.step
    for i in range(1, len(parent)):
        t = step(st[parent[i]], last[i])
        st[i] = t
        out[i] = acc(t)
    return out


def ref_munch(s, member, nullable):
    """Brute-force maximal munch.  Returns (tokens, status) with status in end / error / empty."""
    toks = []
    pos = 0
    n = len(s)
    while pos < n:
        for end in range(n, pos, -1):
            if member(s[pos:end]):
                toks.append(s[pos:end])
                pos = end
                break
        else:
            return toks, ("empty" if nullable else "error")
    return toks, ("empty" if nullable else "end")


# ---------------------------------------------------------------- ppci side

WORK_BUDGET = 10000


class WorkLimit(Exception):
    pass


@contextlib.contextmanager
def derivative_budget(n):
    """Count every derivative() call on every Regex node class (wrappers installed from here, removed on exit; /repo is not edited)
    and raise WorkLimit after n calls.  A deterministic substitute for a time limit."""
    from ppci.lang.tools.regex import regex as rmod
    classes = [c for c in vars(rmod).values() if isinstance(c, type) and issubclass(c, rmod.Regex) and "derivative" in vars(c)
               and c is not rmod.Regex]
    saved = [(c, vars(c)["derivative"]) for c in classes]
    box = [0]

    def wrap(f):
        def derivative(self, symbol):
            box[0] += 1
            if box[0] > n:
                raise WorkLimit()
            return f(self, symbol)
        return derivative
    for c, f in saved:
        c.derivative = wrap(f)
    try:
        yield box
    finally:
        for c, f in saved:
            c.derivative = f


def reference_dfa_size(ast):
    nfa = RefNFA(ast)
    reps = class_reps(nfa.boundaries())
    todo = [nfa.start]
    seen = {nfa.start}
    while todo:
        s = todo.pop()
        for b in reps:
            t = nfa.step(s, b)
            if t not in seen:
                seen.add(t)
                todo.append(t)
    return len(seen)


def build_api(ast):
    """The same expression through the public constructors the parser itself uses."""
    from ppci.lang.tools import regex as rx
    from ppci.lang.tools.regex import regex as rmod
    k = ast[0]
    if k == "l":
        text, bytes_ = LEAVES[ast[1]]
        if text == ".":
            return rmod.SIGMA
        if len(bytes_) == 1:
            return rx.Symbol(chr(bytes_[0]))
        if text == "[a-c]":
            return rx.SymbolSet([(97, 99)])
        return rx.SymbolSet(list(bytes_))
    if k == "*":
        return build_api(ast[1]).kleene()
    if k == "+":
        e = build_api(ast[1])
        return e + rx.Kleene(e)
    if k == "?":
        return build_api(ast[1]).optional()
    if k == "c":
        return build_api(ast[1]) + build_api(ast[2])
    return build_api(ast[1]) | build_api(ast[2])


def from_ppci(expr):
    """ppci Regex tree -> reference AST (used only to choose the locus key of an already established violation)."""
    n = type(expr).__name__
    if n == "Epsilon":
        return ("e",)
    if n == "SymbolSet":
        bs = set()
        for a, b in expr.symbols.ranges:
            bs.update(range(a, b + 1))
        return ("s", frozenset(bs))
    if n == "Kleene":
        return ("*", from_ppci(expr.expr))
    if n == "Concatenation":
        return ("c", from_ppci(expr.lhs), from_ppci(expr.rhs))
    if n == "LogicalOr":
        return ("o", from_ppci(expr.lhs), from_ppci(expr.rhs))
    raise ValueError("untranslatable " + n)


def parser_verdict(ast, mode, text, nfa):
    """None if ppci's parser produced an expression denoting the right language, else a locus key."""
    from ppci.lang.tools import regex as rx
    from vf.core import exc_key
    try:
        expr = rx.parse(text)
    except ValueError as ex:
        if has_group_with_concat(ast, mode):
            return "parser/group-multi-element"
        return exc_key("parser", ex)
    except Exception as ex:  # noqa
        return exc_key("parser", ex)
    try:
        other = RefNFA(from_ppci(expr))
    except ValueError:
        return None
    reps = class_reps(nfa.boundaries(), other.boundaries())
    path, _, _ = product(other, nfa, reps, lambda i: other.acc[i], lambda i: nfa.acc[i])
    if path is None:
        return None
    if mode == "min" and has_alt_of_concat(ast):
        return "parser/precedence-alternation"
    return feature_key("parser/wrong-ast", ast)


def show(s):
    return repr(s)


def etext(ex):
    """Exception text without object addresses (they vary between runs)."""
    return re.sub(r" at 0x[0-9a-fA-F]+", "", str(ex))[:200]


def check_case(p, ast, mode, text, nfa, R, L, Ls, seen_tables, order=None, RP=None):
    """One presentation of one AST.  Returns the compiled tables (or None)."""
    from ppci.lang.tools import regex as rx
    from ppci.lang.tools.regex.scanner import pick_transition
    from vf.core import cpu_limit, CpuTimeout, exc_key
    ss, parent, last = strings(L)

    def viol(key, what, wit):
        p.violation(key, what, wit, order=order)
    w = {"kind": "regex", "ast": to_list(ast), "mode": mode}
    label = "regex %s" % show(text) if mode != "api" else "Regex API object for %s" % show(text)

    def locus(default):
        if mode != "api":
            k = parser_verdict(ast, mode, text, nfa)
            if k is not None:
                return k
        return default

    # pre-flight with a deterministic work budget: compile() has no bound of its own and the expressions it builds can
    # grow without limit; terminating expressions of <= 6 nodes need < 1000 sub-expression derivatives (measured: <= 346)
    try:
        expr = build_api(ast) if mode == "api" else rx.parse(text)
    except Exception as ex:  # noqa
        p.add()
        viol(locus(exc_key("parser" if mode != "api" else "api", ex)), "%s: %s raised %s: %s (re accepts the expression)"
                    % (label, "parse" if mode != "api" else "building the expression", type(ex).__name__, etext(ex)), w)
        return None
    try:
        with cpu_limit(60), derivative_budget(WORK_BUDGET) as box:
            prog = rx.compile(expr)
        p.collect("derivative_work_max_bucket", "%05d" % (box[0] // 100 * 100))
    except (WorkLimit, RecursionError, CpuTimeout) as ex:
        p.add()
        viol(locus("compile/diverges"), "%s: compile does not terminate (%s; expressions of this size that terminate need < 1000); "
                    "the subset-construction DFA of this expression has %d states"
                    % (label, "more than %d sub-expression derivatives taken" % WORK_BUDGET if isinstance(ex, WorkLimit)
                       else type(ex).__name__, reference_dfa_size(ast)), w)
        return None
    except Exception as ex:  # noqa
        p.add()
        viol(locus(exc_key("compile", ex)), "%s: compile raised %s: %s (re accepts the expression; %d strings of length <= %d match)"
                    % (label, type(ex).__name__, etext(ex), sum(R), L), w)
        return None
    if mode != "api":
        # the public string entry point (known to terminate now)
        try:
            with cpu_limit(60):
                prog = rx.compile(text)
        except CpuTimeout:
            p.add()
            viol(locus("compile/diverges"), "%s: compile(str) does not terminate although compile(parse(str)) does" % label, w)
            return None
        except Exception as ex:  # noqa
            p.add()
            viol(locus(exc_key("compile", ex)), "%s: compile raised %s: %s" % (label, type(ex).__name__, etext(ex)), w)
            return None
    if prog in seen_tables:
        p.count("presentations_with_identical_tables")
        return prog
    seen_tables.append(prog)
    dfa = TableDFA(prog, pick_transition)
    # (i) every bounded string on the real tables
    try:
        P = run_automaton(dfa, dfa.acc_of, parent, last)
    except Exception as ex:  # noqa
        p.add()
        viol(locus(exc_key("dfa", ex)), "%s: running the DFA tables raised %s: %s" % (label, type(ex).__name__, etext(ex)), w)
        return None
    p.add(len(ss))
    p.count("strings_run_on_tables", len(ss))
    if P != R:
        i = next(i for i in range(len(ss)) if P[i] != R[i])
        ww = dict(w, s=ss[i])
        viol(locus(feature_key("dfa", ast)), "%s: DFA %s %s, re.fullmatch %s it (%d of %d strings of length <= %d differ)"
                    % (label, "accepts" if P[i] else "rejects", show(ss[i]), "accepts" if R[i] else "rejects",
                       sum(1 for a, b in zip(P, R) if a != b), len(ss), L), ww)
        return None
    # (i') strings with bytes outside the alphabet (newline, NUL, 0xff, neighbours of the class boundaries)
    if RP is not None:
        p.add(len(PROBES))
        try:
            for s, r in zip(PROBES, RP):
                if accepts(dfa, dfa.acc_of, s) != r:
                    viol(locus(feature_key("dfa", ast)), "%s: DFA %s %s, re.fullmatch %s it" % (label, "rejects" if r else "accepts", show(s),
                                                                                             "accepts" if r else "rejects"), dict(w, s=s))
                    return None
        except Exception as ex:  # noqa
            viol(locus(exc_key("dfa", ex)), "%s: stepping the DFA tables raised %s: %s" % (label, type(ex).__name__, etext(ex)), w)
            return None
    # (ii) product automaton, all bytes, no length bound
    reps = class_reps(dfa.boundaries(), nfa.boundaries())
    try:
        path, nst, ntr = product(dfa, nfa, reps, dfa.acc_of, lambda i: nfa.acc[i])
    except Exception as ex:  # noqa
        p.add()
        viol(locus(exc_key("dfa", ex)), "%s: stepping the DFA tables raised %s: %s" % (label, type(ex).__name__, etext(ex)), w)
        return None
    p.count("product_states", nst)
    p.count("product_transitions", ntr)
    p.add(nst)
    if path is not None:
        s = "".join(map(chr, path))
        viol(locus(feature_key("dfa", ast)), "%s: DFA and reference NFA disagree on %s (found by product exploration)" % (label, show(s)),
                    dict(w, s=s))
        return None
    nacc = sum(R)
    if 0 < nacc < len(ss):
        p.outcome((len(prog[0]), hash(tuple(R))))
    # (iii) scanner, maximal munch
    nullable = R[0]
    index = None
    for s in ss:
        if len(s) > Ls:
            break
        p.add()
        if index is None:
            index = {t: R[i] for i, t in enumerate(ss)}
        exp_toks, status = ref_munch(s, index.__getitem__, nullable)
        got, err = [], None
        try:
            for t in itertools.islice(rx.scan(prog, s), len(s) + 2 if status != "empty" else len(exp_toks)):
                got.append(t)
        except ValueError:
            err = "ValueError"
        except Exception as ex:  # noqa
            viol(exc_key("scan", ex), "%s: scan(%s) raised %s: %s" % (label, show(s), type(ex).__name__, etext(ex)), dict(w, s=s, stage="scan"))
            break
        if status == "empty":
            ok = got == exp_toks
            kind = "split"
        elif status == "end":
            ok = got == exp_toks and err is None
            kind = "split" if err is None else "unexpected-error"
        else:
            ok = got == exp_toks and err is not None
            kind = "split" if got != exp_toks else "missing-error"
        if not ok:
            viol("scan/" + kind, "%s: scan(%s) gave %r%s, maximal munch gives %r%s"
                        % (label, show(s), got, " then ValueError" if err else "", exp_toks,
                           {"end": "", "error": " then no match", "empty": " (then only the empty token matches)"}[status]),
                        dict(w, s=s, stage="scan"))
            break
    return prog


def quant_depth(a):
    if a[0] == "l":
        return 0
    d = max(quant_depth(x) for x in a[1:])
    return d + 1 if a[0] in "*+?" else d


def re_length_bound(ast, L):
    """CPython's backtracking matcher is exponential in the string length on deeply nested quantifiers (one 5-node expression
    needs minutes for the strings of length 5): with 3 nested quantifiers re judges the strings of length <= 5 only, with more
    than 3 those of length <= 2 (5 or more: <= 1); the
    longer ones are judged by the reference NFA, which has then agreed with re on every shorter string of this expression."""
    d = quant_depth(ast)
    return L if d <= 2 else (min(L, 5) if d == 3 else (2 if d == 4 else 1))


def check_ast(p, ast, L, Ls, modes=("min", "full", "api"), order=None):
    ss, parent, last = strings(L)
    tmin = render(ast, "min")
    nre = len(strings(re_length_bound(ast, L))[0])
    R = re_language(tmin, ss[:nre])
    nfa = RefNFA(ast)
    N = run_automaton(nfa, lambda i: nfa.acc[i], parent, last)
    if N[:nre] != R:
        p.count("unclassified_reference_nfa_disagrees_with_re")
        p.collect("unclassified_regexes", tmin)
        return
    lre = re_length_bound(ast, L)
    NP = [accepts(nfa, lambda i: nfa.acc[i], s) for s in PROBES]
    RP = [r if len(s) <= lre else n for s, r, n in zip(PROBES, re_language(tmin, [s if len(s) <= lre else "" for s in PROBES]), NP)]
    if RP != NP:
        p.count("unclassified_reference_nfa_disagrees_with_re")
        p.collect("unclassified_regexes", tmin)
        return
    p.count("strings_judged_by_re", nre + len(PROBES))
    if nre < len(ss):
        p.count("strings_judged_by_reference_nfa_only", len(ss) - nre)
        p.count("asts_with_shortened_re_bound")
    R = N
    tfull = render(ast, "full")
    if "full" in modes and re_language(tfull, ss[:nre]) != R[:nre]:
        p.count("unclassified_full_rendering_disagrees_with_re")
        p.collect("unclassified_regexes", tfull)
        modes = [m for m in modes if m != "full"]
    seen = []
    for mode in modes:
        p.count("presentations")
        check_case(p, ast, mode, tfull if mode == "full" else tmin, nfa, R, L, Ls, seen, order, RP)
    p.count("reference_dfa_states", len(nfa.sets))
    p.count("reference_dfa_transitions", sum(len(t) for t in nfa.tr))


def ast_worker(p, shard, L, Ls):
    for idx, n, i in shard:
        # the scanner is table driven; the largest ASTs of the thorough tier get the shorter scan inputs
        check_ast(p, asts_of_size(n)[i], L, Ls if n <= 5 else min(Ls, 4), order=idx)


# ---------------------------------------------------------------- (iv) make_scanner on pairs

def check_pair(p, a1, a2, Lv, order=None):
    from ppci.lang.tools import regex as rx
    from vf.core import cpu_limit, CpuTimeout, exc_key
    ss, parent, last = strings(Lv)

    def viol(key, what, wit):
        p.violation(key, what, wit, order=order)
    t1, t2 = render(a1, "min"), render(a2, "min")
    R1, R2 = re_language(t1, ss), re_language(t2, ss)
    w = {"kind": "vector", "pair": [to_list(a1), to_list(a2)]}
    label = "make_scanner({A: %s, B: %s})" % (show(t1), show(t2))
    try:
        with cpu_limit(60), derivative_budget(2 * WORK_BUDGET), contextlib.redirect_stdout(io.StringIO()):
            sc = rx.make_scanner({"A": t1, "B": t2})
    except (CpuTimeout, WorkLimit, RecursionError):
        p.add()
        viol("vector/diverges", "%s does not terminate" % label, w)
        return
    except Exception as ex:  # noqa
        p.add()
        key = None
        for a, t in ((a1, t1), (a2, t2)):
            key = key or parser_verdict(a, "min", t, RefNFA(a))
        viol(key or exc_key("compile", ex), "%s raised %s: %s" % (label, type(ex).__name__, etext(ex)), w)
        return
    idx = {t: i for i, t in enumerate(ss)}
    nullable = R1[0] or R2[0]

    def member(t):
        i = idx[t]
        return R1[i] or R2[i]
    for s in ss:
        p.add()
        exp_toks, status = ref_munch(s, member, nullable)
        got, err = [], None
        try:
            for t in itertools.islice(sc.scan(s), len(s) + 2 if status != "empty" else len(exp_toks)):
                got.append(t)
        except ValueError:
            err = "ValueError"
        except Exception as ex:  # noqa
            viol(exc_key("vector", ex), "%s.scan(%s) raised %s: %s" % (label, show(s), type(ex).__name__, etext(ex)), dict(w, s=s))
            return
        texts = [t[1] if isinstance(t, tuple) and len(t) == 2 else t for t in got]
        ok = texts == exp_toks and (status == "empty" or (err is not None) == (status == "error"))
        bad_name = None
        if ok:
            for name, txt in got:
                i = idx[txt]
                if not ((name == "A" and R1[i]) or (name == "B" and R2[i])):
                    bad_name = (name, txt)
                    ok = False
                    break
        if not ok:
            key = None
            for a, t in ((a1, t1), (a2, t2)):
                key = key or parser_verdict(a, "min", t, RefNFA(a))
            if key is None:
                key = "vector/name" if bad_name else "vector/split"
            viol(key, "%s.scan(%s) gave %r%s, maximal munch gives %r%s%s"
                        % (label, show(s), got, " then ValueError" if err else "", exp_toks,
                           {"end": "", "error": " then no match", "empty": " (then only the empty token matches)"}[status],
                           "; token %r does not match the expression named %s" % (bad_name[1], bad_name[0]) if bad_name else ""), dict(w, s=s))
            return
        if got:
            p.outcome(("vec", tuple(got)))


def pair_worker(p, shard, small, Lv):
    for i, j in shard:
        check_pair(p, small[i], small[j], Lv, order=10 ** 7 + (i + j) * 1000 + i)


# ---------------------------------------------------------------- locus-key reduction

REDUCED_PREFIXES = ("dfa/", "parser/wrong-ast/")


def split_feature_key(key):
    for pre in REDUCED_PREFIXES:
        if key.startswith(pre):
            rest = key[len(pre):].split("/")
            if len(rest) == 2:
                cons = frozenset(rest[0].split("+")) - {"leaf"}
                leaves = frozenset(rest[1].split("+"))
                return pre, cons, leaves
    return None


def reduce_keys(violations):
    """Keep, per stage, only the feature-minimal keys: a failing shape is dropped when a failing shape with a subset of its
    constructors exists whose leaves are a subset of its leaves or are plain symbols only (one defect -> one key)."""
    parsed = {k: split_feature_key(k) for k in violations}
    dropped = []
    for k, pk in parsed.items():
        if pk is None:
            continue
        for k2, pk2 in parsed.items():
            if k2 == k or pk2 is None or pk2[0] != pk[0]:
                continue
            if pk2[1] <= pk[1] and (pk2[2] <= pk[2] or pk2[2] == {"sym"}) and (pk2[1], pk2[2]) != (pk[1], pk[2]):
                dropped.append(k)
                break
    for k in dropped:
        del violations[k]
    return len(dropped)


# ---------------------------------------------------------------- entry points

def run(ctx):
    from ppci.lang.tools import regex as rx
    maxn = 5 if ctx.quick else 6
    L = 5 if ctx.quick else 6
    Ls = 4 if ctx.quick else 5
    items = []
    for n in range(1, maxn + 1):
        got = len(asts_of_size(n))
        if got != EXPECTED_COUNTS[n]:
            raise AssertionError("enumerator produced %d ASTs of size %d, expected %d" % (got, n, EXPECTED_COUNTS[n]))
        items += [(len(items) + i, n, i) for i in range(got)]
    ss = strings(L)[0]
    ctx.note("asts", len(items))
    ctx.note("ast_nodes_max", maxn)
    ctx.note("alphabet", ALPHA)
    ctx.note("strings_per_regex", len(ss))
    ctx.note("string_length_max", L)
    ctx.note("scan_string_length_max", Ls)
    ex = ("c", ("o", ("l", 0), ("l", 1)), ("*", ("l", 4)))
    ctx.sample({"ast": to_list(ex), "min": render(ex, "min"), "full": render(ex, "full"), "dfa_states": len(rx.compile(build_api(ex))[0])})
    ex = ("o", ("c", ("l", 0), ("l", 1)), ("?", ("l", 5)))
    ctx.sample({"ast": to_list(ex), "min": render(ex, "min"), "full": render(ex, "full"),
                "accepted_by_re": [s for s, r in zip(strings(3)[0], re_language(render(ex, "min"), strings(3)[0])) if r]})
    ex = ("+", ("c", ("l", 6), ("l", 2)))
    ctx.sample({"ast": to_list(ex), "min": render(ex, "min"), "full": render(ex, "full")})
    strings(L)
    # large ASTs first inside each shard would unbalance; interleaving by pmap balances sizes
    ctx.pmap(ast_worker, items, extra=(L, Ls))
    small = [a for n in range(1, (2 if ctx.quick else 3) + 1) for a in asts_of_size(n)]
    Lv = 4
    strings(Lv)
    pairs = [(i, j) for i in range(len(small)) for j in range(len(small))]
    ctx.note("scanner_vector_pairs", len(pairs))
    ctx.pmap(pair_worker, pairs, extra=(small, Lv))
    ctx.states = ctx.counters.get("product_states", 0)
    ctx.transitions = ctx.counters.get("product_transitions", 0)
    if not ctx.transitions:
        # every table lookup failed (there are violations saying so): report the reference side of the exploration
        ctx.states = ctx.counters.get("reference_dfa_states", 0)
        ctx.transitions = ctx.counters.get("reference_dfa_transitions", 0)
        ctx.note("states_note", "no product transition could be taken on the compiled tables; states/transitions count the reference automaton")
    ctx.traces = ctx.counters.get("strings_run_on_tables", 0)
    n = reduce_keys(ctx.violations)
    if n:
        ctx.note("violation_keys_subsumed_by_a_simpler_failing_shape", n)


def replay(w):
    from vf.core import Partial
    p = Partial()
    if w["kind"] == "vector":
        a1, a2 = (to_tuple(x) for x in w["pair"])
        check_pair(p, a1, a2, max(4, len(w.get("s", ""))))
    else:
        ast = to_tuple(w["ast"])
        s = w.get("s", "")
        inalpha = all(c in ALPHA for c in s)
        L = max(5, len(s)) if inalpha else 5
        check_ast(p, ast, min(L, 7), min(max(4, len(s)) if inalpha else 4, 6), modes=(w["mode"],))
    if p.violations:
        k = sorted(p.violations)[0]
        return True, k + ": " + p.violations[k][1]
    return False, "DFA, product automaton and scanner agree with the reference"
