"""C20 - LEB128 encoders/decoders vs the specification and vs LLVM's assembler."""
import os
import subprocess
import tempfile

ID = "C20"
LEVEL = "exploration"
RULE = ("every integer in [-2^16, 2^16] plus 2^(7k)+d, -2^(7k)+d (|d|<=2) and 2^(7k-1)+d (|d|<=1) for k<=19 (to 2^133); "
        "each value is one case per codec direction; distinct non-trivial = distinct (signedness, encoded byte string) of length >= 2")
ASSUMPTIONS = [
    "reference (a): encoder/decoder transcribed from the DWARF 5 pseudo-code (section 7.6 / appendix C) in /verif",
    "reference (b): llvm-mc 14 assembling .uleb128/.sleb128 directives for values that fit 64 bits",
    "values above 2^133 are not explored",
]


def ref_uleb(v):
    assert v >= 0
    out = bytearray()
    while True:
        b = v & 0x7F
        v >>= 7
        if v != 0:
            b |= 0x80
        out.append(b)
        if v == 0:
            return bytes(out)


def ref_sleb(v):
    out = bytearray()
    more = True
    while more:
        b = v & 0x7F
        v >>= 7
        if (v == 0 and not (b & 0x40)) or (v == -1 and (b & 0x40)):
            more = False
        else:
            b |= 0x80
        out.append(b)
    return bytes(out)


def ref_udec(bs):
    r = 0
    for i, b in enumerate(bs):
        r |= (b & 0x7F) << (7 * i)
    return r


def ref_sdec(bs):
    r = ref_udec(bs)
    if bs[-1] & 0x40:
        r -= 1 << (7 * len(bs))
    return r


def values(tier, seed):
    vs = list(range(-(1 << 16), (1 << 16) + 1))
    extra = set()
    for k in range(1, 20):
        for d in (-2, -1, 0, 1, 2):
            extra.add((1 << (7 * k)) + d)
            extra.add(-(1 << (7 * k)) + d)
        for d in (-1, 0, 1):
            extra.add((1 << (7 * k - 1)) + d)
            extra.add(-(1 << (7 * k - 1)) + d)
    if tier == "thorough":
        # a second complete window further out, selected by the seed slice
        base = 1 << (20 + (seed % 8))
        extra.update(range(base - 4096, base + 4096))
        extra.update(range(-base - 4096, -base + 4096))
    vs.extend(sorted(extra - set(vs), key=lambda x: (abs(x), x)))
    return vs


def check_value(p, v):
    from ppci.utils import leb128
    # signed
    p.add()
    try:
        e = leb128.signed_leb128_encode(v)
    except Exception as ex:  # noqa
        p.violation("sleb-encode/raises/" + type(ex).__name__, "signed encoder raised on %d" % v, {"v": str(v), "what": "senc"})
        e = None
    if e is not None:
        if len(e) > 1:
            p.outcome(("s", e))
        if e != ref_sleb(v):
            cls = "short" if len(e) < len(ref_sleb(v)) else ("long" if len(e) > len(ref_sleb(v)) else "bytes")
            p.violation("sleb-encode/" + cls + ("/neg" if v < 0 else "/pos"),
                        "signed_leb128_encode(%d) = %s, specification gives %s" % (v, e.hex(), ref_sleb(v).hex()),
                        {"v": str(v), "what": "senc"})
        try:
            d = leb128.signed_leb128_decode(iter(ref_sleb(v)))
        except Exception as ex:  # noqa
            d = "raise " + type(ex).__name__
        if d != v:
            p.violation("sleb-decode" + ("/neg" if v < 0 else "/pos"), "signed_leb128_decode(%s) = %r, expected %d" % (ref_sleb(v).hex(), d, v),
                        {"v": str(v), "what": "sdec"})
    # unsigned
    p.add()
    if v < 0:
        try:
            e = leb128.unsigned_leb128_encode(v)
            p.violation("uleb-encode/accepts-negative", "unsigned_leb128_encode(%d) returned %s instead of raising" % (v, e.hex()),
                        {"v": str(v), "what": "uenc"})
        except (ValueError, TypeError, OverflowError):
            pass
        except Exception as ex:  # noqa
            p.violation("uleb-encode/negative-internal/" + type(ex).__name__, "unsigned encoder raised %r on %d" % (ex, v), {"v": str(v), "what": "uenc"})
    else:
        try:
            e = leb128.unsigned_leb128_encode(v)
        except Exception as ex:  # noqa
            p.violation("uleb-encode/raises/" + type(ex).__name__, "unsigned encoder raised on %d" % v, {"v": str(v), "what": "uenc"})
            return
        if len(e) > 1:
            p.outcome(("u", e))
        if e != ref_uleb(v):
            p.violation("uleb-encode/bytes", "unsigned_leb128_encode(%d) = %s, specification gives %s" % (v, e.hex(), ref_uleb(v).hex()),
                        {"v": str(v), "what": "uenc"})
        try:
            d = leb128.unsigned_leb128_decode(iter(ref_uleb(v)))
        except Exception as ex:  # noqa
            d = "raise " + type(ex).__name__
        if d != v:
            p.violation("uleb-decode", "unsigned_leb128_decode(%s) = %r, expected %d" % (ref_uleb(v).hex(), d, v), {"v": str(v), "what": "udec"})


def worker(p, shard):
    for v in shard:
        check_value(p, v)


def llvm_reference(vals):
    """Assemble the values with llvm-mc and split the section bytes back."""
    u = [v for v in vals if 0 <= v < (1 << 64)]
    s = [v for v in vals if -(1 << 63) <= v < (1 << 63)]
    lines = [".text"]
    lines += [".uleb128 %d" % v for v in u]
    lines += [".sleb128 %d" % v for v in s]
    from vf.core import scratch
    with scratch("C20") as d:
        src = os.path.join(d, "leb.s")
        open(src, "w").write("\n".join(lines) + "\n")
        obj = os.path.join(d, "leb.o")
        subprocess.run(["llvm-mc", "-triple=x86_64", "-filetype=obj", "-o", obj, src], check=True)
        binf = os.path.join(d, "leb.bin")
        subprocess.run(["llvm-objcopy", "-O", "binary", "--only-section=.text", obj, binf], check=True)
        data = open(binf, "rb").read()
    out = []
    pos = 0
    for _ in range(len(u) + len(s)):
        start = pos
        while data[pos] & 0x80:
            pos += 1
        pos += 1
        out.append(data[start:pos])
    assert pos == len(data), (pos, len(data))
    return u, out[:len(u)], s, out[len(u):]


def run(ctx):
    from ppci.utils import leb128
    vals = values(ctx.tier, ctx.seed)
    ctx.note("n_values", len(vals))
    ctx.sample({"value": -1337, "signed": leb128.signed_leb128_encode(-1337).hex()})
    ctx.sample({"value": str(vals[-1]), "signed_ref": ref_sleb(vals[-1]).hex()})
    ctx.pmap(worker, vals)
    # minimality of the reference itself (so that "equals reference" means "minimal"):
    for v in vals[::97]:
        e = ref_sleb(v)
        assert ref_sdec(e) == v
        if len(e) > 1:
            # dropping the last byte must not decode to v any more
            assert ref_sdec(bytes(e[:-2] + bytes([e[-2] & 0x7F]))) != v
    # LLVM as a second, independent encoder
    u, ue, s, se = llvm_reference(vals)
    for v, e in zip(u, ue):
        ctx.add()
        got = leb128.unsigned_leb128_encode(v)
        if got != e:
            ctx.violation("uleb-encode/vs-llvm", "unsigned_leb128_encode(%d) = %s, llvm-mc gives %s" % (v, got.hex(), e.hex()), {"v": str(v), "what": "uenc"})
        if leb128.unsigned_leb128_decode(iter(e)) != v:
            ctx.violation("uleb-decode/vs-llvm", "decode of llvm bytes %s != %d" % (e.hex(), v), {"v": str(v), "what": "udec"})
    for v, e in zip(s, se):
        ctx.add()
        got = leb128.signed_leb128_encode(v)
        if got != e:
            ctx.violation("sleb-encode/vs-llvm", "signed_leb128_encode(%d) = %s, llvm-mc gives %s" % (v, got.hex(), e.hex()), {"v": str(v), "what": "senc"})
        if leb128.signed_leb128_decode(iter(e)) != v:
            ctx.violation("sleb-decode/vs-llvm", "decode of llvm bytes %s != %d" % (e.hex(), v), {"v": str(v), "what": "sdec"})
    ctx.note("llvm_checked", len(u) + len(s))


def replay(w):
    from vf.core import Partial
    p = Partial()
    check_value(p, int(w["v"]))
    if p.violations:
        k = sorted(p.violations)[0]
        return True, p.violations[k][1]
    return False, "value %s encodes/decodes per specification" % w["v"]
