"""C04 - x86-64 native code vs gcc: C function families x optimisation levels x both link paths, executed on the host CPU."""
import io
import os
import subprocess

ID = "C04"
LEVEL = "exploration"
RULE = ("C function families of vf/gen/cgen.py (E1 all binary operators over a 6-type alphabet, E2 unary/casts, E3 compound assignment, "
        "S statement skeletons and corpus, A aggregates, F floating point) x optimisation level {0,1,2,s} x link path {(a) ppci linker -> "
        "static ELF executable with a ppci-compiled runtime, (b) ppci relocatable ELF objects + gcc-compiled driver linked by the system "
        "linker}; every function runs natively on the full product of V7 boundary arguments (cap 49); oracle: the same functions compiled "
        "by gcc -O0 -fsanitize=undefined (trap mode), UB calls discarded; distinct non-trivial = distinct (family feature, value)")
ASSUMPTIONS = ["gcc 12.2 -O0 with UBSan traps is the oracle; calls with undefined behaviour are discarded before the ppci-built program is judged",
               "path (a) runs only the calls the oracle classified as defined (no signal handling in the freestanding runtime); its runtime "
               "(decimal/hex printers, ext/extl, write/exit syscalls) is itself compiled by ppci and is part of what is tested",
               "functions ppci rejects with a diagnostic or fails to compile are counted, not judged here (C28/C29)",
               "in path (b) the per-case save/restore/dump helpers for globals are compiled by ppci (plain byte loops)"]
CLAIM = {"technique": "bounded exhaustive enumeration of C functions x argument vectors x {optimisation level, link path}, executed natively, against gcc+UBSan",
         "engine": "K1 input enumeration vs gcc, native execution"}

LEVELS = ["0", "1", "2", "s"]

GLUE = """
section code
global start
global main
global vf_write
start:
    call main
    mov rdi, rax
    mov rax, 60
    syscall
vf_write:
    mov rdx, rsi
    mov rsi, rdi
    mov rdi, 1
    mov rax, 1
    syscall
    ret
"""

RUNTIME_C = r"""
void vf_write(char *buf, long len);
long vf_trace[64]; int vf_ntrace;
int ext(int x){ if(vf_ntrace<64){ vf_trace[vf_ntrace]=x; vf_ntrace++; } return (int)(3u*(unsigned)x+1u); }
long long extl(long long x){ if(vf_ntrace<64){ vf_trace[vf_ntrace]=x; vf_ntrace++; } return (long long)(3ul*(unsigned long)x+1ul); }
void vf_puts(char *s){ long n=0; while(s[n]) n++; vf_write(s,n); }
void vf_putu(unsigned long v){ char t[24]; int i=23; t[23]=0; if(v==0){ i--; t[i]='0'; } while(v){ i--; t[i]=(char)('0'+(int)(v%10ul)); v=v/10ul; } vf_puts(&t[i]); }
void vf_puti(long v){ if(v<0){ vf_puts("-"); vf_putu(0ul-(unsigned long)v); } else { vf_putu((unsigned long)v); } }
void vf_hexn(unsigned long v){ char t[20]; int i=19; t[19]=0; if(v==0){ i--; t[i]='0'; } while(v){ int d=(int)(v&15ul); i--; t[i]=(char)(d<10?'0'+d:'a'+d-10); v=v>>4; } vf_puts(&t[i]); }
void vf_hex(unsigned char *p, unsigned long n){ unsigned long i; for(i=0;i<n;i++){ int d=p[i]>>4; char c[3]; c[0]=(char)(d<10?'0'+d:'a'+d-10); d=p[i]&15; c[1]=(char)(d<10?'0'+d:'a'+d-10); c[2]=0; vf_puts(c); } }
void vf_tr(void){ int i; for(i=0;i<vf_ntrace;i++){ vf_puts(" "); vf_puti(vf_trace[i]); } }
"""

LAYOUT = """
ENTRY(start)
MEMORY code LOCATION=0x400000 SIZE=0x400000 { SECTION(code) }
MEMORY ram LOCATION=0x1000000 SIZE=0x400000 { SECTION(data) }
"""


def helpers_src(case, suf):
    """save/restore/dump helpers for the case's globals, compiled together with the case by ppci (path b) or inlined (path a)."""
    gl = [g.replace("@", suf) for g in case.get("globals", [])]
    rl = gl + [g.replace("@", suf) for g in case.get("restore", [])]
    out = []
    for g in rl:
        out.append("unsigned char vf_sh_%s[sizeof(%s)];" % (g, g))
    save = "".join(" { unsigned char *s=(unsigned char*)&%s; unsigned long i; for(i=0;i<sizeof(%s);i++) vf_sh_%s[i]=s[i]; }" % (g, g, g) for g in rl)
    rest = "".join(" { unsigned char *s=(unsigned char*)&%s; unsigned long i; for(i=0;i<sizeof(%s);i++) s[i]=vf_sh_%s[i]; }" % (g, g, g) for g in rl)
    out.append("void vf_save%s(void){%s }" % (suf, save))
    out.append("void vf_restore%s(void){%s }" % (suf, rest))
    return "\n".join(out), gl


def ret_print(ret, call, k, mode):
    """C statement printing 'R k vi value' using printf (mode 'b') or the ppci runtime (mode 'a')."""
    from vf.oracles.gccrun import is_float, is_unsigned
    if mode == "b":
        if ret == "void":
            return '%s; printf("R %d %%d V", vi);' % (call, k)
        if is_float(ret):
            return '{ double r=(double)%s; unsigned long long b; memcpy(&b,&r,8); printf("R %d %%d F%%llx", vi, b); }' % (call, k)
        if is_unsigned(ret):
            return '{ unsigned long long r=(unsigned long long)%s; printf("R %d %%d %%llu", vi, r); }' % (call, k)
        return '{ long long r=(long long)%s; printf("R %d %%d %%lld", vi, r); }' % (call, k)
    head = 'vf_puts("R %d "); vf_puti(vi); vf_puts(" ");' % k
    if ret == "void":
        return '%s; %s vf_puts("V");' % (call, head)
    if is_float(ret):
        return '{ double r=(double)%s; unsigned long *bp=(unsigned long*)&r; %s vf_puts("F"); vf_hexn(*bp); }' % (call, head)
    if is_unsigned(ret):
        return '{ unsigned long r=(unsigned long)%s; %s vf_putu(r); }' % (call, head)
    return '{ long r=(long)%s; %s vf_puti(r); }' % (call, head)


def driver_b(cases, idxs):
    """gcc-compiled driver for path (b): functions and helpers are external (ppci objects)."""
    from vf.oracles import gccrun
    parts = [gccrun.PRELUDE]
    main = ["int main(void){", " signal(SIGFPE, vf_fpe); signal(SIGSEGV, vf_fpe); signal(SIGBUS, vf_fpe); signal(SIGILL, vf_fpe); signal(SIGTRAP, vf_fpe);"]
    for k in idxs:
        c = cases[k]
        suf = "_%d" % k
        fname = c["fname"].replace("@", suf)
        params = c["params"]
        gl = [g.replace("@", suf) for g in c.get("globals", [])]
        sig = ", ".join("%s a%d" % (t, i) for i, t in enumerate(params))
        if c.get("split"):
            parts.append((c["split"]["pre"] + "\n" + c["split"]["host"]).replace("@", suf))
        parts.append("extern %s %s(%s); extern void vf_save%s(void); extern void vf_restore%s(void); extern unsigned long vf_dump%s(unsigned char*);" % (
            c["ret"], fname, sig or "void", suf, suf, suf))
        args = ", ".join("a%d" % i for i in range(len(params)))
        dump = ' { unsigned char buf[600]; unsigned long n = vf_dump%s(buf); fwrite(buf, 1, n, stdout); }' % suf if gl else ""
        parts.append("static void vf_one_%d(int vi%s%s){ vf_ntrace=0; vf_restore%s(); printf(\"B %d %%d\\n\", vi); fflush(stdout); if(!sigsetjmp(vf_jb,1)){ %s%s printf(\" T\"); vf_tr(); printf(\"\\n\"); } else printf(\"X %d %%d\\n\", vi); fflush(stdout); }"
                     % (k, ", " if sig else "", sig, suf, k, ret_print(c["ret"], "%s(%s)" % (fname, args), k, "b"), dump, k))
        calls = []
        for vi, vec in enumerate(c["vectors"]):
            a = ", ".join(gccrun.literal(t, v) for t, v in zip(params, vec))
            calls.append(" vf_one_%d(%d%s%s);" % (k, vi, ", " if a else "", a))
        parts.append("static void vf_case_%d(void){ vf_save%s();\n%s\n}" % (k, suf, "\n".join(calls)))
        main.append(" vf_case_%d();" % k)
    main.append(" return 0; }")
    return "\n".join(parts) + "\n" + "\n".join(main) + "\n"


def dump_helper(case, suf, mode):
    """vf_dump: writes ' name=hex' for every compared global into a buffer (path b) or prints it (path a)."""
    gl = [g.replace("@", suf) for g in case.get("globals", [])]
    if mode == "a":
        return "".join(' vf_puts(" %s="); vf_hex((unsigned char*)&%s, sizeof(%s));' % (g, g, g) for g in gl)
    body = ["unsigned long vf_dump%s(unsigned char *o){ unsigned long n=0; char *hx=\"0123456789abcdef\";" % suf]
    for g in gl:
        name = " %s=" % g
        for ch in name:
            body.append(" o[n]=%d; n++;" % ord(ch))
        body.append(" { unsigned char *s=(unsigned char*)&%s; unsigned long i; for(i=0;i<sizeof(%s);i++){ o[n]=(unsigned char)hx[s[i]>>4]; n++; o[n]=(unsigned char)hx[s[i]&15]; n++; } }" % (g, g))
    body.append(" return n; }")
    return "".join(body)


def compile_case(case, suf, level, mode):
    """-> ObjectFile | ('rejected'|'internal', info)"""
    from ppci.api import cc
    from ppci.common import CompilerError
    from vf.core import cpu_limit, CpuTimeout
    h, gl = helpers_src(case, suf)
    src = case["src"].replace("@", suf) + "\n" + h + "\n"
    if mode == "b" and case.get("split"):
        # calls across the ABI boundary: ppci compiles only its half, the gcc-compiled driver carries the other half
        sp = case["split"]
        src = (sp["pre"] + "\n" + sp["ppci"]).replace("@", suf) + "\n" + h + "\n"
    if mode == "b":
        src += dump_helper(case, suf, "b") + "\n"
    try:
        with cpu_limit(30):
            return cc(io.StringIO(src), "x86_64", opt_level=level)
    except CompilerError as e:
        return ("rejected", str(e)[:120])
    except CpuTimeout:
        return ("internal", "cpu timeout")
    except Exception as e:  # noqa
        return ("internal", "%s: %s" % (type(e).__name__, str(e)[:100]))


def run_path_b(cases, idxs, level, d, tag):
    """-> (text output | None, {k: compile failure})"""
    from ppci.format.elf import write_elf
    failed = {}
    objs = []
    good = []
    for k in idxs:
        o = compile_case(cases[k], "_%d" % k, level, "b")
        if isinstance(o, tuple):
            failed[k] = o
            continue
        path = os.path.join(d, "%s_%d.o" % (tag, k))
        try:
            with open(path, "wb") as f:
                write_elf(o, f, type="relocatable")
        except Exception as e:  # noqa
            failed[k] = ("internal", "write_elf: %s: %s" % (type(e).__name__, str(e)[:80]))
            continue
        objs.append(path)
        good.append(k)
    if not good:
        return "", failed, good
    drv = os.path.join(d, "%s_drv.c" % tag)
    exe = os.path.join(d, "%s_b.exe" % tag)
    open(drv, "w").write(driver_b(cases, good))
    r = subprocess.run(["gcc", "-O0", "-w", "-no-pie", "-o", exe, drv] + objs, capture_output=True, text=True)
    if r.returncode != 0:
        return None, dict(failed, link=("link", r.stderr[-300:])), good
    try:
        r = subprocess.run([exe], stdout=subprocess.PIPE, stderr=subprocess.STDOUT, timeout=120)
        out = r.stdout.decode("latin-1")
    except subprocess.TimeoutExpired as e:
        # the functions after the one that does not return produce no result line; judge() reports them as such
        out = (e.stdout or b"").decode("latin-1") + "\nTIMEOUT\n"
    for p in objs + [drv, exe]:
        try:
            os.unlink(p)
        except OSError:
            pass
    return out, failed, good


def driver_a(cases, idxs, oracle):
    """ppci-compiled main for path (a): only the calls the oracle says are defined."""
    from vf.oracles import gccrun
    parts = [RUNTIME_C]
    main = ["int main(void){"]
    for k in idxs:
        c = cases[k]
        suf = "_%d" % k
        fname = c["fname"].replace("@", suf)
        params = c["params"]
        sig = ", ".join("%s a%d" % (t, i) for i, t in enumerate(params))
        args = ", ".join("a%d" % i for i in range(len(params)))
        h, gl = helpers_src(c, suf)
        parts.append(c["src"].replace("@", suf))
        parts.append(h)
        parts.append("void vf_one_%d(int vi%s%s){ vf_ntrace=0; vf_restore%s(); vf_puts(\"B %d \"); vf_puti(vi); vf_puts(\"\\n\"); %s%s vf_puts(\" T\"); vf_tr(); vf_puts(\"\\n\"); }"
                     % (k, ", " if sig else "", sig, suf, k, ret_print(c["ret"], "%s(%s)" % (fname, args), k, "a"), dump_helper(c, suf, "a")))
        calls = [" vf_save%s();" % suf]
        for vi, vec in enumerate(c["vectors"]):
            o = oracle[k].get(vi) if oracle[k] else None
            if not o or o[0] != "ok":
                continue
            a = ", ".join(gccrun.literal(t, v).replace("ULL", "ul").replace("LL", "l") for t, v in zip(params, vec))
            calls.append(" vf_one_%d(%d%s%s);" % (k, vi, ", " if a else "", a))
        parts.append("void vf_case_%d(void){\n%s\n}" % (k, "\n".join(calls)))
        main.append(" vf_case_%d();" % k)
    main.append(" return 0; }")
    return parts, "\n".join(main) + "\n"


def died_in(text):
    """Path (a) has no signal handling: when the program dies, the case whose call was running is the one after the last 'B k vi' line."""
    if "\nEXIT " not in text and "TIMEOUT" not in text:
        return None
    last = None
    for line in text.splitlines():
        if line.startswith("B "):
            try:
                last = int(line.split()[1])
            except (ValueError, IndexError):
                pass
        elif line.startswith("R ") and last is not None and line.split()[1:2] == [str(last)]:
            pass
    return last


def run_path_a(cases, idxs, level, oracle, d, tag, cache=None):
    """Each case (+ its driver functions) is its own translation unit compiled by ppci; ppci links; the ELF runs natively."""
    from ppci.api import cc, asm, link
    from ppci.common import CompilerError
    from ppci.format.elf import write_elf
    from vf.core import cpu_limit, CpuTimeout
    from vf.oracles import gccrun
    failed = {}
    objs = []
    good = []
    protos = []
    for k in idxs:
        c = cases[k]
        suf = "_%d" % k
        if cache is not None and k in cache:
            objs.append(cache[k])
            good.append(k)
            protos.append("void vf_case_%d(void);" % k)
            continue
        parts, _ = driver_a(cases, [k], oracle)
        src = "void vf_puts(char*); void vf_putu(unsigned long); void vf_puti(long); void vf_hexn(unsigned long); void vf_hex(unsigned char*, unsigned long); void vf_tr(void); extern int vf_ntrace; int ext(int); long long extl(long long);\n" + "\n".join(parts[1:])
        try:
            with cpu_limit(30):
                o = cc(io.StringIO(src), "x86_64", opt_level=level)
        except CompilerError as e:
            failed[k] = ("rejected", str(e)[:120])
            continue
        except CpuTimeout:
            failed[k] = ("internal", "cpu timeout")
            continue
        except Exception as e:  # noqa
            failed[k] = ("internal", "%s: %s" % (type(e).__name__, str(e)[:100]))
            continue
        objs.append(o)
        if cache is not None:
            cache[k] = o
        good.append(k)
        protos.append("void vf_case_%d(void);" % k)
    if not good:
        return "", failed, good
    main_src = "\n".join(protos) + "\nint main(void){\n" + "\n".join(" vf_case_%d();" % k for k in good) + "\n return 0; }\n"
    try:
        rt = cc(io.StringIO(RUNTIME_C), "x86_64", opt_level=level)
        mo = cc(io.StringIO(main_src), "x86_64", opt_level=level)
        glue = asm(io.StringIO(GLUE), "x86_64")
        exe_obj = link([glue, rt, mo] + objs, layout=io.StringIO(LAYOUT))
        exe = os.path.join(d, "%s_a.exe" % tag)
        with open(exe, "wb") as f:
            write_elf(exe_obj, f, type="executable")
        os.chmod(exe, 0o755)
    except Exception as e:  # noqa
        return None, dict(failed, link=("link", "%s: %s" % (type(e).__name__, str(e)[:200]))), good
    try:
        r = subprocess.run([exe], stdout=subprocess.PIPE, stderr=subprocess.STDOUT, timeout=120)
        out = r.stdout.decode("latin-1")
        if r.returncode != 0:
            out += "\nEXIT %d\n" % r.returncode
    except subprocess.TimeoutExpired as e:
        out = (e.stdout or b"").decode("latin-1") + "\nTIMEOUT\n"
    try:
        os.unlink(exe)
    except OSError:
        pass
    return out, failed, good


def judge(p, cases, good, oracle, text, path, level):
    from vf.oracles import gccrun
    from vf.checks.c01 import same, generalise
    res = gccrun.parse_output(text, cases)
    for k in good:
        c = cases[k]
        orc = oracle[k]
        if orc is None:
            p.count("gcc_rejects")
            continue
        got = res.get(k, {})
        for vi, o in sorted(orc.items()):
            p.add()
            if o[0] != "ok":
                p.count("discarded_ub")
                continue
            g = got.get(vi)
            vec = c["vectors"][vi]
            wit = {"case": {kk: c[kk] for kk in ("src", "fname", "ret", "params", "globals", "restore", "fam", "feat", "strict", "locus", "split") if kk in c},
                   "vector": vec, "level": level, "path": path}
            feat = c["fam"] + "/" + generalise(c)
            if g is None:
                p.violation("x86_64/%s/no-result" % feat, "%s opt=%s path=%s: call f%r produced no result line (program died earlier or output truncated); gcc gives %r" % (c["feat"], level, path, tuple(vec), o[1]), wit)
                break
            if g[0] != "ok":
                p.violation("x86_64/%s/crash" % feat, "%s opt=%s path=%s: call f%r crashed (%s); gcc gives %r" % (c["feat"], level, path, tuple(vec), g[1], o[1]), wit)
                continue
            if not same(g[1], o[1]):
                p.violation("x86_64/%s/result" % feat, "%s opt=%s path=%s: f%r = %r natively, gcc gives %r" % (c["feat"], level, path, tuple(vec), g[1], o[1]), wit)
            elif g[2] != o[2]:
                p.violation("x86_64/%s/memory" % feat, "%s opt=%s path=%s: f%r leaves globals %r, gcc %r" % (c["feat"], level, path, tuple(vec), g[2], o[2]), wit)
            elif list(g[3]) != list(o[3]):
                p.violation("x86_64/%s/calls" % feat, "%s opt=%s path=%s: f%r calls ext with %r, gcc %r" % (c["feat"], level, path, tuple(vec), g[3], o[3]), wit)
            else:
                p.outcome((c["fam"], c["feat"].split("/")[0], repr(o[1])))


def families(tier, seed):
    from vf.gen import cgen
    out = []
    out += list(cgen.s_corpus())
    out += list(cgen.s_templates(depth2=(tier != "quick")))
    out += list(cgen.aggregates(extra=False))
    out += list(cgen.floats())
    if tier == "quick":
        out += [c for i, c in enumerate(cgen.e1(types=cgen.SIX)) if i % 5 == seed % 5]
        out += [c for i, c in enumerate(cgen.e2()) if i % 8 == seed % 8]
        out += [c for i, c in enumerate(cgen.e3(types=cgen.SIX)) if i % 8 == seed % 8]
        out += extended_families(tier, seed)
    else:
        out += list(cgen.e1())
        out += list(cgen.e2())
        out += list(cgen.e3())
        out += extended_families(tier, seed)
    return out


def extended_families(tier, seed):
    """The extended cgen families (initialisers, character/string constants, compound literals, variadics, sizeof/offsetof, statements,
    structures by value, pointers, declarations) and the cross-ABI family.  quick: a seed-rotated residue class of the large families."""
    from vf.gen import cgen
    if tier != "quick":
        return list(cgen.extended())
    out = []

    def sl(gen, m):
        return [c for i, c in enumerate(gen) if i % m == seed % m]
    for st in cgen.STORAGES:
        out += sl(cgen.init_family(st), 16)
    out += sl(cgen.chars_strings(), 8)
    out += list(cgen.compound_literals())
    out += sl(cgen.variadics(), 8)
    out += sl(cgen.sizes_offsets(), 12)
    out += [c for c in cgen.statements() if c["feat"] != "switch-case-range-wide"]  # ppci expands the range label by label (C28 reports the time-out)
    out += sl(cgen.struct_values(), 10)
    out += sl(cgen.pointers(), 2)
    out += sl(cgen.declarations(), 2)
    # cgen.cross_abi() (structures by value and variadic calls ACROSS the gcc/ppci boundary) is not run: ppci passes structures and variadic
    # arguments by its own convention, and neither C04 ("supported subset") nor C40 (integer, pointer and floating-point parameters) states
    # that these interoperate with SysV code.  Within one ppci-compiled program they are covered by the families above.
    return out


def worker(p, shard, tier):
    from vf.core import scratch
    from vf.oracles import gccrun
    cases = [c for _, c in shard]
    tagbase = "w%d" % os.getpid()
    with scratch("C04") as d:
        oracle = gccrun.run_cases_policy(cases, d, batch=120, tag=tagbase + "o")
        idxs = [k for k in range(len(cases)) if oracle[k] is not None]
        p.count("gcc_rejected_functions", len(cases) - len(idxs))
        for li, level in enumerate(LEVELS):
            for path in ("b", "a"):
                if tier == "quick":
                    # quick: every function at level 0 and at one rotating level of {1,2,s}, on both link paths
                    remaining = [k for k in idxs if level == "0" or LEVELS[1 + (shard[k][0] % 3)] == level]
                else:
                    remaining = list(idxs)
                if tier == "quick" and path == "a" and level == "0":
                    # quick: the extended families run on path (a) at their rotating level only
                    remaining = [k for k in remaining if not cases[k].get("strict")]
                if path == "a":
                    # the cross-ABI family only differs from SV / VA where gcc compiles one half: path (b)
                    remaining = [k for k in remaining if not cases[k].get("split")]
                if not remaining:
                    continue
                cache = {}
                for attempt in range(40):
                    if path == "b":
                        text, failed, good = run_path_b(cases, remaining, level, d, "%s_%s%s" % (tagbase, level, attempt))
                    else:
                        text, failed, good = run_path_a(cases, remaining, level, oracle, d, "%s_%s%s" % (tagbase, level, attempt), cache)
                    for k, f in failed.items():
                        if k == "link":
                            continue
                        p.count("ppci_" + f[0])
                        if f[0] == "internal":
                            p.collect("ppci_internal_errors", f[1][:60])
                    if text is None:
                        wit = {"level": level, "path": path, "cases": [cases[k]["feat"] for k in good][:5]}
                        p.violation("x86_64/link-%s/failed" % path, "linking a batch for path %s at opt=%s failed: %s" % (path, level, failed.get("link", ("", ""))[1]), wit)
                        break
                    culprit = died_in(text) if path == "a" else None
                    if culprit is not None and culprit in good and good.index(culprit) + 1 < len(good):
                        # the program died inside one case: judge the cases up to it, run the rest again without it
                        i = good.index(culprit)
                        judge(p, cases, good[:i + 1], oracle, text, path, level)
                        remaining = good[i + 1:]
                        p.count("path_a_restarts_after_a_crash")
                        continue
                    judge(p, cases, good, oracle, text, path, level)
                    break
                else:
                    p.count("path_a_restart_cap_hit")


def run(ctx):
    cases = families(ctx.tier, ctx.seed)
    ctx.note("functions", len(cases))
    fam = {}
    for c in cases:
        fam[c["fam"]] = fam.get(c["fam"], 0) + 1
    ctx.note("families", fam)
    ctx.note("levels", LEVELS)
    ctx.note("link_paths", ["a: ppci linker + ELF executable", "b: ppci relocatable ELF + gcc driver + system linker"])
    ctx.sample({"src": cases[0]["src"], "vectors": cases[0]["vectors"][:2], "level": "2", "path": "a"})
    ctx.sample({"src": cases[-1]["src"], "vectors": cases[-1]["vectors"][:2], "level": "s", "path": "b"})
    ctx.pmap(worker, list(enumerate(cases)), extra=(ctx.tier,), nshards=48)


def replay(w):
    from vf.core import Partial, scratch
    from vf.oracles import gccrun
    p = Partial()
    if "case" not in w:
        return False, "batch link failures are replayed by re-running the check"
    case = dict(w["case"])
    case["vectors"] = [w["vector"]]
    with scratch("C04r") as d:
        oracle = gccrun.run_cases_policy([case], d)
        if oracle[0] is None:
            return False, "gcc rejects"
        if w["path"] == "b":
            text, failed, good = run_path_b([case], [0], w["level"], d, "r")
        else:
            text, failed, good = run_path_a([case], [0], w["level"], oracle, d, "r")
        if text is None:
            return True, "link failed: %r" % (failed,)
        judge(p, [case], good, oracle, text, w["path"], w["level"])
    if p.violations:
        k = sorted(p.violations)[0]
        return True, p.violations[k][1]
    return False, "native run agrees with gcc (or call discarded / function not compiled: %r)" % (failed,)
