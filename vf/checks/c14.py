"""C14 - object files and archives survive save and load (K2: action save->load, applied twice; link after reload)."""
import io
import itertools

ID = "C14"
LEVEL = "model_checking"
RULE = ("states = object files: objgen field sweeps (names, data sizes around the 30-byte text-form switch, addresses, alignments, every symbol "
        "field, negative/huge addends, images and their section order, entry, every arch id), every constructible debug-type graph of <= 3 "
        "types with all address kinds, objects compiled from C / C3 with debug=True and assembled for 4 targets, and linker outputs under layouts; "
        "action = save->load, applied twice (fixpoint); archives = every ordered 1-3 tuple of a pool; link(load(save(objs))) vs link(objs) over merge "
        "scenarios, compiled objects and libraries; distinct non-trivial = distinct (feature label, saved text)")
ASSUMPTIONS = [
    "oracle = field-by-field comparator written in /verif (sections name/address/alignment/data bytes; symbols all seven fields plus the name and id "
    "maps; relocations; images with section order and identity; entry; arch class, id string and options; debug info by structural walk with a "
    "type-object bijection) - ObjectFile.__eq__ is not used",
    "section data is compared as a byte string (a bytearray coming back as bytes is not a difference); SourceLocation.source (a text cache) is not debug information",
    "the textual form chosen for data (string vs list of strings) is not constrained, only that it reads back and that the second save equals the first",
    "hand-built debug info registers every referenced type in DebugInfo.types (as the compilers do)",
]
CLAIM = {
    "text": "Within the stated bounds every object file and archive reads back field-for-field equal, saving is a fixpoint after one step, and linking "
            "reloaded objects gives byte-identical output.",
    "note": "trusted: the comparator in this file and the objgen builders",
    "technique": "bounded exhaustive state enumeration with save/load as the transition, independent structural comparator",
    "engine": "K2",
}

# ------------------------------------------------------------------ sources for compiled / assembled states

C_SOURCES = [
    "int g = 3; int f(int x) { int y = x + g; return y * 2; }",
    "struct S { int a; struct S *next; char b[3]; }; struct S s; char buf[40];\n"
    "int sum(struct S *p, int n) { int t = 0; while (p && n--) { t += p->a + p->b[1]; p = p->next; } return t; }",
    "static long h(long a, long b) { return a < b ? a : b; }\nunsigned char tab[31] = {1,2,3};\ndouble d = 1.5;\n"
    "long use(long q) { return h(q, 7) + tab[q & 15]; }\nvoid ext(int); void call(void) { ext(4); }",
]
C3_SOURCES = [
    "module main;\nvar int g;\nfunction int f(int x) { var int y = x + 1; return y + g; }",
    "module m2;\ntype struct { int a; byte b; int[3] arr; } S_t;\nvar S_t s;\nvar S_t* ps;\nvar int[30] big;\n"
    "function int f(int x, byte* p) { var int y = x + 1; var S_t q; q.a = y; q.arr[1] = *p; return q.a + q.arr[1]; }\n"
    "function void g2() { var int i; for (i = 0; i < 3; i = i + 1) { s.arr[i] = f(i, &s.b); } }",
]
ASM_SOURCES = {
    "arm": "section code\nglobal start\nstart:\nmov r0, 1\nadd r1, r0, r0\nb start\nbl other\nsection data\nglobal val\nval:\ndd 0x11223344\ndb 7\n",
    "x86_64": "section code\nglobal start\nstart:\nmov rax, 1\nadd rax, rbx\njmp start\ncall other\nsection data\nval:\ndq 0x1122334455667788\ndb 7\n",
    "riscv": "section code\nglobal start\nstart:\naddi x1, x0, 1\nadd x2, x1, x1\nj start\njal x1, other\nsection data\nval:\ndd 0x11223344\ndb 7\n",
    "msp430": "section code\nglobal start\nstart:\nmov.w #1, r4\nadd.w r4, r5\njmp start\ncall #other\nsection data\nval:\ndw 0x1122\ndb 7\n",
}
COMPILE_ARCHES = ("x86_64", "arm", "riscv")

_cache = {}


def _quiet():
    import logging
    for n in ("linker", "ccodegen", "codegen", "cparser", "c3c"):
        logging.getLogger(n).setLevel(logging.CRITICAL + 1)


# ------------------------------------------------------------------ debug-info descriptions

def debug_type_graphs(n):
    """Every sequence of n type nodes over {base, pointer(t), array(t), struct(f), struct(f,g)} with references to any
    index < n, kept when it can be constructed (pointer/array targets must exist first; structs may be recursive)."""
    kinds = [("base",)]
    kinds += [("pointer", t) for t in range(n)] + [("array", t) for t in range(n)]
    kinds += [("struct", t) for t in range(n)] + [("struct", t, u) for t in range(n) for u in range(n)]
    out = []
    for seq in itertools.product(kinds, repeat=n):
        done = {i for i, k in enumerate(seq) if k[0] in ("base", "struct")}
        changed = True
        while changed:
            changed = False
            for i, k in enumerate(seq):
                if i not in done and k[1] in done:
                    done.add(i)
                    changed = True
        if len(done) == n:
            out.append([list(k) for k in seq])
    return out


def debug_desc(types, variant=0):
    """A debug-info description around a type graph: one variable per type (address kinds rotate), one function."""
    addrs = [["fixed", 0], ["fprel", -8, 4], ["unknown"], ["fprel", 24, 17], ["fixed", 1]]
    n = len(types)
    return {
        "types": types,
        "locations": [["a.c", 1 + i, 2 * i, 3, addrs[(i + variant) % 5] if i else ["fixed", 0]] for i in range(2)],
        "variables": [["v%d" % i, i, ["b.c", 10 + i, 1, 1], addrs[(i + variant) % 5]] for i in range(n)],
        "functions": [{"name": "fn", "loc": ["a.c", 4, 5, 1], "ret": 0, "args": [["p%d" % i, (i + variant) % n] for i in range(min(n, 2))],
                       "begin": ["fixed", 0], "end": ["fixed", 1],
                       "vars": [["loc%d" % i, (n - 1 - i) % n, ["", 0, 0, 0], addrs[(i + 1 + variant) % 5]] for i in range(2)]}],
    }


def build_debug(dd):
    from ppci.binutils import debuginfo as D
    from ppci.common import SourceLocation
    from ppci.arch.stack import StackLocation

    def addr(a):
        if a[0] == "fixed":
            return D.DebugAddress(a[1])
        if a[0] == "fprel":
            return D.FpOffsetAddress(StackLocation(a[1], a[2]))
        return D.UnknownAddress()

    def loc(x):
        return SourceLocation(x[0], x[1], x[2], x[3])

    tds = dd["types"]
    objs = [None] * len(tds)
    for i, t in enumerate(tds):
        if t[0] == "base":
            objs[i] = D.DebugBaseType("t%d" % i, 1 << (i % 4), 1)
        elif t[0] == "struct":
            objs[i] = D.DebugStructType()
    while any(o is None for o in objs):
        for i, t in enumerate(tds):
            if objs[i] is None and objs[t[1]] is not None:
                objs[i] = D.DebugPointerType(objs[t[1]]) if t[0] == "pointer" else D.DebugArrayType(objs[t[1]], 3 + i)
    for i, t in enumerate(tds):
        if t[0] == "struct":
            for fi, ft in enumerate(t[1:]):
                objs[i].add_field("f%d" % fi, objs[ft], 4 * fi)
    di = D.DebugInfo()
    for x in dd["locations"]:
        di.add(D.DebugLocation(loc(x), address=addr(x[4])))
    for o in objs:
        di.add(o)
    for v in dd["variables"]:
        di.add(D.DebugVariable(v[0], objs[v[1]], loc(v[2]), address=addr(v[3])))
    for f in dd["functions"]:
        di.add(D.DebugFunction(f["name"], loc(f["loc"]), objs[f["ret"]], [D.DebugParameter(a[0], objs[a[1]]) for a in f["args"]],
                               begin=addr(f["begin"]), end=addr(f["end"]),
                               variables=[D.DebugVariable(v[0], objs[v[1]], loc(v[2]), address=addr(v[3])) for v in f["vars"]]))
    return di


# ------------------------------------------------------------------ states

def make_state(sd):
    """State description -> fresh ObjectFile."""
    from vf.gen import objgen as G
    kind = sd["kind"]
    if kind == "desc":
        o = G.build(sd["odesc"])
        if sd.get("debug") is not None:
            o.debug_info = build_debug(sd["debug"])
        return o
    if kind in ("cc", "c3", "asm"):
        # compiled once per process and handed out as the same object: nothing in this check mutates a state
        key = (kind, sd["src"], sd["arch"])
        if key not in _cache:
            from ppci import api
            if kind == "cc":
                o = api.cc(io.StringIO(C_SOURCES[sd["src"]]), sd["arch"], debug=True)
            elif kind == "c3":
                o = api.c3c([io.StringIO(C3_SOURCES[sd["src"]])], [], sd["arch"], debug=True)
            else:
                o = api.asm(io.StringIO(ASM_SOURCES[sd["arch"]]), sd["arch"], debug=bool(sd["src"]))
            _cache[key] = o
        return _cache[key]
    if kind == "linked":
        from ppci.binutils.linker import link
        objs = [make_state(s) for s in sd["inputs"]]
        lay = G.build_layout(sd["layout"]) if sd.get("layout") else None
        return link(objs, layout=lay, partial_link=bool(sd.get("partial")), debug=bool(sd.get("debug")))
    raise ValueError(kind)


def save_text(o):
    f = io.StringIO()
    o.save(f)
    return f.getvalue()


def load_text(s):
    from ppci.binutils.objectfile import ObjectFile
    return ObjectFile.load(io.StringIO(s))


# ------------------------------------------------------------------ the comparator (the oracle)

def _same(x, y):
    """Equal value *and* same scalar type (an int that comes back as a string is a difference)."""
    if isinstance(x, bool) or isinstance(y, bool):
        return type(x) is type(y) and x == y
    if isinstance(x, int) and isinstance(y, int):
        return x == y
    return type(x) is type(y) and x == y


def compare(a, b):
    """-> list of (field path, value in a, value in b); empty when equal."""
    d = []

    def chk(path, x, y):
        if not _same(x, y):
            d.append((path, repr(x)[:80], repr(y)[:80]))

    # arch
    chk("arch.class", type(a.arch).__name__, type(b.arch).__name__)
    chk("arch.id", a.arch.make_id_str(), b.arch.make_id_str())
    chk("arch.options", sorted(a.arch.option_settings.items()), sorted(b.arch.option_settings.items()))
    # sections
    chk("section.count", len(a.sections), len(b.sections))
    for x, y in zip(a.sections, b.sections):
        chk("section.name", x.name, y.name)
        chk("section.address", x.address, y.address)
        chk("section.alignment", x.alignment, y.alignment)
        chk("section.data", bytes(x.data), bytes(y.data))
    chk("section.map", sorted(map(repr, a.section_map)), sorted(map(repr, b.section_map)))
    for n in a.section_map:
        if n in b.section_map:
            ia = [i for i, s in enumerate(a.sections) if s is a.section_map[n]]
            ib = [i for i, s in enumerate(b.sections) if s is b.section_map[n]]
            chk("section.map", ia, ib)
    # symbols
    chk("symbol.count", len(a.symbols), len(b.symbols))
    for x, y in zip(a.symbols, b.symbols):
        for f in ("id", "name", "binding", "value", "section", "typ", "size"):
            chk("symbol." + f, getattr(x, f), getattr(y, f))
    chk("symbol.by_id", sorted(a.symbols_by_id), sorted(b.symbols_by_id))
    chk("symbol.by_name", sorted(map(repr, a.symbol_map)), sorted(map(repr, b.symbol_map)))
    for n in a.symbol_map:
        if n in b.symbol_map:
            chk("symbol.by_name", a.symbol_map[n].id, b.symbol_map[n].id)
    # relocations
    chk("reloc.count", len(a.relocations), len(b.relocations))
    for x, y in zip(a.relocations, b.relocations):
        chk("reloc.type", x.reloc_type, y.reloc_type)
        chk("reloc.symbol_id", x.symbol_id, y.symbol_id)
        chk("reloc.section", x.section, y.section)
        chk("reloc.offset", x.offset, y.offset)
        chk("reloc.addend", x.addend, y.addend)
    # images
    chk("image.count", len(a.images), len(b.images))
    for x, y in zip(a.images, b.images):
        chk("image.name", x.name, y.name)
        chk("image.address", x.address, y.address)
        chk("image.sections", [s.name for s in x.sections], [s.name for s in y.sections])
        chk("image.section-identity", [any(s is t for t in a.sections) for s in x.sections], [any(s is t for t in b.sections) for s in y.sections])
    chk("image.map", sorted(map(repr, a.image_map)), sorted(map(repr, b.image_map)))
    # entry
    chk("entry", a.entry_symbol_id, b.entry_symbol_id)
    # debug
    if (a.debug_info is None) != (b.debug_info is None):
        d.append(("debug.presence", repr(a.debug_info is not None), repr(b.debug_info is not None)))
    elif a.debug_info is not None:
        compare_debug(a.debug_info, b.debug_info, chk)
    return d


def compare_debug(da, db, chk):
    from ppci.binutils import debuginfo as D
    fwd, bwd = {}, {}

    def loc(path, x, y):
        for f in ("filename", "row", "col", "length"):
            chk("debug.loc." + f, getattr(x, f), getattr(y, f))

    def addr(path, x, y):
        chk("debug.address.kind", type(x).__name__, type(y).__name__)
        if type(x) is not type(y):
            return
        if isinstance(x, D.DebugAddress):
            chk("debug.address.symbol_id", x.symbol_id, y.symbol_id)
        elif isinstance(x, D.FpOffsetAddress):
            chk("debug.address.fp-offset", x.offset.offset, y.offset.offset)
            chk("debug.address.fp-size", x.offset.size, y.offset.size)

    def typ(path, x, y):
        """Structural equality under a bijection between type objects (sharing and recursion preserved)."""
        if id(x) in fwd or id(y) in bwd:
            chk("debug.type.sharing", fwd.get(id(x)) == id(y), True)
            chk("debug.type.sharing", bwd.get(id(y)) == id(x), True)
            return
        fwd[id(x)] = id(y)
        bwd[id(y)] = id(x)
        chk("debug.type.kind", type(x).__name__, type(y).__name__)
        if type(x) is not type(y):
            return
        if isinstance(x, D.DebugBaseType):
            chk("debug.type.base-name", x.name, y.name)
            chk("debug.type.base-size", x.size, y.size)
            chk("debug.type.base-encoding", x.encoding, y.encoding)
        elif isinstance(x, D.DebugStructType):
            chk("debug.type.field-count", len(x.fields), len(y.fields))
            for fx, fy in zip(x.fields, y.fields):
                chk("debug.type.field-name", fx.name, fy.name)
                chk("debug.type.field-offset", fx.offset, fy.offset)
                typ(path, fx.typ, fy.typ)
        elif isinstance(x, D.DebugPointerType):
            typ(path, x.pointed_type, y.pointed_type)
        elif isinstance(x, D.DebugArrayType):
            chk("debug.type.array-size", x.size, y.size)
            typ(path, x.element_type, y.element_type)

    def var(path, x, y):
        chk(path + ".name", x.name, y.name)
        loc(path, x.loc, y.loc)
        typ(path, x.typ, y.typ)
        addr(path, x.address, y.address)

    chk("debug.types.count", len(da.types), len(db.types))
    for x, y in zip(da.types, db.types):
        typ("debug.types", x, y)
    chk("debug.locations.count", len(da.locations), len(db.locations))
    for x, y in zip(da.locations, db.locations):
        loc("debug.location", x.loc, y.loc)
        addr("debug.location", x.address, y.address)
    chk("debug.variables.count", len(da.variables), len(db.variables))
    for x, y in zip(da.variables, db.variables):
        var("debug.variable", x, y)
    chk("debug.functions.count", len(da.functions), len(db.functions))
    for x, y in zip(da.functions, db.functions):
        p = "debug.function"
        chk(p + ".name", x.name, y.name)
        loc(p, x.loc, y.loc)
        typ(p + ".return", x.return_type, y.return_type)
        chk(p + ".arguments.count", len(x.arguments), len(y.arguments))
        for ax, ay in zip(x.arguments, y.arguments):
            chk(p + ".argument.name", ax.name, ay.name)
            typ(p + ".argument", ax.typ, ay.typ)
        addr(p + ".begin", x.begin, y.begin)
        addr(p + ".end", x.end, y.end)
        chk(p + ".variables.count", len(x.variables), len(y.variables))
        for vx, vy in zip(x.variables, y.variables):
            var(p + ".variable", vx, vy)


# ------------------------------------------------------------------ checks

def check_object(p, label, sd):
    """save -> load -> compare; save again -> identical text; same through serialize()/deserialize()."""
    from vf.core import exc_key
    w = {"what": "object", "label": label, "state": sd}
    p.add()
    try:
        o = make_state(sd)
    except Exception as ex:  # noqa
        p.count("unclassified_state_not_constructible")
        p.collect("unconstructible", "%s: %s" % (label, type(ex).__name__))
        return
    try:
        s0 = save_text(o)
    except Exception as ex:  # noqa
        p.violation(exc_key("save/" + label.split("/")[0], ex), "%s: save raised %r" % (label, ex), w)
        return
    p.outcome((label, s0))
    p.count("states")
    try:
        o1 = load_text(s0)
    except Exception as ex:  # noqa
        p.violation(exc_key("load/" + label.split("/")[0], ex), "%s: load of the saved text raised %r" % (label, ex), w)
        return
    p.count("transitions")
    diffs = compare(o, o1)
    for path, x, y in diffs[:1]:
        p.violation("roundtrip/" + path, "%s: after save+load %s is %s, was %s" % (label, path, y, x), w)
    try:
        s1 = save_text(o1)
        p.count("transitions")
    except Exception as ex:  # noqa
        p.violation(exc_key("resave/" + label.split("/")[0], ex), "%s: saving the reloaded object raised %r" % (label, ex), w)
        return
    if s1 != s0 and not diffs:  # (a field that did not survive is already reported above; its echo in the text is the same defect)
        p.violation("fixpoint/" + json_diff_path(s0, s1), "%s: second save differs from the first at %s" % (label, json_diff_path(s0, s1)), w)
    # the dict-level entry points used by Archive
    from ppci.binutils.objectfile import serialize, deserialize
    try:
        o2 = deserialize(serialize(o))
    except Exception as ex:  # noqa
        p.violation(exc_key("serialize/" + label.split("/")[0], ex), "%s: deserialize(serialize(obj)) raised %r" % (label, ex), w)
        return
    for path, x, y in ([] if diffs else compare(o, o2)[:1]):
        p.violation("roundtrip/" + path, "%s: after serialize+deserialize %s is %s, was %s" % (label, path, y, x), w)


def json_diff_path(t0, t1):
    """Path of the first difference between two JSON texts, list indices dropped (a locus, not a position)."""
    import json
    try:
        a, b = json.loads(t0), json.loads(t1)
    except ValueError:
        return "not-json"

    def walk(x, y, path):
        if type(x) is not type(y):
            return path
        if isinstance(x, dict):
            for k in sorted(set(x) | set(y)):
                if k not in x or k not in y:
                    return path + [k]
                r = walk(x[k], y[k], path + [k])
                if r is not None:
                    return r
            return None
        if isinstance(x, list):
            if len(x) != len(y):
                return path + ["length"]
            for u, v in zip(x, y):
                r = walk(u, v, path)
                if r is not None:
                    return r
            return None
        return None if x == y else path

    r = walk(a, b, [])
    return ".".join(r) if r else "formatting"


def _link(objs, ldesc, debug, libs=None):
    from vf.gen import objgen as G
    from ppci.binutils.linker import link
    try:
        r = link(objs, layout=G.build_layout(ldesc) if ldesc else None, debug=debug, libraries=libs)
        return ("ok", r)
    except Exception as ex:  # noqa
        return ("err", type(ex).__name__, str(getattr(ex, "msg", ex)))


def check_link(p, label, sds, ldesc, debug=False):
    """link(load(save(objs))) must be byte-identical to link(objs)."""
    w = {"what": "link", "label": label, "states": sds, "layout": ldesc, "debug": debug}
    p.add()
    try:
        objs = [make_state(s) for s in sds]
    except Exception:  # noqa
        p.count("unclassified_state_not_constructible")
        return
    try:
        reloaded = [load_text(save_text(o)) for o in objs]
    except Exception as ex:  # noqa
        p.violation("link/reload-raises/" + type(ex).__name__, "%s: save/load raised %r" % (label, ex), w)
        return
    p.count("transitions", len(objs))
    indiff = [d for a, b in zip(objs, reloaded) for d in compare(a, b)]
    if indiff:
        path, x, y = indiff[0]
        p.violation("roundtrip/" + path, "%s: after save+load %s is %s, was %s" % (label, path, y, x), w)
        debug_only = all(d[0].startswith("debug.") for d in indiff)
        if not debug_only:
            return
    r0 = _link(objs, ldesc, debug)
    r1 = _link(reloaded, ldesc, debug)
    p.count("links", 2)
    _compare_links(p, label, r0, r1, w, ignore_debug=bool(indiff))


def _compare_links(p, label, r0, r1, w, ignore_debug=False):
    if r0[0] != r1[0] or (r0[0] == "err" and r0 != r1):
        p.violation("link/outcome", "%s: link of originals %s, link of reloaded objects %s" % (label, _say(r0), _say(r1)), w)
        return
    if r0[0] == "err":
        p.outcome(("link-err", label, r0[1]))
        return
    t0, t1 = save_text(r0[1]), save_text(r1[1])
    p.outcome(("link", label, t0))
    diffs = [d for d in compare(r0[1], r1[1]) if not (ignore_debug and d[0].startswith("debug."))]
    if diffs:
        path, x, y = diffs[0]
        p.violation("link/differs/" + path, "%s: linked output differs after reload: %s is %s, was %s" % (label, path, y, x), w)
    elif t0 != t1:
        p.violation("link/differs/text", "%s: saved linked output differs after reload" % label, w)
    for a, b in zip(r0[1].images, r1[1].images):
        try:
            da, db = bytes(a.data), bytes(b.data)
        except Exception:  # noqa
            continue
        if da != db:
            p.violation("link/differs/image-bytes", "%s: image %s differs after reload" % (label, a.name), w)


def _say(r):
    return "succeeds" if r[0] == "ok" else "fails with %s(%s)" % (r[1], r[2][:60])


def check_archive(p, label, sds):
    from vf.core import exc_key
    from ppci.binutils.archive import Archive, archive, get_archive
    w = {"what": "archive", "label": label, "states": sds}
    p.add()
    try:
        objs = [make_state(s) for s in sds]
    except Exception:  # noqa
        p.count("unclassified_state_not_constructible")
        return
    try:
        f = io.StringIO()
        archive(objs).save(f)
        s0 = f.getvalue()
        ar = get_archive(io.StringIO(s0))
    except Exception as ex:  # noqa
        p.violation(exc_key("archive/raises", ex), "%s: archive save/load raised %r" % (label, ex), w)
        return
    p.count("transitions")
    p.count("archive_states")
    p.outcome(("archive", s0))
    got = list(ar)
    if len(got) != len(objs):
        p.violation("archive/member-count", "%s: %d members saved, %d loaded" % (label, len(objs), len(got)), w)
        return
    bad = [(i, compare(a, b)) for i, (a, b) in enumerate(zip(objs, got))]
    bad = [(i, d) for i, d in bad if d]
    if bad:
        ta, tb = [save_text(x) for x in objs], [save_text(x) for x in got]
        if ta != tb and sorted(ta) == sorted(tb):  # the same members (by their saved text), permuted
            p.violation("archive/member-order", "%s: members come back in a different order" % label, w)
        else:
            i, d = bad[0]
            path, x, y = d[0]
            p.violation("roundtrip/" + path, "archive %s: member %d: %s is %s, was %s" % (label, i, path, y, x), w)
        return
    f2 = io.StringIO()
    Archive(got).save(f2)
    p.count("transitions")
    if f2.getvalue() != s0:
        p.violation("archive/fixpoint/" + json_diff_path(s0, f2.getvalue()), "%s: second save of the archive differs from the first" % label, w)


def check_library(p, label, main_sd, lib_sds):
    """link(main, libraries=[archive]) vs the same with the archive saved and loaded."""
    from ppci.binutils.archive import archive, get_archive
    w = {"what": "library", "label": label, "main": main_sd, "states": lib_sds}
    p.add()
    main = make_state(main_sd)
    ar = archive([make_state(s) for s in lib_sds])
    f = io.StringIO()
    ar.save(f)
    try:
        ar2 = get_archive(io.StringIO(f.getvalue()))
    except Exception as ex:  # noqa
        p.violation("archive/raises/" + type(ex).__name__, "%s: archive load raised %r" % (label, ex), w)
        return
    p.count("transitions")
    r0 = _link([main], None, False, [ar])
    r1 = _link([load_text(save_text(main))], None, False, [ar2])
    p.count("links", 2)
    _compare_links(p, label, r0, r1, w)


# ------------------------------------------------------------------ enumeration

def desc_state(o, debug=None):
    sd = {"kind": "desc", "odesc": o}
    if debug is not None:
        sd["debug"] = debug
    return sd


def compiled_states():
    out = []
    for a in COMPILE_ARCHES:
        for i in range(len(C_SOURCES)):
            out.append(("compiled/cc", {"kind": "cc", "src": i, "arch": a}))
        for i in range(len(C3_SOURCES)):
            out.append(("compiled/c3", {"kind": "c3", "src": i, "arch": a}))
    for a in ASM_SOURCES:
        for dbg in (0, 1):
            out.append(("assembled", {"kind": "asm", "src": dbg, "arch": a}))
    return out


def linked_states(tier):
    """Linker outputs as states: images, entry, DEFINESYMBOL sections, merged padding."""
    from vf.gen import objgen as G
    out = []
    shp = G.shapes((0, 1, 5, 30, 31), (1, 4, 8)) if tier == "quick" else G.shapes((0, 1, 3, 5, 16, 30, 31), (1, 2, 4, 8))
    for objs in G.merge_sets(2, shp):
        entry = next((y["name"] for y in objs[1]["symbols"] if y["binding"] == "global"), None)
        lay = G.layout([G.mem("rom", 0x101, G.BIG, [["DEFINESYMBOL", "s"], ["SECTION", "code"], ["ALIGN", 8], ["SECTIONDATA", "code"], ["DEFINESYMBOL", "e"]]),
                        G.mem("ram", 2 ** 32, G.BIG, [["SECTION", "data"]])], entry=entry)
        ins = [desc_state(o) for o in objs]
        out.append(("linked/layout", {"kind": "linked", "inputs": ins, "layout": lay}))
        out.append(("linked/partial", {"kind": "linked", "inputs": ins, "partial": True}))
    for label, sd in compiled_states():
        if sd["kind"] != "asm":
            out.append(("linked/compiled-debug", {"kind": "linked", "inputs": [sd], "partial": True, "debug": True}))
    return out


def debug_states(tier):
    from vf.gen import objgen as G
    out = []
    base = G.base_object()
    graphs = []
    for n in (1, 2, 3):
        graphs += debug_type_graphs(n)
    for gi, g in enumerate(graphs):
        for variant in ((gi % 5,) if (tier == "quick" and len(g) == 3) else range(5)):
            out.append(("debug/types", desc_state(base, debug_desc(g, variant))))
    out.append(("debug/empty", desc_state(base, {"types": [], "locations": [], "variables": [], "functions": []})))
    for fn in G.ODD_NAMES:
        dd = debug_desc([["base"]])
        dd["locations"][0][0] = fn
        dd["variables"][0][0] = fn
        dd["functions"][0]["name"] = fn
        out.append(("debug/names", desc_state(base, dd)))
    for off in (0, 1, -1, 2 ** 31, -2 ** 40):
        for size in (0, 1, 4, 17):
            dd = debug_desc([["base"]])
            dd["variables"][0][3] = ["fprel", off, size]
            out.append(("debug/fprel", desc_state(base, dd)))
    return out


def archive_pool(tier):
    from vf.gen import objgen as G
    byl = {}
    for label, o in G.c14_objects("quick"):
        byl.setdefault(label, []).append(o)
    pool = [("base", desc_state(G.base_object())), ("empty", desc_state(G.obj([]))),
            ("data31", desc_state(G.obj([G.sec("code", 31, 8, "ramp")]))),
            ("names", desc_state(byl["section/name"][8])), ("addend", desc_state(byl["reloc/addend"][-1])),
            ("images", desc_state(byl["image/two"][-1])), ("entry", desc_state(byl["entry"][2])),
            ("debug", desc_state(G.base_object(), debug_desc([["struct", 1], ["pointer", 0]], 1))),
            ("arch", desc_state(G.obj([G.sec("code", 2)], arch="riscv:rvc"))),
            ("c3", {"kind": "c3", "src": 1, "arch": "x86_64"})]
    if True:
        pool += [("cc", {"kind": "cc", "src": 1, "arch": "arm"}), ("asm", {"kind": "asm", "src": 1, "arch": "msp430"}),
                 ("data1000", desc_state(G.obj([G.sec("code", 1000, 4, "ramp"), G.sec("data", 30, 1, "ff")]))),
                 ("symbols", desc_state(byl["symbol/many"][0]))]
    if tier == "thorough":
        pool += [("linked", linked_states("quick")[0][1]), ("product", desc_state(G.c14_product("quick")[-1][1])),
                 ("absolute", desc_state(byl["symbol/absolute"][0])), ("reloc-many", desc_state(byl["reloc/many"][0])),
                 ("same-name", desc_state(byl["image/same-name"][0])), ("thumb", desc_state(G.obj([G.sec(".text", 30, 2, "ff")], arch="arm:thumb")))]
    return pool


def library_family():
    """main references p; library members: L1 defines p (needs q), L2 defines q, L3 defines r, L4 defines p again."""
    from vf.gen import objgen as G
    main = desc_state(G.obj([G.sec("code", 4)], [G.sym("main", "global", "code", 0), G.sym("p", "global", None, None)], tag=0))
    l1 = desc_state(G.obj([G.sec("code", 5, 8)], [G.sym("p", "global", "code", 1), G.sym("q", "global", None, None)], tag=1))
    l2 = desc_state(G.obj([G.sec("code", 3, 2), G.sec("data", 31, 4)], [G.sym("q", "global", "data", 30), G.sym("loc", "local", "code", 1)], tag=2))
    l3 = desc_state(G.obj([G.sec("extra", 8)], [G.sym("r", "global", "extra", 8)], tag=3))
    l4 = desc_state(G.obj([G.sec("code", 1, 1)], [G.sym("p", "global", "code", 0)], tag=4))
    members = [l1, l2, l3, l4]
    out = []
    for n in range(0, 4):
        for tup in itertools.permutations(range(4), n):
            out.append((main, [members[i] for i in tup]))
    return out


def link_family(tier):
    """(label, states, layout, debug) for the reload-then-link comparison."""
    from vf.gen import objgen as G
    out = []
    shp = G.shapes((0, 1, 5, 30, 31), (1, 4, 8)) if tier == "quick" else G.shapes((0, 1, 3, 5, 16, 30, 31), (1, 2, 4, 8))
    lay = G.layout([G.mem("rom", 0x101, G.BIG, [["DEFINESYMBOL", "s"], ["SECTION", "code"], ["ALIGN", 8], ["SECTIONDATA", "code"]])], entry="g0_code_0")
    for objs in G.merge_sets(3, shp):
        sds = [desc_state(o) for o in objs]
        has_entry = any(y["name"] == "g0_code_0" for y in objs[0]["symbols"])
        out.append(("merge", sds, lay if has_entry else dict(lay, entry=None), False))
        out.append(("merge-nolayout", sds, None, False))
    # objects with relocations and undefined symbols (link fails or applies relocations identically)
    for ad in G.ADDENDS:
        o = G.obj([G.sec("code", 8, 4, "zero")], [G.sym("t", "global", "code", 4), G.sym("u", "global", None, None)], [G.rel("rel8", 0, "code", 0, ad)])
        out.append(("reloc", [desc_state(o)], None, False))
        out.append(("reloc-undef", [desc_state(dict(o, relocs=[G.rel("rel8", 1, "code", 0, ad)]))], None, False))
    big = G.layout([G.mem("rom", 0x1000, 0x10000, [["SECTION", "code"], ["ALIGN", 16], ["SECTION", "data"], ["DEFINESYMBOL", "end"]])])
    for label, sd in compiled_states():
        out.append(("compiled", [sd], big, True))
        out.append(("compiled-nodebug", [sd], big, False))
    for a in COMPILE_ARCHES:
        out.append(("compiled-pair", [{"kind": "c3", "src": 1, "arch": a}, {"kind": "cc", "src": 0, "arch": a}], big, True))
    return out


def items_for(tier, seed):
    from vf.gen import objgen as G
    items = []
    for label, o in G.c14_objects(tier):
        items.append(("object", label, desc_state(o)))
    for label, o in G.c14_product(tier):
        items.append(("object", label, desc_state(o)))
    for label, sd in debug_states(tier):
        items.append(("object", label, sd))
    for label, sd in compiled_states():
        items.append(("object", label, sd))
    for label, sd in linked_states(tier):
        items.append(("object", label, sd))
    pool = archive_pool(tier)
    for n in (1, 2, 3):
        for tup in itertools.product(range(len(pool)), repeat=n):
            items.append(("archive", "+".join(pool[i][0] for i in tup), [pool[i][1] for i in tup]))
    items.append(("archive", "none", []))
    for main, libs in library_family():
        items.append(("library", "lib%d" % len(libs), main, libs))
    for label, sds, lay, dbg in link_family(tier):
        items.append(("link", label, sds, lay, dbg))
    return items


def do_item(p, item):
    if item[0] == "object":
        check_object(p, item[1], item[2])
    elif item[0] == "archive":
        check_archive(p, item[1], item[2])
    elif item[0] == "library":
        check_library(p, item[1], item[2], item[3])
    else:
        check_link(p, item[1], item[2], item[3], item[4])


_ITEMS = []  # built in the parent before the workers are forked; shards carry indices only


def worker(p, shard):
    from vf.core import cpu_limit, CpuTimeout
    _quiet()
    for idx in shard:
        item = _ITEMS[idx]
        try:
            with cpu_limit(60):
                do_item(p, item)
        except CpuTimeout:
            p.violation("timeout/" + item[0], "%s %s exceeded 60 s CPU" % (item[0], item[1]), {"what": "timeout", "label": item[1]})


def check_binary_txt(ctx):
    """The hex text helper on its own: every length 0..70 (the form switches at 30) and a few big ones, through JSON."""
    import json
    from ppci.utils.binary_txt import bin2asc, asc2bin
    for n in list(range(0, 71)) + [255, 256, 1000, 4096]:
        for fill in (lambda i: i & 0xFF, lambda i: 0, lambda i: 0xFF):
            ctx.add()
            d = bytes(fill(i) for i in range(n))
            try:
                t = bin2asc(d)
                back = asc2bin(json.loads(json.dumps(t)))
            except Exception as ex:  # noqa
                ctx.violation("binary_txt/raises/" + type(ex).__name__, "bin2asc/asc2bin raised %r on %d bytes" % (ex, n), {"what": "bintxt", "n": n})
                continue
            ctx.outcome(("bintxt", type(t).__name__, n))
            if bytes(back) != d:
                ctx.violation("binary_txt/roundtrip", "asc2bin(bin2asc(%d bytes)) returns %d different bytes" % (n, len(back)), {"what": "bintxt", "n": n})


def run(ctx):
    _quiet()
    assert len(debug_type_graphs(1)) == 3 and len(debug_type_graphs(2)) == 77  # 121 - 16 (no ground) - 2*14 (self reference), (len(debug_type_graphs(1)), len(debug_type_graphs(2)))
    check_binary_txt(ctx)
    items = items_for(ctx.tier, ctx.seed)
    kinds = {}
    for it in items:
        kinds[it[0]] = kinds.get(it[0], 0) + 1
    ctx.note("items", kinds)
    labels = {}
    for it in items:
        if it[0] == "object":
            labels[it[1]] = labels.get(it[1], 0) + 1
    ctx.note("object_states_by_feature", labels)
    ctx.sample({"object": items[0][1], "state": items[0][2]})
    ctx.sample({"object": "debug/types", "debug": debug_desc([["struct", 1], ["pointer", 0]], 1)})
    import ppci.api  # noqa  (import and compile once, before the workers are forked)
    for label, sd in compiled_states():
        try:
            make_state(sd)
        except Exception:  # noqa
            pass
    import gc
    _ITEMS[:] = items
    gc.freeze()  # keep the forked workers from touching (and copying) the parent's item tables
    ctx.pmap(worker, list(range(len(items))))
    if ctx.counters.get("unclassified_state_not_constructible") and not ctx.violations:
        from vf.core import HarnessError
        raise HarnessError("states could not be constructed: %r" % sorted(ctx.sets.get("unconstructible", ())))
    ctx.states = ctx.counters.get("states", 0) + ctx.counters.get("archive_states", 0)
    ctx.transitions = ctx.counters.get("transitions", 0)
    ctx.traces = ctx.evaluations


def replay(w):
    from vf.core import Partial
    _quiet()
    p = Partial()
    if w["what"] == "object":
        check_object(p, w["label"], w["state"])
    elif w["what"] == "archive":
        check_archive(p, w["label"], w["states"])
    elif w["what"] == "library":
        check_library(p, w["label"], w["main"], w["states"])
    elif w["what"] == "link":
        check_link(p, w["label"], w["states"], w["layout"], w["debug"])
    elif w["what"] == "bintxt":
        check_binary_txt(p)
    if p.violations:
        k = sorted(p.violations)[0]
        return True, k + ": " + p.violations[k][1]
    return False, "reads back equal, fixpoint, identical link"
