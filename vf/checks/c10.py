"""C10 - out-of-range operands and relocated values are rejected, never silently truncated."""
import os
import re
import sys
import subprocess
from fractions import Fraction

ID = "C10"
LEVEL = "exploration"
RULE = ("(a) every integer operand slot of every instruction class with a syntax of every ppci ISA (17 arch/option variants), including the slots "
        "of every nested addressing-mode constructor option, the rest of the instance fixed at insgen's base vector: the boundary sets "
        "{min-1,min,-1,0,max,max+1,2^n-1,2^n,-2^n,-2^n-1,...} of the probed and the declared field width for both signednesses (also scaled), "
        "plus +-2^k, +-(2^k+-1), +-(2^k+-scale) for all k<=33 and k in {63,64}; (b) every relocation type of every ISA except hi/lo part "
        "relocations: one using instruction linked with the symbol at enumerated distances/addresses (boundary lattice to 2^33, unaligned values, "
        "two site offsets; quick: same set for all; thorough adds site misalignments and the second label name). A case is one "
        "(slot or relocation, value); distinct non-trivial = distinct (arch, class or relocation, slot, verdict, sign/size class of the value)")
ASSUMPTIONS = [
    "reference decoder: llvm-mc 14 --disassemble for arm, arm:thumb, riscv (+c,+m,+f), x86_64, msp430, avr, m68k, mips; the operand is located in the "
    "reference text by calibration on >= 3 small accepted values (token position and exact affine map), never by reading ppci's tables",
    "a decoded value different from the operand is excused only if llvm-mc --assemble accepts the reference text with the operand value substituted "
    "and yields the same instruction (sign-agnostic full-width immediates such as 'mov eax, -1' / 'mov eax, 0xffffffff')",
    "weaker read-back (labelled weak in the evidence) for or1k, xtensa, microblaze, stm8, mcs6500 and wherever the reference text cannot be calibrated: "
    "a bit-linear field model learned from the encoder on 0 and 2^k (validated on further values); it cannot know signedness, so it only flags values "
    "representable under neither signedness of the field",
    "relocations: linked with ppci.api.link + a one-memory layout; the symbol is defined through extra_symbols (absolute value) and, for small "
    "distances, also as a second label in the same section; read-back by the reference decoder (exact affine map calibrated on small aligned "
    "distances) or, for token/field relocations, by reading the relocation's own token field (weak)",
    "hi/lo part relocations (riscv abs32_imm20/abs32_imm12/rel_imm20/rel_imm12, avr ldihi/ldilo, or1k OR32_CONST/OR32_CONSTH) always fit by design and are excluded by name",
    "any exception from encode/link counts as rejection; assembling from text is covered through C09 (text and direct encoding agree)",
]
CLAIM = {
    "text": "For every integer operand slot and every non-partial relocation type, a boundary value is either rejected with an exception or the emitted field decodes back to exactly that value.",
    "note": "Trusted base: llvm-mc 14 as decoder/assembler for 8 ISAs, a learned bit-linear field model elsewhere (weaker: signedness unknown).",
    "technique": "bounded exhaustive boundary-value enumeration with independent read-back",
    "engine": "K1",
}

PARTIAL_RELOCS = {"abs32_imm20", "abs32_imm12", "rel_imm20", "rel_imm12", "ldihi", "ldilo", "OR32_CONST", "OR32_CONSTH"}

LLVM = {
    "arm": ["-triple=armv7a", "-mattr=+hwdiv-arm"],
    "arm:thumb": ["-triple=thumbv7m", "-mattr=+hwdiv"],
    "riscv": ["-triple=riscv32", "-mattr=+c,+m,+f", "-M", "no-aliases"],
    "riscv:rvc": ["-triple=riscv32", "-mattr=+c,+m,+f", "-M", "no-aliases"],
    "riscv:rvf": ["-triple=riscv32", "-mattr=+c,+m,+f", "-M", "no-aliases"],
    "riscv:rvfx": ["-triple=riscv32", "-mattr=+c,+m,+f", "-M", "no-aliases"],
    "x86_64": ["-triple=x86_64"],
    "x86_64:x87": ["-triple=x86_64"],
    "msp430": ["-triple=msp430"],
    "avr": ["-triple=avr", "-mcpu=atmega328p"],
    "m68k": ["-triple=m68k"],
    "mips": ["-triple=mipsel"],
}

NUM = re.compile(r"(?<![A-Za-z0-9_])[-+]?(?:0x[0-9a-fA-F]+|\d+)(?![A-Za-z_0-9])")
ENC = re.compile(r"\s*[#@;/|!]+\s*encoding: \[(.*?)\]\s*$")
WARN = re.compile(r":(\d+):\d+: (warning|error)")


# ------------------------------------------------------------------ reference tools

def _run(args, text):
    r = subprocess.run(args, input=text, capture_output=True, text=True)
    return r.stdout, r.stderr


def _parse_mc_output(out):
    """[(text, nbytes, [byte|None])] for every instruction line of llvm-mc -show-encoding output."""
    res = []
    for line in out.splitlines():
        if not line.startswith("\t") or line.startswith("\t."):
            continue
        m = ENC.search(line)
        if not m:
            continue
        elems = [e.strip() for e in m.group(1).split(",")]
        bs = []
        for e in elems:
            try:
                bs.append(int(e, 16))
            except ValueError:
                bs.append(None)
        res.append((line[:m.start()].strip().replace("\t", " "), len(elems), bs))
    return res


SENTINEL = {
    "armv7a": bytes.fromhex("f000f0e7"), "thumbv7m": bytes.fromhex("fede"), "riscv32": bytes.fromhex("73005010"),
    "x86_64": bytes.fromhex("0f0b"), "msp430": bytes.fromhex("0013"), "avr": bytes.fromhex("8895"),
    "m68k": bytes.fromhex("4e71"), "mipsel": bytes.fromhex("0c000000"),
}
_SENT_TEXT = {}
COMMENT = re.compile(r"\s+[#@;]\s+(imm = |encoding:|fixup |<MCOperand).*$")


def _mc_lines(out):
    res = []
    for line in out.splitlines():
        if not line.startswith("\t") or line.startswith("\t."):
            continue
        res.append(COMMENT.sub("", line).strip().replace("\t", " "))
    return res


def _blockline(b):
    # one atomic block per line: llvm-mc then decodes every line independently of its neighbours
    return "[" + " ".join("0x%02x" % x for x in b) + "]\n"


def llvm_disasm(flags, blobs, groups=None):
    """Reference decoding of byte strings: [text | None]; a blob that decodes to several instructions gives them joined by ' ; '.
    None: the reference reports an invalid/undefined encoding somewhere in the blob, or crashes on it (unclassified).
    Attribution: every blob line is followed by a sentinel instruction line; the output between two sentinels belongs to one blob.
    groups: optional group id per blob; when llvm-mc crashes on a blob, the whole group is dropped."""
    from vf.core import HarnessError
    triple = [f for f in flags if f.startswith("-triple=")][0][8:]
    sent = SENTINEL[triple]
    base = ["llvm-mc", "--disassemble"] + flags
    if triple not in _SENT_TEXT:
        r = subprocess.run(base, input=_blockline(sent), capture_output=True, text=True)
        ls = _mc_lines(r.stdout)
        if len(ls) != 1:
            raise HarnessError("sentinel does not decode for %s: %r %s" % (triple, ls, r.stderr[-200:]))
        _SENT_TEXT[triple] = ls[0]
    stext = _SENT_TEXT[triple]
    n = len(blobs)
    res = [None] * n
    live = [i for i in range(n) if blobs[i] and bytes(blobs[i]) != sent]
    for attempt in range(400):
        if not live:
            return res
        text = "".join(_blockline(blobs[i]) + _blockline(sent) for i in live)
        r = subprocess.run(base, input=text, capture_output=True, text=True)
        out, err = r.stdout, r.stderr
        bad = set((int(m.group(1)) - 1) // 2 for m in WARN.finditer(err))
        ls = _mc_lines(out)
        chunks = []
        cur = []
        for t in ls:
            if t == stext:
                chunks.append(cur)
                cur = []
            else:
                cur.append(t)
        if r.returncode < 0 or "Stack dump" in err or "PLEASE submit a bug report" in err:
            culprit = len(chunks)       # output stops inside this blob
            if culprit >= len(live):
                raise HarnessError("llvm-mc failed without a culprit line (%r): %s" % (flags, err[-300:]))
            CRASHES.append(bytes(blobs[live[culprit]]).hex())
            g = groups[live[culprit]] if groups is not None else None
            live = [i for k, i in enumerate(live) if k != culprit and (g is None or groups[i] != g)]
            continue
        if len(chunks) != len(live) or cur:
            raise HarnessError("llvm-mc output out of step with its input (%r): %d chunks for %d blobs" % (flags, len(chunks), len(live)))
        for k, i in enumerate(live):
            if k not in bad and chunks[k]:
                res[i] = " ; ".join(chunks[k])
        return res
    return res


CRASHES = []


def llvm_asm(flags, texts):
    """Reference assembly of one instruction per line: [bytes | None] (None: rejected or not fully numeric)."""
    n = len(texts)
    res = [None] * n
    if not n:
        return res
    flags = [f for f in flags if f not in ("-M", "no-aliases")]
    sent = [i for i in range(n) if texts[i] and " ; " not in texts[i]]
    if not sent:
        return res
    out, err = _run(["llvm-mc", "-show-encoding"] + flags, "".join(texts[i] + "\n" for i in sent))
    bad = set(int(m.group(1)) - 1 for m in WARN.finditer(err))
    ins = _parse_mc_output(out)
    good = [i for k, i in enumerate(sent) if k not in bad]
    if len(ins) != len(good):
        return res   # cannot attribute (an input expanded to several instructions): no excuse is granted
    for i, (_, _, bs) in zip(good, ins):
        if None not in bs:
            res[i] = bytes(bs)
    return res


def tokens(text):
    """[(value, start, end)] of the numeric tokens of a reference text, and its skeleton."""
    toks = []
    skel = []
    last = 0
    for m in NUM.finditer(text):
        s = m.group(0)
        try:
            val = int(s, 0)
        except ValueError:
            val = int(s, 10)
        toks.append((val, m.start(), m.end()))
        skel.append(text[last:m.start()])
        last = m.end()
    skel.append(text[last:])
    return toks, "#".join(skel)


class Calib:
    """Where and how the reference text shows a value: token index p with text value = a*x + b (exact)."""

    def __init__(self, pairs):
        # pairs: [(x, text)] with >= 3 distinct x
        self.ok = False
        self.why = "too-few-calibration-points"
        pairs = [(x, t) for x, t in pairs if t]
        if len({x for x, _ in pairs}) < 3:
            return
        toks0, skel0 = tokens(pairs[0][1])
        allt = []
        for x, t in pairs:
            tk, sk = tokens(t)
            if sk != skel0 or len(tk) != len(toks0):
                self.why = "calibration-texts-differ-in-shape"
                return
            allt.append((x, tk))
        for p in range(len(toks0)):
            (x1, t1), (x2, t2) = allt[0], allt[1]
            if x1 == x2:
                continue
            a = Fraction(t2[p][0] - t1[p][0], x2 - x1)
            if a == 0:
                continue
            b = t1[p][0] - a * x1
            if all(a * x + b == tk[p][0] for x, tk in allt):
                self.p, self.a, self.b, self.skel, self.n = p, a, b, skel0, len(toks0)
                self.ok = True
                return
        self.why = "no-token-follows-the-operand"

    def read(self, text):
        """('ok', decoded x as Fraction) | ('shape', None)"""
        if not text:
            return "undecodable", None
        tk, sk = tokens(text)
        if len(tk) != self.n or _loose(sk) != _loose(self.skel):
            return "shape", None
        return "ok", Fraction(tk[self.p][0] - self.b) / self.a

    def substitute(self, text, x):
        """The reference text with the operand token replaced by the text value for x (None if not integral)."""
        tk, _ = tokens(text)
        val = self.a * x + self.b
        if val.denominator != 1 or len(tk) != self.n:
            return None
        _, s, e = tk[self.p]
        return text[:s] + str(int(val)) + text[e:]


def _loose(skel):
    return re.sub(r"\s+", " ", skel)


# ------------------------------------------------------------------ tracing who accepted a value

EVENTS = []
_TRACED = []


def install_tracer():
    """Wrap Token.__setitem__ and every imported binding of bitfun.wrap_negative (in this process only) to log what they were given."""
    if _TRACED:
        return
    _TRACED.append(1)
    from ppci.arch.token import Token
    from ppci.utils import bitfun
    orig_set = Token.__setitem__
    orig_wn = bitfun.wrap_negative

    def setitem(self, key, value):
        if isinstance(key, slice) and isinstance(value, int):
            EVENTS.append(("tok", key.stop - key.start, value))
        return orig_set(self, key, value)

    def wrap_negative(value, bits):
        EVENTS.append(("wn", bits, value))
        return orig_wn(value, bits)

    Token.__setitem__ = setitem
    for name, mod in list(sys.modules.items()):
        if name.startswith("ppci") and mod is not None and getattr(mod, "wrap_negative", None) is orig_wn:
            setattr(mod, "wrap_negative", wrap_negative)


def family(ai, cls=None):
    """Architecture name for keys: the base target unless the class exists only in the option variant."""
    from vf.gen import insgen
    if ":" not in ai.name or ai.name == "arm:thumb":
        return ai.name
    base = insgen.get_arch_info(ai.name.split(":")[0])
    if cls is None or any(c is cls for c in base.arch.isa.instructions):
        return base.name
    return ai.name


def owner_of(io):
    """Name of the code that turns the slot's value into bits (for keys of ISA-specific causes)."""
    from ppci.arch.encoding import Constructor, Instruction
    ins = io.ci.build(io.base)
    owner = ins
    specs = io.ci.operands
    v = io.base
    for j in io.path[:-1]:
        owner = specs[j].operand.__get__(owner)
        specs = specs[j].options[v[j][1]].operands
        v = v[j][2]
    if io.field is not None and io.field.transform:
        return "transform:" + io.field.transform
    t = type(owner)
    if t.set_user_patterns is not Constructor.set_user_patterns:
        return t.set_user_patterns.__qualname__
    enc = type(ins).encode
    if enc is not Instruction.encode:
        return enc.__qualname__
    if hasattr(type(ins), "render"):
        return type(ins).render.__qualname__
    return t.__name__ + ".patterns"


def mechanism(io, ai, v, kind, events, masks):
    """Locus key: the mechanism that let the value through.
    masks: the slot accepts values far outside any reading of its field (|v| >= 2^(n+1)): the value is masked before it reaches a range check."""
    if io.field is not None and io.field.concat:
        return "bit_concat/no-range-check/%s/%s" % (family(ai, io.ci.cls), owner_of(io))
    if masks:
        return "encode-masks/%s/%s" % (family(ai, io.ci.cls), owner_of(io))
    for e in events:
        if e[0] == "wn" and e[2] == v:
            if v >= (1 << e[1]):
                return "wrap_negative/accepts-above-unsigned-max"
            if v >= 0:
                return "wrap_negative/accepts-unsigned-range"
            if v < -(1 << (e[1] - 1)):
                return "wrap_negative/accepts-below-signed-min"
            return "wrap_negative/negative-into-unsigned-field/%s/%s" % (family(ai, io.ci.cls), owner_of(io))
    for e in events:
        if e[0] == "tok" and e[2] == v:
            if v < 0:
                if v < -(1 << (e[1] - 1)):
                    return "token-field/wraps-negative-below-signed-min"
                return "token-field/wraps-negative-into-unsigned-field/%s/%s" % (family(ai, io.ci.cls), owner_of(io))
            if v >= (1 << (e[1] - 1)):
                return "token-field/signed-field-accepts-unsigned-range/%s/%s" % (family(ai, io.ci.cls), owner_of(io))
    return "encode/%s/%s/%s" % (family(ai, io.ci.cls), owner_of(io), kind)


# ------------------------------------------------------------------ weak read-back: learned bit-linear field model

class LinearModel:
    """encode(v) = K xor (xor of D_i over the set bits i of v mod 2^n), learned from the encoder on 0 and 2^i and
    validated on further values.  ok=False when the encoder is not of that form (the slot is then unclassified here)."""

    def __init__(self, enc, info):
        self.ok = False
        self.why = "no-zero"
        k0 = info.scale or 0
        npos = info.n_pos
        K = enc(0)
        if K is None:
            return
        if npos is None or npos <= k0:
            self.why = "no-width"
            return
        self.len = len(K)
        K = int.from_bytes(K, "little")
        D = {}
        used = 0
        for i in range(k0, npos):
            b = enc(1 << i)
            if b is None or len(b) != self.len:
                self.why = "length-or-reject-inside-range"
                return
            d = int.from_bytes(b, "little") ^ K
            if d == 0 or d & used:
                self.why = "bits-overlap"
                return
            used |= d
            D[i] = d
        n = npos
        if info.n == npos + 1:
            b = enc(-(1 << npos))
            if b is not None and len(b) == self.len:
                d = int.from_bytes(b, "little") ^ K
                if d and not d & used:
                    D[npos] = d
                    used |= d
                    n = npos + 1
        self.K, self.D, self.n, self.k0, self.used = K, D, n, k0, used
        s = 1 << k0
        for v in (3 * s, 5 * s, (1 << (npos - 1)) | s, (1 << npos) - s, 6 * s, 9 * s):
            if 0 <= v < (1 << npos):
                b = enc(v)
                if b is not None and self.read(b) != v:
                    self.why = "not-linear"
                    return
        self.ok = True

    def read(self, b):
        if len(b) != self.len:
            return None
        y = int.from_bytes(b, "little") ^ self.K
        r = 0
        for i, d in self.D.items():
            if y & d == d:
                r |= 1 << i
                y &= ~d
            elif y & d:
                return None
        if y:
            return None
        return r


# ------------------------------------------------------------------ (a) instruction operands

def size_class(v):
    a = abs(v)
    return ("neg" if v < 0 else "pos", 0 if a < 256 else 1 if a < 65536 else 2 if a < (1 << 32) else 3)


def relation(v, d):
    if v >= 0 and d < 0:
        return "positive-decodes-negative"
    if v < 0 and d >= 0:
        return "negative-decodes-positive"
    return "truncated"


def calib_values(io):
    s = 1 << (io.info.scale or 0)
    return [k * s for k in (1, 2, 3, 4, 5, 6, 7, 8, 12, 16, 20, 24, 32, 48)]


def judge_operands(p, ai, ios, values_of=None):
    """Decide every (slot, value) of `ios` (all of architecture ai).  values_of(io) overrides the value set (replay)."""
    from vf.gen import insgen
    install_tracer()
    flags = LLVM.get(ai.name)
    fam = ai.name
    recs = []          # per slot: dict
    blobs = []
    groups = []
    for io in ios:
        def enc(v, io=io):
            del EVENTS[:]
            try:
                return insgen.direct_bytes(io.ci.build(insgen.treplace(io.base, io.path, ("i", v))))
            except Exception:  # noqa
                return None
        rec = {"io": io, "enc": enc, "cal": [], "cases": []}
        nn = io.info.n or (io.field.bits if io.field is not None else 0) or 16
        rec["masks"] = any(enc(x) is not None for x in ((1 << (nn + 1)) + (1 << (io.info.scale or 0)), (1 << (nn + 3)), -(1 << (nn + 2))))
        vals = values_of(io) if values_of else insgen.c10_values(io)
        for v in vals:
            b = enc(v)
            ev = list(EVENTS)
            rec["cases"].append([v, b, ev, None])
        if flags and io.ci.cls.__module__ != "ppci.arch.data_instructions":
            for c in calib_values(io):
                b = enc(c)
                if b is not None:
                    rec["cal"].append([c, b, None])
                if len(rec["cal"]) >= 5:
                    break
            for c in rec["cal"]:
                c[2] = len(blobs)
                blobs.append(c[1])
                groups.append(len(recs))
            for c in rec["cases"]:
                if c[1] is not None:
                    c[3] = len(blobs)
                    blobs.append(c[1])
                    groups.append(len(recs))
        recs.append(rec)
    texts = llvm_disasm(flags, blobs, groups) if flags else []
    for c in CRASHES:
        p.collect("reference_decoder_crashes_on", "%s:%s" % (ai.name, c))
    del CRASHES[:]
    pending = []       # (rec, case, text, subst)
    for rec in recs:
        io = rec["io"]
        name = "%s:%s:%s" % (ai.name, io.ci.cid, io.name)
        cal = Calib([(c[0], texts[c[2]]) for c in rec["cal"]]) if flags and rec["cal"] else None
        model = None
        for case in rec["cases"]:
            v, b, ev, ti = case
            p.add()
            if b is None:
                p.count("rejected")
                p.outcome((fam, io.ci.cid, io.name, "rejected", size_class(v)))
                continue
            verdict = None
            if cal is not None and cal.ok:
                st, d = cal.read(texts[ti])
                if st == "ok":
                    if d == v:
                        verdict = "exact"
                        p.count("accepted_exact_reference")
                    else:
                        sub = cal.substitute(texts[ti], v)
                        pending.append((rec, case, texts[ti], sub, d))
                        continue
                else:
                    p.count("reference_" + st)
            if verdict is None:
                if model is None:
                    model = LinearModel(rec["enc"], io.info)
                if not model.ok:
                    p.count("unclassified")
                    p.collect("unclassified_slots", name + " (" + (cal.why if cal is not None and not cal.ok else "reference-shape") + "; weak:" + model.why + ")"
                              if flags else name + " (weak:" + model.why + ")")
                    continue
                r = model.read(b)
                if r is None:
                    p.count("unclassified")
                    p.collect("unclassified_slots", name + " (weak: other bits change)")
                    continue
                if v == r or (r >= (1 << (model.n - 1)) and v == r - (1 << model.n)):
                    p.count("accepted_representable_weak")
                    p.outcome((fam, io.ci.cid, io.name, "weak-ok", size_class(v)))
                    continue
                kind = "negative-decodes-positive" if v < 0 else "truncated"
                report(p, ai, io, v, kind, ev, b, "field bits read back (weak, learned %d-bit field model) = %d" % (model.n, r), True, rec["masks"])
                continue
            p.outcome((fam, io.ci.cid, io.name, verdict, size_class(v)))
    # second opinion of the reference assembler for decoded != operand
    if pending:
        asm = llvm_asm(flags, [s if s else "" for (_, _, _, s, _) in pending])
        need = [i for i, a in enumerate(asm) if a is not None and a != pending[i][1][1]]
        again = llvm_disasm(flags, [asm[i] for i in need]) if need else []
        redo = dict(zip(need, again))
        models = {}
        for i, (rec, case, text, sub, d) in enumerate(pending):
            v, b, ev, ti = case
            io = rec["io"]
            excused = None
            if sub and asm[i] is not None and (abs(v) < (1 << 63) or (io.info.n or 0) >= 64):
                if asm[i] == b or redo.get(i) == text:
                    # R2: the reference assembler maps the operand to the very same instruction
                    excused = "accepted_same_instruction_per_reference_assembler"
                elif v < 0 <= d:
                    # R3: the reference assembler accepts the negative operand for this instruction form and ppci stored its
                    # two's complement exactly (own field model): sign-agnostic full-width immediate ('mov #-1, r5' on a 16-bit CPU)
                    if id(rec) not in models:
                        models[id(rec)] = LinearModel(rec["enc"], io.info)
                    m = models[id(rec)]
                    if m.ok:
                        r = m.read(b)
                        if r is not None and r >= (1 << (m.n - 1)) and v == r - (1 << m.n):
                            excused = "accepted_negative_legal_per_reference_assembler"
            if excused:
                p.count(excused)
                p.outcome((fam, io.ci.cid, io.name, excused, size_class(v)))
                continue
            dd = int(d) if d.denominator == 1 else float(d)
            report(p, ai, io, v, relation(v, d), ev, b, "llvm-mc decodes %r, operand reads %s" % (text, dd), False, rec["masks"])


def report(p, ai, io, v, kind, events, b, seen, weak, masks):
    from vf.gen import insgen
    key = mechanism(io, ai, v, kind, events, masks)
    if weak:
        p.count("violations_weak_readback")
    inst = io.instance(v)
    try:
        text = io.ci.build(inst.ops)
        text = str(text)
    except Exception:  # noqa
        text = repr(inst.ops)
    p.collect("affected:" + key, "%s:%s:%s" % (ai.name, io.ci.cid, io.name))
    p.violation(key, "%s %s: operand %s = %d accepted (%r -> %s) but %s%s"
                % (ai.name, io.ci.cid, io.name, v, text, b.hex(), seen, " [weak read-back]" if weak else ""),
                {"kind": "ins", "arch": ai.name, "cls": io.ci.cid, "ops": insgen.to_json(io.base), "path": list(io.path), "v": str(v)})
    p.outcome((ai.name, io.ci.cid, io.name, kind, size_class(v)))


def operand_worker(p, shard):
    from vf.gen import insgen
    by_arch = {}
    for an, cid in shard:
        by_arch.setdefault(an, []).append(cid)
    for an, cids in by_arch.items():
        ai = insgen.get_arch_info(an)
        ios = []
        for cid in cids:
            ci = ai.by_cid[cid]
            if ci.seeds()[0] is None:
                p.collect("unbuildable_classes", "%s:%s" % (an, cid))
                continue
            for io in insgen.int_operands(ci):
                if io.info.lenlike:
                    p.collect("length_operands_excluded", "%s:%s:%s" % (an, cid, io.name))
                    continue
                ios.append(io)
                p.count("slots")
        judge_operands(p, ai, ios)


# ------------------------------------------------------------------ (b) relocations

LABEL = "vflab"


def reloc_users(ai):
    """{relocation name: Instance} - for every relocation type an instruction instance whose emission produces exactly that one relocation."""
    from vf.gen import insgen
    from ppci.binutils.objectfile import ObjectFile
    from ppci.binutils.outstream import BinaryOutputStream
    users = {}
    for ci in ai.classes:
        a, b = ci.seeds()
        if a is None:
            continue
        if not any(v[0] == "s" for _, v in insgen.leaves(a)):
            # label may hide in a nested option: look through the operand domains
            cands = [a]
        else:
            cands = [a]
        for i, spec in enumerate(ci.operands):
            if spec.kind == "c":
                for v in ci.domain(a, (i,), 4, True):
                    if any(x[0] == "s" for _, x in insgen.leaves((v,))):
                        cands.append(insgen.treplace(a, (i,), v))
        for ops in cands:
            lv = [(pth, v) for pth, v in insgen.leaves(ops) if v[0] == "s"]
            if len(lv) != 1:
                continue
            ops = insgen.treplace(ops, lv[0][0], ("s", LABEL))
            try:
                obj = ObjectFile(ai.arch)
                st = BinaryOutputStream(obj)
                st.select_section("code")
                st.emit(ci.build(ops))
            except Exception:  # noqa
                continue
            types = [r.reloc_type for r in obj.relocations]
            if len(types) == 1 and types[0] not in users:
                users[types[0]] = insgen.Instance(ci, ops)
    return users


def link_case(ai, inst, off, base, target, two_labels=False):
    """Link one instance placed at section offset `off`, section at address `base`, symbol at absolute `target`.
    Returns (bytes at the site, events) or raises."""
    from ppci.binutils.objectfile import ObjectFile
    from ppci.binutils.outstream import BinaryOutputStream
    from ppci.binutils.layout import Layout, Memory, Section
    from ppci.binutils.linker import link
    from ppci.arch.generic_instructions import Label, Global
    arch = ai.arch
    obj = ObjectFile(arch)
    st = BinaryOutputStream(obj)
    st.select_section("code")
    st.emit(Global(LABEL))
    sec = st.current_section
    extra = None
    size = len(inst.encode())
    if two_labels:
        toff = target - base
        if toff <= off:
            sec.add_data(bytes(toff))
            st.emit(Label(LABEL))
            sec.add_data(bytes(off - toff))
            st.emit(inst.build())
        else:
            sec.add_data(bytes(off))
            st.emit(inst.build())
            sec.add_data(bytes(toff - off - size))
            st.emit(Label(LABEL))
    else:
        sec.add_data(bytes(off))
        st.emit(inst.build())
        extra = {LABEL: target}
    sec.add_data(bytes(8))
    layout = Layout()
    mem = Memory("mem")
    mem.location = base
    mem.size = 0x100000
    mem.add_input(Section("code"))
    layout.add_memory(mem)
    del EVENTS[:]
    out = link([obj], layout=layout, extra_symbols=extra)
    ev = list(EVENTS)
    sec2 = out.get_section("code")
    data = sec2.data
    tval = out.get_symbol_id_value(out.get_symbol(LABEL).id)
    return bytes(data[off:off + size]), ev, sec2.address + off, tval


def reloc_values():
    vs = set()
    for k in range(0, 34):
        pw = 1 << k
        for d in (0, 1, -1, 2, -2, 4, -4):
            vs.add(pw + d)
            vs.add(-(pw + d))
    vs.update(range(-9, 10))
    vs.update((12, 16, 24, 100, -12, -16, -24, -100, 254, 255, 256, 257, 258, 510, 1022, 1023, 2046, 4094))
    return sorted(vs, key=lambda v: (abs(v), v < 0))


def classify_reloc(ai, inst):
    """'pcrel' | 'abs' | None, decided by behaviour: which of (site, target) moves change the linked bytes."""
    try:
        b1 = link_case(ai, inst, 0, 0x1000, 0x1040)[0]
        b2 = link_case(ai, inst, 0, 0x3000, 0x3040)[0]
        b3 = link_case(ai, inst, 0x20, 0x1000, 0x1040)[0]
        b4 = link_case(ai, inst, 0, 0x1000, 0x1050)[0]
    except Exception:  # noqa
        return None
    if b4 == b1:
        return None
    if b1 == b2 and b1 != b3:
        return "pcrel"
    if b1 == b3 and b1 != b2:
        return "abs"
    return None


def field_read(ai, rname, data):
    """(raw value, width) of the relocation's own token field in the linked bytes (weak read-back), or None."""
    rcls = ai.arch.isa.relocation_map[rname]
    if rcls.token is None or rcls.field is None:
        return None
    size = rcls.token.Info.size // 8
    if len(data) < size:
        return None
    prop = None
    for klass in rcls.token.__mro__:
        if rcls.field in klass.__dict__:
            prop = klass.__dict__[rcls.field]
            break
    if prop is None or not hasattr(prop, "_bitsize"):
        return None
    tok = rcls.token.from_data(bytes(data[:size]))
    return getattr(tok, rcls.field), prop._bitsize


def judge_reloc(p, ai, rname, inst, tier, only=None):
    """All cases of one relocation type.  only=(x, off, two_labels) restricts to one case (replay)."""
    install_tracer()
    flags = LLVM.get(ai.name)
    if inst.cls.__module__ == "ppci.arch.data_instructions":
        flags = None     # data directives are not instructions: own-field read-back only
    kind = classify_reloc(ai, inst)
    name = "%s:%s" % (ai.name, rname)
    if kind is None:
        p.collect("unclassified_relocations", name + " (neither pc-relative nor absolute by behaviour)")
        return
    size = len(inst.encode())
    wide = ai.name.startswith("x86_64")

    def run(x, off, two=False):
        """x: symbol address (abs) or distance symbol - site (pcrel), as requested.
        -> (status, bytes | exception name, events, actual x after linking)"""
        if two:
            base = 0x1000
            if kind == "abs":
                site_off, target = off, x
            else:
                site_off = off + ((-x + 7) // 8) * 8 if x < 0 else off
                target = base + site_off + x
            toff = target - base
            if toff < 0 or site_off < toff < site_off + size or toff > 0x8000:
                return "skip", None, None, None, None
        else:
            if kind == "abs":
                base, site_off, target = 0x1000, off, x
            else:
                base = 0x1000 if x >= 0 else ((-x + 0x1000) // 0x1000 + 1) * 0x1000
                site_off = off
                target = base + off + x
            if target < 0 or (not wide and (target >= (1 << 32) or base + 0x1000 >= (1 << 32))):
                return "skip", None, None, None, None
        try:
            b, ev, site, tval = link_case(ai, inst, site_off, base, target, two)
        except Exception as e:  # noqa
            return "rejected", type(e).__name__, None, None, None
        # relaxation may have shrunk the instruction and moved a label that follows it: judge the final distance
        return "ok", b, ev, (tval if kind == "abs" else tval - site), tval

    offs = [0, 2] if tier == "quick" else [0, 2, 1, 4]
    cases = []
    if kind == "abs":
        calx = [0x1010, 0x1020, 0x1030, 0x1040, 0x1080]
    else:
        calx = [16, 32, 48, 64, 96]
    if only is not None and only[1] not in offs:
        offs.append(only[1])
    if True:
        for off in offs:
            for x in reloc_values():
                if kind == "abs" and x < 0:
                    continue
                cases.append((x, off, False))
        for d in (2, 3, 4, 6, 8, 12, 16, 31, 32, 33, 64, 126, 128, 130, 254, 256, 258, 1022, 1024, 1026, 2046, 2048, 2050, 4094, 4096, 4098):
            if kind == "abs":
                cases.append((0x1000 + d, 0, True))
            else:
                cases.append((d, 0, True))
                cases.append((-d, 0, True))
    # calibration points first (they are judged like every other case, and anchor the affine maps)
    allc = [(x, 0, False, True) for x in calx] + [(x, off, two, False) for x, off, two in cases]
    results = []
    blobs = []
    for xr, off, two, is_cal in allc:
        st, b, ev, x, tval = run(xr, off, two)
        rec = {"xr": xr, "off": off, "two": two, "cal": is_cal, "st": st, "b": b, "ev": ev, "x": x, "t": tval, "ti": None,
               "og": (off % 4 if not two else 0)}
        if st == "ok" and flags:
            rec["ti"] = len(blobs)
            blobs.append(b)
        results.append(rec)
    texts = llvm_disasm(flags, blobs) if blobs else []
    for c in CRASHES:
        p.collect("reference_decoder_crashes_on", "%s:%s" % (ai.name, c))
    del CRASHES[:]
    # reference: one calibration per text shape, anchored on the points of smallest magnitude
    byskel = {}
    for rec in results:
        if rec["ti"] is not None and texts[rec["ti"]]:
            rec["text"] = texts[rec["ti"]].split(" ; ")[0]
            rec["grp"] = (_loose(tokens(rec["text"])[1]), rec["og"])
            byskel.setdefault(rec["grp"], []).append(rec)
    cals = {}
    for sk, rs in byskel.items():
        pts = {}
        for rec in sorted(rs, key=lambda r: (not r["cal"], abs(r["x"] - (0x1000 if kind == "abs" else 0)), r["x"] < 0)):
            if rec["t"] % 16 == 0:
                pts.setdefault(rec["x"], rec["text"])
            if len(pts) >= 5:
                break
        c = Calib(sorted(pts.items()))
        if c.ok and abs(c.b / c.a) <= 64:
            cals[sk] = c
    # weak: affine map of the relocation's own field, one per site alignment, anchored on small positive distances to aligned targets
    weak = {}
    for og in sorted({r["og"] for r in results}):
        cand = [r for r in results if r["og"] == og and r["st"] == "ok" and r["t"] % 16 == 0 and r["x"] > 0]
        cand.sort(key=lambda r: (not r["cal"], r["x"]))
        fr = []
        for r in cand[:6]:
            f = field_read(ai, rname, _site_bytes(ai, rname, inst, r["b"]))
            if f is not None:
                fr.append((r["x"], f))
        if len({x for x, _ in fr}) >= 3:
            (x1, (r1, _)), (x2, (r2, _)) = fr[0], [q for q in fr if q[0] != fr[0][0]][0]
            a = Fraction(r2 - r1, x2 - x1)
            b0 = r1 - a * x1
            if a != 0 and all(a * x + b0 == r for x, (r, _) in fr):
                weak[og] = (a, b0)
    wa = True if weak else None
    if not cals and wa is None:
        p.collect("unclassified_relocations", name + " (reference text not calibratable; own field not affine or custom apply)")
        return
    p.count("relocations")
    pending = []
    for rec in results:
        st, b, ev, x, xr, off, two = rec["st"], rec["b"], rec["ev"], rec["x"], rec["xr"], rec["off"], rec["two"]
        if st == "skip" or rec["cal"]:
            continue
        if only is not None and (xr, off, two) != tuple(only):
            continue
        p.add()
        if st == "rejected":
            p.count("rejected")
            p.outcome((ai.name, rname, "rejected", size_class(xr), xr % 4))
            continue
        wit = {"kind": "reloc", "arch": ai.name, "reloc": rname, "inst": inst.witness(), "x": str(xr), "off": off, "two": two}
        done = False
        if "text" in rec:
            cal = cals.get(rec["grp"])
            if cal is not None:
                s2, d = cal.read(rec["text"])
                if s2 == "ok":
                    done = True
                    if d == x:
                        p.count("accepted_exact_reference")
                        p.outcome((ai.name, rname, "exact", size_class(x), x % 4))
                    else:
                        pending.append((rec, cal, d, wit))
            if not done:
                p.count("reference_shape")
        if done:
            continue
        fr1 = field_read(ai, rname, _site_bytes(ai, rname, inst, b)) if rec["og"] in weak else None
        if fr1 is None:
            p.count("unclassified")
            continue
        r, n = fr1
        wa, wb = weak[rec["og"]]
        e = wa * x + wb
        if e.denominator != 1:
            reloc_report(p, ai, rname, kind, x, off, Fraction(r - wb) / wa, ev, b, "own %d-bit field holds %d" % (n, r), wit, weak=True, unaligned=True)
        elif int(e) % (1 << n) != r:
            p.count("unclassified")       # a wrong field value is C11's business
        elif -(1 << (n - 1)) <= int(e) < (1 << n):
            p.count("accepted_representable_weak")
            p.outcome((ai.name, rname, "weak-ok", size_class(x), x % 4))
        else:
            reloc_report(p, ai, rname, kind, x, off, Fraction(r - wb) / wa, ev, b, "own %d-bit field holds %d, needed %d" % (n, r, int(e)), wit, weak=True)


    # the reference may print a signed field unsigned (m68k displacements): excused only if the reference assembler turns the text
    # with the true value into the very same bytes
    if pending:
        subs = [cal.substitute(rec["text"], rec["x"]) or "" for rec, cal, d, wit in pending]
        asm = llvm_asm(flags, subs)
        for (rec, cal, d, wit), a in zip(pending, asm):
            x = rec["x"]
            if a is not None and abs(x) < (1 << 63) and rec["b"][:len(a)] == a:
                p.count("accepted_same_instruction_per_reference_assembler")
                p.outcome((ai.name, rname, "same-instruction", size_class(x), x % 4))
                continue
            reloc_report(p, ai, rname, kind, x, rec["off"], d, rec["ev"], rec["b"], "llvm-mc decodes %r" % rec["text"], wit, weak=False)


def _site_bytes(ai, rname, inst, b):
    """The bytes the relocation's token covers inside the instruction bytes b."""
    from ppci.binutils.objectfile import ObjectFile
    from ppci.binutils.outstream import BinaryOutputStream
    key = (ai.name, rname, inst.cid)
    if key not in _ROFF:
        obj = ObjectFile(ai.arch)
        st = BinaryOutputStream(obj)
        st.select_section("code")
        st.emit(inst.build())
        _ROFF[key] = obj.relocations[0].offset
    o = _ROFF[key]
    return b[o:]


_ROFF = {}


def reloc_report(p, ai, rname, kind, x, off, d, events, b, seen, wit, weak, unaligned=False):
    rcls = ai.arch.isa.relocation_map[rname]
    dd = int(d) if d.denominator == 1 else float(d)
    what_kind = relation(x, d)
    if unaligned or d.denominator != 1 or 0 < abs(x - d) < 8:
        what_kind = "drops-low-bits"
    key = None
    for e in events or ():
        if e[0] == "wn" and e[2] >= (1 << (e[1] - 1)) and what_kind != "drops-low-bits":
            key = "wrap_negative/accepts-unsigned-range" if e[2] < (1 << e[1]) else "wrap_negative/accepts-above-unsigned-max"
    if key is None:
        key = "reloc/%s/%s" % (rcls.__name__, what_kind if what_kind == "drops-low-bits" else "wraps")
    if weak:
        p.count("violations_weak_readback")
    p.collect("affected:" + key, "%s:%s" % (ai.name, rname))
    var = "symbol address" if kind == "abs" else "distance symbol - site"
    p.violation(key, "%s relocation %s (%s): %s = %d accepted (site offset %d, bytes %s) but it reads back as %s (%s)%s"
                % (ai.name, rname, rcls.__name__, var, x, off, b.hex(), dd, seen, " [weak read-back]" if weak else ""), wit)
    p.outcome((ai.name, rname, what_kind, size_class(x), x % 4))


def reloc_worker(p, shard, tier):
    from vf.gen import insgen
    for an, rname, w in shard:
        ai = insgen.get_arch_info(an)
        inst = insgen.from_witness(w)
        judge_reloc(p, ai, rname, inst, tier)


# ------------------------------------------------------------------ driver

def run(ctx):
    from vf.gen import insgen
    archs = insgen.arch_names()
    if os.environ.get("VF_ARCHS"):
        archs = tuple(a for a in archs if a in os.environ["VF_ARCHS"].split(","))
        ctx.cap("VF_ARCHS=%s restricts the architectures (development aid)" % os.environ["VF_ARCHS"])
    ctx.note("archs", list(archs))
    ctx.note("reference_decoder_archs", sorted(LLVM))
    ctx.note("weak_readback_only_archs", [a for a in archs if a not in LLVM])
    items = []
    for an in archs:
        ai = insgen.get_arch_info(an)
        for ci in ai.classes:
            if any(_has_int(s) for s in ci.operands):
                items.append((an, ci.cid))
    ctx.note("classes_with_integer_slots", len(items))
    ctx.pmap(operand_worker, items)
    # relocations
    ritems = []
    seen = set()
    missing = []
    for an in archs:
        ai = insgen.get_arch_info(an)
        users = reloc_users(ai)
        for rname, rcls in sorted(ai.arch.isa.relocation_map.items()):
            if rcls in seen:
                continue
            if rname in PARTIAL_RELOCS:
                seen.add(rcls)
                ctx.collect("partial_relocations_excluded", "%s:%s" % (an, rname))
                continue
            if rname not in users:
                missing.append("%s:%s" % (an, rname))
                continue
            seen.add(rcls)
            ritems.append((an, rname, users[rname].witness()))
    have = {r for _, r, _ in ritems}
    ctx.note("relocations_without_single_user_instruction", sorted(m for m in missing if m.split(":")[-1] not in have))
    ctx.note("relocation_types_checked", len(ritems))
    ctx.pmap(reloc_worker, ritems, extra=(ctx.tier,))
    affected = {k[len("affected:"):]: sorted(v) for k, v in ctx.sets.items() if k.startswith("affected:")}
    for k in list(ctx.sets):
        if k.startswith("affected:"):
            del ctx.sets[k]
    ctx.note("affected_per_key", affected)
    ctx.sample({"note": "boundary set for n=12", "values": insgen.boundary_values(12)})


def _has_int(spec):
    if spec.kind == "i":
        return True
    if spec.kind == "c":
        return any(_has_int(s) for o in spec.options for s in o.operands)
    return False


def replay(w):
    from vf import core
    from vf.gen import insgen
    p = core.Partial()
    ai = insgen.get_arch_info(w["arch"])
    if w["kind"] == "ins":
        ci = ai.by_cid[w["cls"]]
        io = insgen.IntOperand()
        io.ci = ci
        io.base = insgen.from_json(w["ops"])
        io.path = tuple(w["path"])
        io.name = ci.slot_name(io.base, io.path)
        io.info = ci.probe_int(io.base, io.path)
        io.field = insgen.static_field(ci, io.base, io.path)
        judge_operands(p, ai, [io], values_of=lambda _io: [int(w["v"])])
    else:
        inst = insgen.from_witness(w["inst"])
        judge_reloc(p, ai, w["reloc"], inst, "quick", only=(int(w["x"]), int(w["off"]), bool(w["two"])))
    if p.violations:
        k = sorted(p.violations)[0]
        return True, "[%s] %s" % (k, p.violations[k][1])
    return False, "rejected or read back exactly (%s)" % dict(p.counters)
