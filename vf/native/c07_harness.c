/* C07 native executor: runs ONE x86-64 instruction on the host CPU from a fully specified
 * machine state (16 GPRs including rsp, RFLAGS, xmm0-15) and reports the state afterwards.
 *
 * Built once per check run by vf/checks/c07.py (gcc -O2 -static -no-pie) into the scratch dir.
 *
 * Layout (fixed addresses, so that Python can compute pointers):
 *   DATA_BASE  RW  DATA_SIZE bytes   the only memory an instruction under test may touch
 *   CODE_BASE  RWX 2 pages           page 0: stub = [load state][32-byte instruction slot][store state][ret]
 *                                    page 1: the state block the stub loads from / stores to
 * The stub swaps rsp too (the real rsp is parked in the state page); signal handlers run on an
 * alternate stack, so a garbage rsp is harmless.  SIGSEGV/SIGILL/SIGFPE/SIGBUS/SIGTRAP inside the
 * stub end the run with status = signal number; a run hit by the CPU-time tick (SIGVTALRM) is repeated,
 * three hits in a row end it with status = SIGVTALRM (non-terminating instruction).  After setup the process enters seccomp strict mode
 * (read/write/exit/sigreturn only), so executed bytes cannot do I/O.
 *
 * Protocol: binary little-endian records on stdin/stdout, see struct definitions below.
 *   op 1 CHECK : base states + declared masks -> per base state: status, bit sets of registers that
 *                changed outside the allowed mask, bit sets of registers whose perturbation (only bits
 *                outside the declared-read mask) changed a declared output / memory / the fault status.
 *   op 2 RAW   : one state -> status, final state, list of changed 8-byte memory words.
 */
#define _GNU_SOURCE
#include <stdint.h>
#include <stdlib.h>
#include <string.h>
#include <signal.h>
#include <setjmp.h>
#include <unistd.h>
#include <errno.h>
#include <sys/mman.h>
#include <sys/time.h>
#include <sys/prctl.h>
#include <sys/syscall.h>
#include <linux/seccomp.h>

#define DATA_BASE 0x5A5A12340000ULL
#define DATA_SIZE 0x4000
#define CODE_BASE 0x5B5B00000000ULL
#define CODE_SIZE 0x2000
#define MAXCODE 32
#define MAXPATCH 4
#define MAXDIFF 32

struct state {            /* 400 bytes */
    uint64_t g[16];       /* rax rcx rdx rbx rsp rbp rsi rdi r8..r15 (hardware numbering) */
    uint64_t flags;
    uint64_t mxcsr;
    uint64_t x[16][2];
};

struct patch { uint32_t off; uint32_t pad; uint64_t val; };

struct masks {
    uint64_t g[16];
    uint64_t x[16][2];
};

struct base_in {
    struct state st;
    uint32_t npatch, pad;
    struct patch patches[MAXPATCH];
};

struct check_req {
    uint32_t op, id, codelen, nstates;
    uint8_t code[MAXCODE];
    struct masks rmask;    /* bits declared read (never perturbed) */
    struct masks amask;    /* bits allowed to change */
    struct masks omask;    /* bits that are declared outputs (compared across perturbations) */
    struct base_in base[2];
};

struct base_out {
    uint32_t status;       /* 0 ok, else signal number */
    uint32_t nruns;
    uint32_t chg_g, chg_x; /* registers changed outside amask */
    uint32_t dep_g, dep_x; /* registers whose perturbation changed outputs/memory/status */
    uint32_t memchanged, pad;   /* pad: diagnostic - how the last dependence showed (0x1ss fault ss, 0x200 memory, 0x3jj register jj) */
    uint64_t hash;         /* hash of the declared outputs + memory-changed flag (behaviour diversity) */
};

struct check_resp {
    uint32_t op, id;
    struct base_out out[2];
};

struct raw_req {
    uint32_t op, id, codelen, pad;
    uint8_t code[MAXCODE];
    struct base_in base;
};

struct memdiff { uint32_t off; uint32_t pad; uint64_t val; };

struct raw_resp {
    uint32_t op, id, status, ndiff;
    struct state st;
    struct memdiff diff[MAXDIFF];
};

struct hello {
    uint64_t magic, data_base, data_size, ins_addr, maxcode, seccomp;
};

/* ------------------------------------------------------------------ the stub */

#define S(off) "c07_state+" #off "(%rip)"
#define LDX(n, off) "  movdqu " S(off) ", %xmm" #n "\n"
#define STX(n, off) "  movdqu %xmm" #n ", " S(off) "\n"
#define LDG(r, off) "  mov " S(off) ", %" #r "\n"
#define STG(r, off) "  mov %" #r ", " S(off) "\n"

asm(
".pushsection .rodata,\"a\"\n"
".balign 4096\n"
".globl c07_blob\n"
"c07_blob:\n"
"  mov %rsp, c07_save+48(%rip)\n"
"  ldmxcsr " S(136) "\n"
"  pushq " S(128) "\n"
"  popfq\n"
LDX(0,144) LDX(1,160) LDX(2,176) LDX(3,192) LDX(4,208) LDX(5,224) LDX(6,240) LDX(7,256)
LDX(8,272) LDX(9,288) LDX(10,304) LDX(11,320) LDX(12,336) LDX(13,352) LDX(14,368) LDX(15,384)
LDG(rax,0) LDG(rcx,8) LDG(rdx,16) LDG(rbx,24) LDG(rbp,40) LDG(rsi,48) LDG(rdi,56)
LDG(r8,64) LDG(r9,72) LDG(r10,80) LDG(r11,88) LDG(r12,96) LDG(r13,104) LDG(r14,112) LDG(r15,120)
LDG(rsp,32)
".globl c07_ins\n"
"c07_ins:\n"
"  .fill 32,1,0x90\n"
STG(rax,0) STG(rcx,8) STG(rdx,16) STG(rbx,24) STG(rsp,32) STG(rbp,40) STG(rsi,48) STG(rdi,56)
STG(r8,64) STG(r9,72) STG(r10,80) STG(r11,88) STG(r12,96) STG(r13,104) STG(r14,112) STG(r15,120)
"  mov c07_save+48(%rip), %rsp\n"
"  pushfq\n"
"  popq " S(128) "\n"
STX(0,144) STX(1,160) STX(2,176) STX(3,192) STX(4,208) STX(5,224) STX(6,240) STX(7,256)
STX(8,272) STX(9,288) STX(10,304) STX(11,320) STX(12,336) STX(13,352) STX(14,368) STX(15,384)
"  cld\n"
"  ret\n"
".balign 4096\n"
".globl c07_state\n"
"c07_state:\n"
"  .fill 400,1,0\n"
".balign 16\n"
"c07_save:\n"
"  .fill 64,1,0\n"
".globl c07_blob_end\n"
"c07_blob_end:\n"
".popsection\n"
);

extern const uint8_t c07_blob[], c07_ins[], c07_state[], c07_blob_end[];

static uint8_t *DATA = (uint8_t *)DATA_BASE;
static uint8_t *CODE = (uint8_t *)CODE_BASE;
static uint8_t *INS;
static struct state *ST;
static void (*STUB)(void);

static uint8_t pristine[DATA_SIZE] __attribute__((aligned(64)));
static uint8_t refbuf[DATA_SIZE] __attribute__((aligned(64)));
static uint8_t basemem[DATA_SIZE] __attribute__((aligned(64)));
static uint8_t altstack[65536] __attribute__((aligned(64)));

static sigjmp_buf env;
static volatile sig_atomic_t in_stub;
static volatile int fault_sig;
static const uint8_t *cur_ref;   /* what DATA must look like before a run */

static void die(int code) { syscall(SYS_exit, code); for (;;) ; }

static void on_fault(int sig, siginfo_t *si, void *uc)
{
    (void)si; (void)uc;
    if (in_stub) {
        in_stub = 0;
        fault_sig = sig;
        siglongjmp(env, 1);
    }
    die(100 + sig);
}

static void on_tick(int sig, siginfo_t *si, void *uc)
{
    (void)si; (void)uc;
    /* never return into the stub: its rsp may be non-canonical (a perturbed value), and sigreturn to such a frame
       raises a spurious SIGSEGV.  The interrupted run is abandoned and repeated by run_once(). */
    if (in_stub) {
        in_stub = 0;
        fault_sig = sig;
        siglongjmp(env, 1);
    }
}

static void read_all(void *buf, size_t n)
{
    uint8_t *p = buf;
    while (n) {
        ssize_t r = read(0, p, n);
        if (r == 0) die(0);
        if (r < 0) { if (errno == EINTR) continue; die(3); }
        p += r; n -= (size_t)r;
    }
}

static void write_all(const void *buf, size_t n)
{
    const uint8_t *p = buf;
    while (n) {
        ssize_t r = write(1, p, n);
        if (r < 0) { if (errno == EINTR) continue; die(4); }
        p += r; n -= (size_t)r;
    }
}

static uint64_t mix(uint64_t z)
{
    z += 0x9E3779B97F4A7C15ULL;
    z = (z ^ (z >> 30)) * 0xBF58476D1CE4E5B9ULL;
    z = (z ^ (z >> 27)) * 0x94D049BB133111EBULL;
    return z ^ (z >> 31);
}

/* every 8-byte word: low half a normal float in [8,16), high half the top of a normal double in [16,32) */
static uint64_t pattern_word(uint32_t i)
{
    uint64_t h = mix(i);
    uint64_t lo = 0x41000000ULL | (h & 0x7FFFFF);
    uint64_t hi = 0x40300000ULL | ((h >> 24) & 0xFFFFF);
    return (hi << 32) | lo;
}

static void install(const uint8_t *code, uint32_t len)
{
    if (len > MAXCODE) len = MAXCODE;
    /* the stub itself is rewritten for every instance: an instruction under test that managed to store into the
       code page (only possible through a code-pointer operand) cannot damage later instances */
    memcpy(CODE, c07_blob, (size_t)(c07_state - c07_blob));
    memcpy(INS, code, len);
    memset(INS + len, 0x90, MAXCODE - len);
}

/* The stub is entered through this wrapper: the compiler keeps every callee-saved register of the C code on the real
   stack (clobber list), out of reach of the code under test; only the real rsp is parked in the state page, and a
   damaged copy of it ends in a fault on `ret`, which is recovered like any other fault. */
static __attribute__((noinline)) void call_stub(void)
{
    void (*f)(void) = STUB;
    __asm__ volatile("push %%rbp\n\tcall *%0\n\tpop %%rbp\n\tcld"
                     : "+a"(f)
                     :
                     : "rcx", "rdx", "rbx", "rsi", "rdi", "r8", "r9", "r10", "r11", "r12", "r13", "r14", "r15",
                       "xmm0", "xmm1", "xmm2", "xmm3", "xmm4", "xmm5", "xmm6", "xmm7", "xmm8", "xmm9", "xmm10",
                       "xmm11", "xmm12", "xmm13", "xmm14", "xmm15", "memory", "cc");
}

static int run_inner(const struct state *in, struct state *out)
{
    memcpy(ST, in, sizeof *in);
    ST->mxcsr = 0x1F80;
    ST->flags = (in->flags & 0x8D5) | 0x202;   /* only CF PF AF ZF SF OF are taken from the request */
    if (sigsetjmp(env, 0)) {
        return fault_sig ? fault_sig : -1;
    }
    in_stub = 1;
    call_stub();
    in_stub = 0;
    memcpy(out, ST, sizeof *out);
    return 0;
}

/* A run interrupted by the CPU-time tick is undone and repeated (it lasts well under a microsecond, the tick period is
   250 ms): three interruptions in a row mean the instruction does not terminate. */
static int run_ticksafe(const struct state *in, struct state *out)
{
    int attempt, st = 0;
    for (attempt = 0; attempt < 3; attempt++) {
        st = run_inner(in, out);
        if (st != SIGVTALRM) return st;
        memcpy(DATA, cur_ref, DATA_SIZE);
    }
    return st;
}

/* returns 0 or the signal number.  The machine is deterministic, so a genuine fault repeats; a fault that does not repeat
   is an artefact of the environment (seen on this KVM guest: a rare spurious #UD while rsp holds a non-canonical value)
   and the clean second run is taken. */
static int run_once(const struct state *in, struct state *out)
{
    int st = run_ticksafe(in, out);
    if (st != 0) {
        int st2;
        memcpy(DATA, cur_ref, DATA_SIZE);
        st2 = run_ticksafe(in, out);
        if (st2 != st) {
            memcpy(DATA, cur_ref, DATA_SIZE);
            st2 = run_ticksafe(in, out);       /* third opinion */
        }
        st = st2;
    }
    return st;
}

static const uint8_t *prepare_ref(const struct base_in *b)
{
    /* DATA equals pristine on entry */
    uint32_t i;
    if (b->npatch == 0) return pristine;
    memcpy(refbuf, pristine, DATA_SIZE);
    for (i = 0; i < b->npatch && i < MAXPATCH; i++) {
        uint32_t off = b->patches[i].off;
        if (off <= DATA_SIZE - 8) {
            memcpy(refbuf + off, &b->patches[i].val, 8);
            memcpy(DATA + off, &b->patches[i].val, 8);
        }
    }
    return refbuf;
}

static const uint64_t PG[3] = { 0xA5A5A5A5A5A5A5A5ULL, 0x3C3C3C3C3C3CC3C3ULL, 0x0000000000000048ULL };
static const uint64_t PX[3][2] = {
    { 0xA5A5A5A5A5A5A5A5ULL, 0x5A5A5A5A5A5A5A5AULL },
    { 0x3C3C3C3C3C3CC3C3ULL, 0xC3C3C3C33C3C3C3CULL },
    { 0x0008000000080000ULL, 0x0008000000080000ULL },   /* stays a normal float/double */
};

static void do_check(const struct check_req *rq, struct check_resp *rs)
{
    uint32_t s;
    memset(rs, 0, sizeof *rs);
    rs->op = 1; rs->id = rq->id;
    install(rq->code, rq->codelen);
    for (s = 0; s < rq->nstates && s < 2; s++) {
        const struct base_in *b = &rq->base[s];
        struct base_out *o = &rs->out[s];
        struct state b_out, p_in, p_out;
        const uint8_t *ref = prepare_ref(b);
        int st, changed, r, k;
        cur_ref = ref;
        uint64_t h = 1469598103934665603ULL;

        st = run_once(&b->st, &b_out);
        o->nruns = 1;
        changed = memcmp(DATA, ref, DATA_SIZE) != 0;
        if (changed) { memcpy(basemem, DATA, DATA_SIZE); memcpy(DATA, ref, DATA_SIZE); }
        o->status = (uint32_t)st;
        if (st != 0) {
            if (ref != pristine) memcpy(DATA, pristine, DATA_SIZE);
            continue;
        }
        o->memchanged = (uint32_t)changed;
        for (r = 0; r < 16; r++) {
            if ((b->st.g[r] ^ b_out.g[r]) & ~rq->amask.g[r]) o->chg_g |= 1u << r;
            if (((b->st.x[r][0] ^ b_out.x[r][0]) & ~rq->amask.x[r][0]) ||
                ((b->st.x[r][1] ^ b_out.x[r][1]) & ~rq->amask.x[r][1])) o->chg_x |= 1u << r;
            h = (h ^ (b_out.g[r] & rq->omask.g[r])) * 1099511628211ULL;
            h = (h ^ (b_out.x[r][0] & rq->omask.x[r][0])) * 1099511628211ULL;
            h = (h ^ (b_out.x[r][1] & rq->omask.x[r][1])) * 1099511628211ULL;
        }
        h = (h ^ (uint64_t)changed) * 1099511628211ULL;
        o->hash = h;
        /* perturb every register in the bits that are not declared read */
        for (r = 0; r < 32; r++) {
            int isx = r >= 16, q = r & 15;
            uint64_t u0, u1, last0 = 0, last1 = 0;
            if (!isx) { u0 = ~rq->rmask.g[q]; u1 = 0; }
            else { u0 = ~rq->rmask.x[q][0]; u1 = ~rq->rmask.x[q][1]; }
            if (!u0 && !u1) continue;
            for (k = 0; k < 3; k++) {
                uint64_t d0, d1;
                int pst, c2, differ = 0, j;
                /* rsp is only perturbed inside the canonical user range: with a non-canonical rsp in flight this machine
                   (KVM guest) occasionally reports a spurious #UD on the instruction under test */
                if (!isx) { d0 = PG[k] & u0; d1 = 0; if (q == 4) d0 &= 0x00007FFFFFFFFFFFULL; }
                else { d0 = PX[k][0] & u0; d1 = PX[k][1] & u1; }
                if (!d0 && !d1) continue;
                if (k && d0 == last0 && d1 == last1) continue;
                last0 = d0; last1 = d1;
                p_in = b->st;
                if (!isx) p_in.g[q] ^= d0;
                else { p_in.x[q][0] ^= d0; p_in.x[q][1] ^= d1; }
                pst = run_once(&p_in, &p_out);
                o->nruns++;
                c2 = memcmp(DATA, ref, DATA_SIZE) != 0;
                if (pst != 0) {
                    differ = 1;
                    o->pad = 0x100u | (uint32_t)(pst & 0xFF);
                } else {
                    if (changed || c2) differ = memcmp(DATA, changed ? basemem : ref, DATA_SIZE) != 0;
                    if (differ) o->pad = 0x200u;
                    for (j = 0; j < 16 && !differ; j++) {
                        if ((p_out.g[j] ^ b_out.g[j]) & rq->omask.g[j]) differ = 1;
                        if ((p_out.x[j][0] ^ b_out.x[j][0]) & rq->omask.x[j][0]) differ = 1;
                        if ((p_out.x[j][1] ^ b_out.x[j][1]) & rq->omask.x[j][1]) differ = 1;
                        if (differ) o->pad = 0x300u | (uint32_t)j;
                    }
                }
                if (c2) memcpy(DATA, ref, DATA_SIZE);
                if (differ) {
                    if (!isx) o->dep_g |= 1u << q; else o->dep_x |= 1u << q;
                    break;      /* dependence established: no further perturbation of this register */
                }
            }
        }
        if (ref != pristine) memcpy(DATA, pristine, DATA_SIZE);
    }
}

static void do_raw(const struct raw_req *rq, struct raw_resp *rs)
{
    const uint8_t *ref;
    uint32_t i;
    memset(rs, 0, sizeof *rs);
    rs->op = 2; rs->id = rq->id;
    install(rq->code, rq->codelen);
    ref = prepare_ref(&rq->base);
    cur_ref = ref;
    rs->st = rq->base.st;
    rs->status = (uint32_t)run_once(&rq->base.st, &rs->st);
    for (i = 0; i < DATA_SIZE; i += 8) {
        if (memcmp(DATA + i, ref + i, 8)) {
            if (rs->ndiff < MAXDIFF) {
                rs->diff[rs->ndiff].off = i;
                memcpy(&rs->diff[rs->ndiff].val, DATA + i, 8);
            }
            rs->ndiff++;
        }
    }
    memcpy(DATA, pristine, DATA_SIZE);
}

int main(void)
{
    struct sigaction sa;
    stack_t ss;
    struct itimerval it;
    struct hello hi;
    static union { struct check_req c; struct raw_req r; uint32_t op; } rq;
    static struct check_resp crs;
    static struct raw_resp rrs;
    size_t blob = (size_t)(c07_blob_end - c07_blob);
    uint32_t i;
    int sigs[] = { SIGSEGV, SIGILL, SIGFPE, SIGBUS, SIGTRAP };

    if (blob > CODE_SIZE) die(10);
    if (mmap(DATA, DATA_SIZE, PROT_READ | PROT_WRITE, MAP_PRIVATE | MAP_ANONYMOUS | MAP_FIXED_NOREPLACE, -1, 0) != DATA) die(11);
    if (mmap(CODE, CODE_SIZE, PROT_READ | PROT_WRITE | PROT_EXEC, MAP_PRIVATE | MAP_ANONYMOUS | MAP_FIXED_NOREPLACE, -1, 0) != CODE) die(12);
    memcpy(CODE, c07_blob, blob);
    INS = CODE + (c07_ins - c07_blob);
    ST = (struct state *)(CODE + (c07_state - c07_blob));
    STUB = (void (*)(void))CODE;
    for (i = 0; i < DATA_SIZE / 8; i++) {
        uint64_t w = pattern_word(i);
        memcpy(pristine + 8 * i, &w, 8);
    }
    memcpy(DATA, pristine, DATA_SIZE);

    ss.ss_sp = altstack; ss.ss_size = sizeof altstack; ss.ss_flags = 0;
    if (sigaltstack(&ss, NULL)) die(13);
    memset(&sa, 0, sizeof sa);
    sa.sa_sigaction = on_fault;
    sa.sa_flags = SA_SIGINFO | SA_ONSTACK | SA_NODEFER;
    sigemptyset(&sa.sa_mask);
    for (i = 0; i < sizeof sigs / sizeof sigs[0]; i++)
        if (sigaction(sigs[i], &sa, NULL)) die(14);
    sa.sa_sigaction = on_tick;
    if (sigaction(SIGVTALRM, &sa, NULL)) die(15);
    it.it_interval.tv_sec = 0; it.it_interval.tv_usec = 250000;
    it.it_value = it.it_interval;
    if (setitimer(ITIMER_VIRTUAL, &it, NULL)) die(16);

    hi.magic = 0x3730436676ULL;
    hi.data_base = DATA_BASE; hi.data_size = DATA_SIZE;
    hi.ins_addr = (uint64_t)INS; hi.maxcode = MAXCODE;
    hi.seccomp = prctl(PR_SET_SECCOMP, SECCOMP_MODE_STRICT) == 0;
    write_all(&hi, sizeof hi);

    for (;;) {
        read_all(&rq.op, 4);
        if (rq.op == 1) {
            read_all((uint8_t *)&rq.c + 4, sizeof rq.c - 4);
            do_check(&rq.c, &crs);
            write_all(&crs, sizeof crs);
        } else if (rq.op == 2) {
            read_all((uint8_t *)&rq.r + 4, sizeof rq.r - 4);
            do_raw(&rq.r, &rrs);
            write_all(&rrs, sizeof rrs);
        } else {
            die(rq.op == 0 ? 0 : 5);
        }
    }
}
