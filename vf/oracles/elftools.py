"""Adapters for the independent ELF readers of the sandbox: llvm-readobj (JSON + LLVM-style relocation dump), GNU readelf, GNU objdump -s.

Every adapter takes a list of file paths (one process per batch; diagnostics are attributed to their file, see each adapter) and returns
{path: view}.  A view is plain data:

    {"ok": bool,               # the reader accepted the file without any warning / error
     "diag": str,              # its diagnostics (stderr), empty when ok
     "header": {"class": 32|64, "data": "LE"|"BE", "type": int, "machine": int, "entry": int, "phoff", "shoff", "ehsize", "phentsize", "phnum",
                "shentsize", "shnum", "shstrndx"},
     "sections": [{"index", "name", "type": int|str, "flags": int|str, "addr", "offset", "size", "link", "info", "align", "entsize"}],
     "symbols":  [{"index", "name", "value", "size", "bind": "LOCAL"|"GLOBAL"|"WEAK"|..., "type": "NOTYPE"|"OBJECT"|"FUNC"|..., "shndx": int|"UND"|"ABS"|"COM"}],
     "relocs":   [{"section": name of the relocation section, "offset", "type": int, "symidx": int|None, "symname": str, "addend": signed int}],
     "phdrs":    [{"type": "LOAD"|..., "offset", "vaddr", "paddr", "filesz", "memsz", "flags": int|str, "align"}]}

Fields a reader does not print are absent.  llvm-readobj 14 prints relocations in LLVM style even under --elf-output-style=JSON (which breaks
the JSON), so relocations are fetched by a second call (`-r --expand-relocs`)."""
import re
import json
import subprocess

LLVM_BIND = {"Local": "LOCAL", "Global": "GLOBAL", "Weak": "WEAK"}
LLVM_TYPE = {"None": "NOTYPE", "Object": "OBJECT", "Function": "FUNC", "Section": "SECTION", "File": "FILE", "Common": "COMMON", "TLS": "TLS"}
LLVM_ETYPE = {"None": 0, "Relocatable": 1, "Executable": 2, "SharedObject": 3, "Core": 4}


def _run(args):
    r = subprocess.run(args, capture_output=True, text=True, errors="replace")
    return r.returncode, r.stdout, r.stderr


def _batched(paths, one_batch):
    """Run one_batch(paths) -> {path: view} | None (None: diagnostics / failure somewhere: fall back to one file at a time)."""
    paths = list(paths)
    if not paths:
        return {}
    res = one_batch(paths, True)
    if res is not None:
        return res
    out = {}
    for p in paths:
        out.update(one_batch([p], False))
    return out


# ------------------------------------------------------------------ llvm-readobj

def _llvm_json_view(d):
    v = {"ok": True, "diag": ""}
    h = d.get("ElfHeader", {})
    ident = h.get("Ident", {})
    et = str(h.get("Type", ""))
    m = re.search(r"\(0x([0-9A-Fa-f]+)\)", et)
    v["header"] = {
        "class": {1: 32, 2: 64}.get(ident.get("Class", {}).get("RawValue")),
        "data": {1: "LE", 2: "BE"}.get(ident.get("DataEncoding", {}).get("RawValue")),
        "type": int(m.group(1), 16) if m else None,
        "machine": h.get("Machine", {}).get("RawValue"),
        "entry": h.get("Entry"), "phoff": h.get("ProgramHeaderOffset"), "shoff": h.get("SectionHeaderOffset"),
        "ehsize": h.get("HeaderSize"), "phentsize": h.get("ProgramHeaderEntrySize"), "phnum": h.get("ProgramHeaderCount"),
        "shentsize": h.get("SectionHeaderEntrySize"), "shnum": int(h.get("SectionHeaderCount", 0)), "shstrndx": int(h.get("StringTableSectionIndex", 0)),
    }
    v["sections"] = []
    for s in d.get("Sections", []):
        s = s["Section"]
        v["sections"].append({"index": s["Index"], "name": s["Name"]["Value"], "type": s["Type"]["RawValue"], "flags": s["Flags"]["RawFlags"],
                              "addr": s["Address"], "offset": s["Offset"], "size": s["Size"], "link": s["Link"], "info": s["Info"],
                              "align": s["AddressAlignment"], "entsize": s["EntrySize"]})
    v["symbols"] = []
    for i, s in enumerate(d.get("Symbols", [])):
        s = s["Symbol"]
        raw = s["Section"]["RawValue"]
        shndx = {0: "UND", 0xFFF1: "ABS", 0xFFF2: "COM"}.get(raw, raw)
        v["symbols"].append({"index": i, "name": s["Name"]["Value"], "value": s["Value"], "size": s["Size"],
                             "bind": LLVM_BIND.get(s["Binding"]["Value"], str(s["Binding"]["Value"])),
                             "type": LLVM_TYPE.get(s["Type"]["Value"], str(s["Type"]["Value"])), "shndx": shndx})
    v["phdrs"] = []
    for ph in d.get("ProgramHeaders", []):
        ph = ph["ProgramHeader"]
        t = ph["Type"]["Value"]
        v["phdrs"].append({"type": t[3:] if t.startswith("PT_") else t, "offset": ph["Offset"], "vaddr": ph["VirtualAddress"], "paddr": ph["PhysicalAddress"],
                           "filesz": ph["FileSize"], "memsz": ph["MemSize"], "flags": ph["Flags"]["RawFlags"], "align": ph["Alignment"]})
    return v


def _parse_llvm_relocs(text):
    """{file: [reloc]} from `llvm-readobj -r --expand-relocs` output."""
    out = {}
    cur = None
    sec = None
    rel = None
    bits = 64
    for line in text.splitlines():
        s = line.strip()
        if s.startswith("File: "):
            cur = out.setdefault(s[6:], [])
        elif s.startswith("AddressSize: "):
            bits = 32 if "32" in s else 64
        elif s.startswith("Section (") and s.endswith("{"):
            m = re.match(r"Section \((\d+)\) (.*) \{$", s)
            sec = m.group(2)
        elif s == "Relocation {":
            rel = {"section": sec}
        elif rel is not None and s.startswith("Offset: "):
            rel["offset"] = int(s[8:], 16)
        elif rel is not None and s.startswith("Type: "):
            m = re.match(r"Type: (.*) \((\d+)\)$", s)
            rel["type"] = int(m.group(2))
            rel["typename"] = m.group(1)
        elif rel is not None and s.startswith("Symbol: "):
            m = re.match(r"Symbol: (.*) \((\d+)\)$", s)
            if m:
                rel["symname"], rel["symidx"] = m.group(1), int(m.group(2))
            else:
                rel["symname"], rel["symidx"] = s[8:], None
        elif rel is not None and s.startswith("Addend: "):
            a = int(s[8:], 16)
            if a >= 1 << (bits - 1):
                a -= 1 << bits
            rel["addend"] = a
        elif s == "}" and rel is not None:
            cur.append(rel)
            rel = None
    return out


def llvm_readobj(paths):
    """Batches; a diagnostic names its file ('path'), a fatal one also stops the run: the named files are marked rejected and the rest is run again."""
    paths = list(paths)
    res = {}
    live = list(paths)
    for _ in range(len(paths) + 2):
        if not live:
            break
        rc, out, err = _run(["llvm-readobj", "--elf-output-style=JSON", "--file-headers", "--sections", "--symbols", "--program-headers"] + live)
        rc2, out2, err2 = _run(["llvm-readobj", "-r", "--expand-relocs"] + live)
        named = {}
        for line in (err + "\n" + err2).splitlines():
            if not line.strip():
                continue
            hit = [p for p in live if "'%s'" % p in line]
            for p in hit:
                named.setdefault(p, []).append(line.strip())
            if not hit:
                named.setdefault(None, []).append(line.strip())
        views = {}
        try:
            for item in json.loads(out):
                for name, d in item.items():
                    views[name] = _llvm_json_view(d)
        except (ValueError, KeyError, TypeError):
            views = None
        rels = _parse_llvm_relocs(out2) if not rc2 else None
        if not named and not rc and not rc2 and views is not None and rels is not None:
            for p in live:
                v = views.get(p) or {"ok": False, "diag": "no output for this file"}
                v["relocs"] = rels.get(p, [])
                res[p] = v
            live = []
            break
        culprits = [p for p in named if p is not None]
        if not culprits:
            if len(live) == 1:
                res[live[0]] = {"ok": False, "diag": "\n".join(named.get(None, [])) or "llvm-readobj exit status %d/%d, output unusable" % (rc, rc2)}
                live = []
                break
            # cannot attribute: one file at a time
            for p in live:
                res.update(llvm_readobj([p]))
            live = []
            break
        for p in culprits:
            res[p] = {"ok": False, "diag": "\n".join(named[p])}
        live = [p for p in live if p not in culprits]
    for p in live:
        res[p] = {"ok": False, "diag": "llvm-readobj: could not be run to completion"}
    return res


# ------------------------------------------------------------------ GNU readelf

_RE_SEC = re.compile(r"^\s*\[\s*(\d+)\]\s(.*?)\s+([A-Z][A-Z_0-9a-z<>:. ]*?)\s+([0-9a-f]{8,16})\s+([0-9a-f]+)\s+([0-9a-f]+)\s+([0-9a-f]+)\s+([A-Za-z]*)\s+(\d+)\s+(\d+)\s+(\d+)\s*$")
_RE_SEC0 = re.compile(r"^\s*\[\s*(\d+)\]\s+(NULL)\s+([0-9a-f]{8,16})\s+([0-9a-f]+)\s+([0-9a-f]+)\s+([0-9a-f]+)\s+([A-Za-z]*)\s+(\d+)\s+(\d+)\s+(\d+)\s*$")
_RE_PH = re.compile(r"^\s+([A-Z_0-9+a-z<>:]+)\s+0x([0-9a-f]+)\s+0x([0-9a-f]+)\s+0x([0-9a-f]+)\s+0x([0-9a-f]+)\s+0x([0-9a-f]+)\s([RWE ]{3})\s+(?:0x)?([0-9a-f]+)\s*$")
_RE_SYM = re.compile(r"^\s*(\d+):\s+([0-9a-f]+)\s+(0x[0-9a-f]+|\d+)\s+(\S+)\s+(\S+)\s+(\S+)(?:\s+\[[^\]]*\])?\s+(\S+)(?:\s(.*))?$")
_RE_REL = re.compile(r"^([0-9a-f]+)\s+([0-9a-f]+)\s+(\S+)\s*(.*)$")


def _parse_readelf(text):
    v = {"ok": True, "diag": "", "header": {}, "sections": [], "symbols": [], "relocs": [], "phdrs": []}
    h = v["header"]
    mode = None
    relsec = None
    for line in text.splitlines():
        s = line.strip()
        if s.startswith("Class:"):
            h["class"] = 64 if "ELF64" in s else 32
        elif s.startswith("Data:"):
            h["data"] = "BE" if "big endian" in s else "LE"
        elif s.startswith("Type:") and mode is None:
            h["type"] = {"REL": 1, "EXEC": 2, "DYN": 3, "CORE": 4, "NONE": 0}.get(s.split()[1], s.split()[1])
        elif s.startswith("Machine:"):
            h["machine_name"] = s[8:].strip()
        elif s.startswith("Entry point address:"):
            h["entry"] = int(s.split()[-1], 16)
        elif s.startswith("Start of program headers:"):
            h["phoff"] = int(s.split()[4])
        elif s.startswith("Start of section headers:"):
            h["shoff"] = int(s.split()[4])
        elif s.startswith("Size of this header:"):
            h["ehsize"] = int(s.split()[4])
        elif s.startswith("Size of program headers:"):
            h["phentsize"] = int(s.split()[4])
        elif s.startswith("Number of program headers:"):
            h["phnum"] = int(s.split()[4])
        elif s.startswith("Size of section headers:"):
            h["shentsize"] = int(s.split()[4])
        elif s.startswith("Number of section headers:"):
            h["shnum"] = int(s.split()[4])
        elif s.startswith("Section header string table index:"):
            h["shstrndx"] = int(s.split()[5])
        elif s.startswith("Section Headers:"):
            mode = "sec"
        elif s.startswith("Program Headers:"):
            mode = "ph"
        elif s.startswith("Key to Flags:") or s.startswith("Section to Segment mapping:"):
            mode = "skip"
        elif s.startswith("Relocation section '"):
            mode = "rel"
            relsec = re.match(r"Relocation section '(.*)' at offset", s).group(1)
        elif s.startswith("Symbol table '"):
            mode = "sym"
        elif s.startswith("There are no ") or not s:
            continue
        elif mode == "sec":
            m = _RE_SEC.match(line)
            if m:
                idx, name, typ, addr, off, size, es, flg, lk, inf, al = m.groups()
            else:
                m = _RE_SEC0.match(line)
                if not m:
                    continue
                idx, typ, addr, off, size, es, flg, lk, inf, al = m.groups()
                name = ""
            v["sections"].append({"index": int(idx), "name": name, "type": typ.strip(), "flags": flg, "addr": int(addr, 16), "offset": int(off, 16),
                                  "size": int(size, 16), "entsize": int(es, 16), "link": int(lk), "info": int(inf), "align": int(al)})
        elif mode == "ph":
            m = _RE_PH.match(line)
            if m:
                t, off, va, pa, fs, ms, fl, al = m.groups()
                v["phdrs"].append({"type": t, "offset": int(off, 16), "vaddr": int(va, 16), "paddr": int(pa, 16), "filesz": int(fs, 16), "memsz": int(ms, 16),
                                   "flags": fl.replace(" ", ""), "align": int(al, 16)})
        elif mode == "sym":
            m = _RE_SYM.match(line)
            if m:
                idx, val, size, typ, bind, vis, ndx, name = m.groups()
                v["symbols"].append({"index": int(idx), "value": int(val, 16), "size": int(size, 0), "type": typ, "bind": bind,
                                     "shndx": int(ndx) if ndx.isdigit() else ndx, "name": name or ""})
        elif mode == "rel":
            m = _RE_REL.match(s)
            if m and not s.startswith("Offset"):
                off, info, tname, rest = m.groups()
                info = int(info, 16)
                wide = len(m.group(2)) > 8
                symidx, rtype = (info >> 32, info & 0xFFFFFFFF) if wide else (info >> 8, info & 0xFF)
                addend = 0
                symname = ""
                ma = re.search(r"(?:^|\s)([+-]) ([0-9a-f]+)$", rest)
                if ma:
                    addend = int(ma.group(2), 16) * (-1 if ma.group(1) == "-" else 1)
                    rest = rest[:ma.start()].strip()
                elif re.match(r"^[0-9a-f]+$", rest.strip()):
                    addend = int(rest.strip(), 16)
                    rest = ""
                parts = rest.split(None, 1)
                if len(parts) == 2:
                    symname = parts[1].strip()
                v["relocs"].append({"section": relsec, "offset": int(off, 16), "type": rtype, "typename": tname, "symidx": symidx, "symname": symname, "addend": addend})
    return v


def _readelf_once(paths):
    ps = paths if len(paths) > 1 else paths * 2
    r = subprocess.run(["readelf", "-hSsrlW"] + ps, stdout=subprocess.PIPE, stderr=subprocess.STDOUT, text=True, errors="replace")
    chunks = {}
    cur = None
    stray = []
    for line in r.stdout.splitlines(True):
        if line.startswith("File: "):
            cur = line[6:].strip()
            chunks[cur] = [[], []]
        elif line.startswith("readelf: "):
            (chunks[cur][1] if cur is not None else stray).append(line.strip())
        elif cur is not None:
            chunks[cur][0].append(line)
    res = {}
    for p in paths:
        text, diags = chunks.get(p, ([], ["no output for this file"]))
        diags = list(diags) + stray
        try:
            v = _parse_readelf("".join(text))
        except Exception as e:  # noqa  (text of a corrupt file)
            v = {"ok": False, "diag": ""}
            diags.append("unparsable readelf output: %r" % (e,))
        if diags:
            v["ok"] = False
            v["diag"] = "\n".join(diags)
        res[p] = v
    return res


def readelf(paths):
    """One process for many files: readelf flushes stdout before it writes a diagnostic, so with stderr merged into stdout every
    `readelf: Warning/Error` line lands inside the chunk of the file it is about (chunks start with `File: <path>`; readelf prints that
    header only when given more than one file, so a single path is passed twice).  GNU readelf 2.40 stops dumping symbols and relocations
    of the files that FOLLOW a corrupt one (its dump flags are not restored), so a file without diagnostics that came after a rejected
    file is read again in a further run; a file with diagnostics is rejected whatever came before it."""
    pending = list(paths)
    res = {}
    for _ in range(len(pending) + 1):
        if not pending:
            break
        got = _readelf_once(pending)
        bad = [i for i, p in enumerate(pending) if not got[p]["ok"]]
        if not bad:
            res.update(got)
            pending = []
            break
        again = []
        for i, p in enumerate(pending):
            if not got[p]["ok"] or i < bad[0]:
                res[p] = got[p]
            else:
                again.append(p)
        pending = again
    return res


# ------------------------------------------------------------------ GNU objdump -s

def objdump_contents(paths):
    """{path: {"ok", "diag", "contents": {section name: (start address, bytes)}}} (sections of size 0 are not listed by objdump)."""
    def one(ps, batch):
        rc, out, err = _run(["objdump", "-s"] + ps)
        if batch and (rc or err.strip()):
            return None
        res = {p: {"ok": not (rc or err.strip()), "diag": err.strip(), "contents": {}} for p in ps}
        cur = None
        sec = None
        for line in out.splitlines():
            m = re.match(r"^(.*):\s+file format (\S+)$", line)
            if m and m.group(1) in res:
                cur = res[m.group(1)]
                cur["format"] = m.group(2)
                sec = None
                continue
            if line.startswith("Contents of section ") and cur is not None:
                sec = line[len("Contents of section "):].rstrip(":")
                cur["contents"][sec] = [None, bytearray()]
                continue
            if sec is not None and line.startswith(" "):
                body = line[1:]
                m = re.match(r"^([0-9a-f]+) ((?:[0-9a-f]{2,8} ?){1,4})", body)
                if m:
                    ent = cur["contents"][sec]
                    if ent[0] is None:
                        ent[0] = int(m.group(1), 16)
                    ent[1] += bytes.fromhex(m.group(2).replace(" ", ""))
        for p in ps:
            res[p]["contents"] = {k: (a, bytes(b)) for k, (a, b) in res[p]["contents"].items()}
        return res
    return _batched(paths, one)
