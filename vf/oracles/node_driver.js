// Batch WebAssembly executor for vf.oracles.node (V8 as reference engine).
// stdin : {"jobs":[{"wasm":b64,"imports":[...],"calls":[{"f":name,"args":[[t,dec],...],"ret":t|null,"snap":bool,"pre":name?}],
//                   "globals":[[name,t],...],"memory":name|null,"validate_only":bool}]}
// stdout: {"results":[{"valid":bool,"stage":..,"error":..,"calls":[...],"final":{...}}]}
// Values are [type, decimal string]: i32/i64 signed decimal, f32/f64 the IEEE bit pattern as unsigned decimal.
'use strict';
const buf = new ArrayBuffer(8);
const F64 = new Float64Array(buf), U64 = new BigUint64Array(buf), F32 = new Float32Array(buf), U32 = new Uint32Array(buf);

function toJS(t, s) {
  switch (t) {
    case 'i32': return Number(s) | 0;
    case 'i64': return BigInt.asIntN(64, BigInt(s));
    case 'f32': U32[0] = Number(s); return F32[0];
    case 'f64': U64[0] = BigInt(s); return F64[0];
  }
  throw new Error('bad type ' + t);
}
function fromJS(t, v) {
  switch (t) {
    case 'i32': return ['i32', String(v | 0)];
    case 'i64': return ['i64', BigInt.asIntN(64, BigInt(v)).toString()];
    case 'f32': F32[0] = v; return ['f32', String(U32[0])];
    case 'f64': F64[0] = v; return ['f64', U64[0].toString()];
  }
  throw new Error('bad type ' + t);
}
function hostFunction(spec, log) {
  const t = spec.result, ps = spec.params;
  return (...args) => {
    log.push([spec.mod + '.' + spec.name, args.map((a, i) => fromJS(ps[i], a))]);
    if (t === null) return undefined;
    if (t === 'i64') {
      let r = 1n;
      args.forEach((a, i) => { r += BigInt(i + 2) * BigInt(a); });
      return BigInt.asIntN(64, r);
    }
    if (t === 'i32') {
      let r = 1;
      args.forEach((a, i) => { r = (r + Math.imul(i + 2, Number(a) | 0)) | 0; });
      return r;
    }
    let r = 1;
    args.forEach((a, i) => { r += (i + 2) * Number(a); });
    return t === 'f32' ? Math.fround(r) : r;
  };
}
function buildImports(specs, log, keep) {
  const imp = {};
  for (const s of specs) {
    imp[s.mod] = imp[s.mod] || {};
    let v;
    if (s.kind === 'func') v = hostFunction(s, log);
    else if (s.kind === 'global') { v = new WebAssembly.Global({ value: s.type, mutable: s.mut }, toJS(s.type, String(s.value))); keep.globals.push([s.mod + '.' + s.name, s.type, v]); }
    else if (s.kind === 'memory') { v = new WebAssembly.Memory(s.max === null ? { initial: s.min } : { initial: s.min, maximum: s.max }); keep.memory = v; }
    else if (s.kind === 'table') v = new WebAssembly.Table(s.max === null ? { initial: s.min, element: 'anyfunc' } : { initial: s.min, maximum: s.max, element: 'anyfunc' });
    imp[s.mod][s.name] = v;
  }
  return imp;
}
function memRuns(mem) {
  if (!mem) return null;
  const a = new Uint8Array(mem.buffer), n = a.length, runs = [];
  let i = 0;
  while (i < n) {
    if (a[i] === 0) { i++; continue; }
    let j = i;
    while (j < n && a[j] !== 0) j++;
    runs.push([i, Buffer.from(a.subarray(i, j)).toString('hex')]);
    i = j;
  }
  return { pages: n / 65536, runs };
}
function snapshot(job, inst, keep) {
  const g = {};
  for (const [name, t] of job.globals || []) {
    try { g[name] = fromJS(t, inst.exports[name].value); } catch (e) { g[name] = ['err', String(e)]; }
  }
  for (const [name, t, v] of keep.globals) g['import:' + name] = fromJS(t, v.value);
  let mem = null;
  if (job.memory) mem = inst.exports[job.memory]; else if (keep.memory) mem = keep.memory;
  return { globals: g, mem: memRuns(mem) };
}
function isTrap(e) { return e instanceof WebAssembly.RuntimeError || e instanceof RangeError; }

function runJob(job) {
  const bytes = Buffer.from(job.wasm, 'base64');
  const res = { valid: false, stage: 'validate', error: null, calls: [] };
  if (!WebAssembly.validate(bytes)) {
    try { new WebAssembly.Module(bytes); } catch (e) { res.error = String(e.message || e); }
    return res;
  }
  let mod;
  try { mod = new WebAssembly.Module(bytes); } catch (e) { res.stage = 'compile'; res.error = String(e.message || e); return res; }
  res.valid = true;
  res.stage = 'compiled';
  if (job.validate_only) return res;
  const log = [], keep = { globals: [], memory: null };
  let inst;
  try {
    inst = new WebAssembly.Instance(mod, buildImports(job.imports || [], log, keep));
  } catch (e) {
    res.stage = 'instantiate';
    res.error = String(e.message || e);
    res.trap = isTrap(e);
    res.link = e instanceof WebAssembly.LinkError;
    return res;
  }
  res.stage = 'run';
  for (const c of job.calls || []) {
    const r = {};
    const before = log.length;
    try {
      const f = inst.exports[c.f];
      if (typeof f !== 'function') throw new Error('no exported function ' + c.f);
      if (c.pre) inst.exports[c.pre]();
      const v = f(...c.args.map(a => toJS(a[0], a[1])));
      r.v = c.ret === null || c.ret === undefined ? null : fromJS(c.ret, v);
    } catch (e) {
      if (isTrap(e)) r.trap = String(e.message || e); else r.error = String(e.message || e);
    }
    if (log.length > before) r.host = log.slice(before);
    if (c.snap) r.snap = snapshot(job, inst, keep);
    res.calls.push(r);
  }
  res.final = snapshot(job, inst, keep);
  return res;
}

let input = '';
process.stdin.setEncoding('utf8');
process.stdin.on('data', d => { input += d; });
process.stdin.on('end', () => {
  const req = JSON.parse(input);
  const out = [];
  for (const job of req.jobs) {
    try { out.push(runJob(job)); } catch (e) { out.push({ valid: false, stage: 'driver', error: String(e && e.stack || e), calls: [] }); }
  }
  process.stdout.write(JSON.stringify({ results: out }));
});
