"""llvmdis - batch adapter around LLVM 14's `llvm-mc --disassemble` (reference decoder) and `llvm-mc -show-encoding`
(reference assembler), plus GNU objdump for x86-64.

disasm(arch_name, blobs) -> [None | [text, ...]]      one entry per blob (bytes of ONE ppci instruction)

  * every blob is written as one atomic `[0x.. 0x..]` block on its own line, followed by a line holding a sentinel
    instruction; the output lines between two sentinel texts belong to one blob (a blob may decode to several instructions:
    ppci pseudo instructions, prefixes).  llvm-mc decodes a block independently of its neighbours.
  * None: the reference reported `invalid instruction encoding` / `potentially undefined` anywhere inside the blob,
    printed nothing, or crashed on it (LLVM 14's AVR decoder does on a few encodings) - the caller treats this as
    *unclassified*, never as a violation by itself.
  * the returned texts have tabs replaced by blanks and trailing LLVM comments (`# imm = 0x..`, `@ encoding`) removed.

Nothing here reads ppci's tables.
"""
import os
import re
import subprocess

FLAGS = {
    "arm": ["-triple=armv7a", "-mattr=+hwdiv-arm,+vfp3,+mp,+virtualization,+trustzone"],
    "arm:thumb": ["-triple=thumbv7m", "-mattr=+hwdiv"],
    "riscv": ["-triple=riscv32", "-mattr=+c,+m,+f,+d,+a", "-M", "no-aliases"],
    "riscv:rvc": ["-triple=riscv32", "-mattr=+c,+m,+f,+d,+a", "-M", "no-aliases"],
    "riscv:rvf": ["-triple=riscv32", "-mattr=+c,+m,+f,+d,+a", "-M", "no-aliases"],
    "riscv:rvfx": ["-triple=riscv32", "-mattr=+c,+m,+f,+d,+a", "-M", "no-aliases"],
    "x86_64": ["-triple=x86_64", "--output-asm-variant=1"],
    "x86_64:x87": ["-triple=x86_64", "--output-asm-variant=1"],
    "msp430": ["-triple=msp430"],
    "avr": ["-triple=avr", "-mcpu=atmega2560"],
    "m68k": ["-triple=m68k", "-mcpu=M68020"],
    "mips": ["-triple=mipsel", "-mcpu=mips32r2"],
}

# an instruction no ppci class of the ISA produces on its own, used to split the output stream
SENTINEL = {
    "armv7a": bytes.fromhex("f000f0e7"), "thumbv7m": bytes.fromhex("fede"), "riscv32": bytes.fromhex("73005010"),
    "x86_64": bytes.fromhex("0f0b"), "msp430": bytes.fromhex("0013"), "avr": bytes.fromhex("8895"),
    "m68k": bytes.fromhex("4e71"), "mipsel": bytes.fromhex("0c000000"),
}

WARN = re.compile(r":(\d+):\d+: (warning|error): (?!potentially undefined instruction encoding)")
COMMENT = re.compile(r"\s+[#@;]\s+(imm = |encoding:|fixup |<MCOperand|<MCInst).*$")
ENC = re.compile(r"\s*[#@;/|!]+\s*encoding: \[(.*?)\]\s*$")

_SENT_TEXT = {}
_ENV = dict(os.environ, LLVM_DISABLE_SYMBOLIZATION="1", LLVM_DISABLE_CRASH_REPORT="1")


def _msp430_push_indirect(b):
    # LLVM 14's MSP430 decoder smashes its stack on `push @rN` / `push @rN+` (0x122N / 0x123N, N not a constant generator)
    return len(b) >= 2 and b[1] == 0x12 and (b[0] & 0xE0) == 0x20 and (b[0] & 0x0F) not in (0, 2, 3)


def _avr_ldd_std(b):
    # LLVM 14's AVR decoder dies on `ldd Rd, Y/Z+q` / `std Y/Z+q, Rr` with q != 0 (10q0 qq.d dddd .qqq)
    if len(b) < 2:
        return False
    w = b[0] | (b[1] << 8)
    return (w & 0xD000) == 0x8000 and (w & 0x2C07) != 0


KNOWN_CRASH = {"msp430": _msp430_push_indirect, "avr": _avr_ldd_std}
KNOWN_CRASH_HITS = []  # hex of blobs withheld from the reference because they are known to crash it
CRASHES = []          # hex of blobs on which the reference decoder crashed (reported by the caller)
BATCH = 40000


class OracleError(Exception):
    pass


def decodable(arch_name):
    return arch_name in FLAGS


def _lines(out):
    res = []
    for line in out.splitlines():
        if not line.startswith("\t") or line.startswith("\t."):
            continue
        res.append(COMMENT.sub("", line).strip().replace("\t", " "))
    return res


def _blockline(b):
    return "[" + " ".join("0x%02x" % x for x in b) + "]\n"


def _triple(flags):
    return [f for f in flags if f.startswith("-triple=")][0][8:]


def disasm(arch_name, blobs, flags=None):
    flags = list(flags if flags is not None else FLAGS[arch_name])
    res = [None] * len(blobs)
    idx = [i for i in range(len(blobs)) if blobs[i]]
    for s in range(0, len(idx), BATCH):
        part = idx[s:s + BATCH]
        got = _disasm_batch(flags, [bytes(blobs[i]) for i in part])
        for i, g in zip(part, got):
            res[i] = g
    return res


def _run_pipe(cmd, text):
    r = subprocess.run(cmd, input=text, capture_output=True, text=True, env=_ENV)
    return r.returncode, r.stdout, r.stderr


def _run_pty(cmd, text):
    """Same as _run_pipe with stdout on a pseudo terminal: LLVM then writes unbuffered, so after a crash of the decoder the
    output is complete up to the culprit (with a pipe the last buffer is lost and the culprit cannot be identified)."""
    import pty
    import tty
    from vf.core import scratch
    with scratch("llvmdis") as d:
        fin, ferr = os.path.join(d, "in.txt"), os.path.join(d, "err.txt")
        with open(fin, "w") as f:
            f.write(text)
        m, s = pty.openpty()
        tty.setraw(s)
        with open(fin) as fi, open(ferr, "w") as fe:
            proc = subprocess.Popen(cmd, stdin=fi, stdout=s, stderr=fe, env=_ENV)
        os.close(s)
        parts = []
        while True:
            try:
                b = os.read(m, 1 << 16)
            except OSError:
                break
            if not b:
                break
            parts.append(b)
        os.close(m)
        rc = proc.wait()
        with open(ferr) as f:
            err = f.read()
    return rc, b"".join(parts).decode("utf-8", "replace"), err


def _crashed(rc, err):
    return rc < 0 or "Stack dump" in err or "PLEASE submit a bug report" in err or "stack smashing" in err


def _disasm_batch(flags, blobs):
    triple = _triple(flags)
    sent = SENTINEL[triple]
    base = ["llvm-mc", "--disassemble"] + flags
    key = (triple, tuple(flags))
    if key not in _SENT_TEXT:
        rc, out, err = _run_pipe(base, _blockline(sent))
        ls = _lines(out)
        if len(ls) != 1:
            raise OracleError("sentinel does not decode for %s: %r %s" % (triple, ls, err[-200:]))
        _SENT_TEXT[key] = ls[0]
    stext = _SENT_TEXT[key]
    n = len(blobs)
    res = [None] * n
    known = KNOWN_CRASH.get(triple)
    live = []
    for i in range(n):
        if blobs[i] == sent:
            continue
        if known is not None and known(blobs[i]):
            KNOWN_CRASH_HITS.append(blobs[i].hex())
            continue
        live.append(i)
    runner = _run_pipe
    for _attempt in range(2000):
        if not live:
            return res
        text = "".join(_blockline(blobs[i]) + _blockline(sent) for i in live)
        rc, out, err = runner(base, text)
        bad = set((int(m.group(1)) - 1) // 2 for m in WARN.finditer(err))
        chunks = []
        cur = []
        for t in _lines(out):
            if t == stext:
                chunks.append(cur)
                cur = []
            else:
                cur.append(t)
        if _crashed(rc, err):
            done = len(chunks)          # complete chunks seen (a lower bound of the culprit's index when the pipe lost a buffer)
            if done > len(live):
                raise OracleError("llvm-mc output out of step with its input (%r)" % (flags,))
            for k in range(done):
                if k not in bad and chunks[k]:
                    res[live[k]] = chunks[k]
            if runner is _run_pty:
                if done >= len(live):
                    raise OracleError("llvm-mc failed without a culprit line (%r): %s" % (flags, err[-300:]))
                CRASHES.append(blobs[live[done]].hex())
                live = live[done + 1:]
            else:
                live = live[done:]
                runner = _run_pty
            continue
        if len(chunks) != len(live) or cur:
            raise OracleError("llvm-mc output out of step with its input (%r): %d chunks for %d blobs" % (flags, len(chunks), len(live)))
        for k, i in enumerate(live):
            if k not in bad and chunks[k]:
                res[i] = chunks[k]
        return res
    raise OracleError("llvm-mc keeps crashing (%r)" % (flags,))


def assemble(arch_name, texts, flags=None, extra=()):
    """Reference assembly, one instruction per line: [bytes | None] (None: rejected, or needs a fixup/relocation)."""
    flags = list(flags if flags is not None else FLAGS[arch_name])
    flags = [f for f in flags if f not in ("-M", "no-aliases") and not f.startswith("--output-asm-variant")]
    flags += list(extra)
    n = len(texts)
    res = [None] * n
    for s in range(0, n, BATCH):
        part = list(range(s, min(n, s + BATCH)))
        # .p2align 0-free: each statement on its own line; errors are attributed through the line number
        src = "".join((texts[i] or "nop") + "\n" for i in part)
        r = subprocess.run(["llvm-mc", "-show-encoding"] + flags, input=src, capture_output=True, text=True)
        bad = set(int(m.group(1)) - 1 for m in WARN.finditer(r.stderr) if m.group(2) == "error")
        encs = []
        for line in r.stdout.splitlines():
            m = ENC.search(line)
            if not m or not line.startswith("\t"):
                continue
            bs = []
            for e in m.group(1).split(","):
                try:
                    bs.append(int(e.strip(), 16))
                except ValueError:
                    bs = None
                    break
            encs.append(bytes(bs) if bs is not None else None)
        good = [i for k, i in enumerate(part) if k not in bad]
        if len(encs) != len(good):
            continue    # cannot attribute (a line expanded to several instructions)
        for i, e in zip(good, encs):
            if texts[i]:
                res[i] = e
    return res


def objdump_x86(blobs):
    """GNU objdump -M intel as a second x86-64 decoder: [None | [text, ...]] per blob.
    The blobs are laid out one after the other, each followed by 16 one-byte NOPs (a misdecoded blob can only swallow NOPs and the
    sweep is in step again at the next blob); an instruction is attributed to the blob that contains its address and a blob whose
    last instruction does not end exactly at its end is not attributed at all."""
    from vf.core import scratch
    res = [None] * len(blobs)
    pad = b"\x90" * 16
    with scratch("objdump") as d:
        for s0 in range(0, len(blobs), BATCH):
            part = [i for i in range(s0, min(len(blobs), s0 + BATCH)) if blobs[i]]
            if not part:
                continue
            raw = bytearray()
            spans = []
            for i in part:
                spans.append((len(raw), len(raw) + len(blobs[i])))
                raw += bytes(blobs[i]) + pad
            fn = os.path.join(d, "x.bin")
            with open(fn, "wb") as f:
                f.write(raw)
            r = subprocess.run(["objdump", "-D", "-b", "binary", "-m", "i386:x86-64", "-M", "intel", "--no-show-raw-insn", "-w", fn],
                               capture_output=True, text=True)
            lines = []
            for line in r.stdout.splitlines():
                m = re.match(r"\s*([0-9a-f]+):\s+(.*)$", line)
                if m:
                    t = re.sub(r"\s+", " ", m.group(2).split("#")[0].strip())
                    t = re.sub(r"^rex(\.[WRXB]+)? (?=\S)", "", t)       # objdump names REX prefixes that change nothing
                    lines.append((int(m.group(1), 16), t))
            lines.append((len(raw), ""))
            k = 0
            for i, (a, e) in zip(part, spans):
                while k < len(lines) - 1 and lines[k][0] < a:
                    k += 1
                got = []
                ok = lines[k][0] == a
                while k < len(lines) - 1 and lines[k][0] < e:
                    got.append(lines[k][1])
                    if lines[k + 1][0] > e:
                        ok = False
                    k += 1
                if ok and got and not any("(bad)" in t for t in got):
                    res[i] = got
    return res
