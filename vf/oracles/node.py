"""V8 (node >= 20) as reference WebAssembly engine.

One node process executes a *batch* of jobs (JSON over stdin/stdout, driver: node_driver.js).

API
---
job(wasm, calls=(), imports=(), globals=(), memory=None, validate_only=False) -> dict
    wasm: bytes.  calls: [(export_name, [(vt, v), ...], ret_vt|None)] or with a 4th element snap=True to snapshot
    memory/globals after that call and a 5th element pre=<export name of a ()->() function called right before>.  imports: wasmgen.import_spec(m).  globals: [(export name, vt)].  memory: export
    name of the memory (or None).  Values: (vt, v) with v a signed int for i32/i64 and the IEEE *bit pattern* for f32/f64.
job_for(m, wasm=None, calls=(), ...) -> job for a wasmgen.Module (imports/globals/memory filled from the AST).
run(jobs, batch=400) -> [Result]      (order preserved; node is started once per batch)
Result (dict): valid(bool) stage error, calls=[{"v": (vt, v)|None} | {"trap": msg} | {"error": msg}] (+ "host", "snap"),
    final={"globals": {name: (vt, v)}, "mem": {"pages": n, "runs": [(offset, bytes)]}|None}
same_value(a, b)      typed equality, any NaN equals any NaN of the same type
call_outcome(c)       ("trap",) | ("value", (vt, v)|None) | ("error", msg)
mem_runs(data)        sparse representation of a bytes object as used in Result (for comparing with other engines)
host_function(spec)   Python twin of the driver's host function for an import spec entry
selfcheck()           raises OracleError unless node passes NaN signs and i64 through unchanged
"""
import os
import re
import json
import base64
import struct
import subprocess

DRIVER = os.path.join(os.path.dirname(os.path.abspath(__file__)), "node_driver.js")
NODE = os.environ.get("VF_NODE", "node")


class OracleError(Exception):
    pass


def job(wasm, calls=(), imports=(), globals=(), memory=None, validate_only=False):
    cs = []
    for c in calls:
        name, args, ret = c[0], c[1], c[2]
        d = {"f": name, "args": [[t, str(v)] for t, v in args], "ret": ret}
        if len(c) > 3 and c[3]:
            d["snap"] = True
        if len(c) > 4 and c[4]:
            d["pre"] = c[4]
        cs.append(d)
    return {"wasm": base64.b64encode(wasm).decode(), "calls": cs, "imports": list(imports),
            "globals": [[n, t] for n, t in globals], "memory": memory, "validate_only": bool(validate_only)}


def job_for(m, wasm=None, calls=(), validate_only=False):
    from vf.gen import wasmgen as W
    if wasm is None:
        wasm = W.encode(m)
    return job(wasm, calls, W.import_spec(m), W.exported_globals(m), W.exported_memory(m), validate_only)


def _val(x):
    if x is None:
        return None
    return (x[0], int(x[1])) if x[0] != "err" else ("err", x[1])


def _snap(s):
    if s is None:
        return None
    mem = s.get("mem")
    if mem is not None:
        mem = {"pages": mem["pages"], "runs": [(o, bytes.fromhex(h)) for o, h in mem["runs"]]}
    return {"globals": {k: _val(v) for k, v in s.get("globals", {}).items()}, "mem": mem}


def _normalise(r):
    for c in r.get("calls", []):
        if "v" in c:
            c["v"] = _val(c["v"])
        if "host" in c:
            c["host"] = [(n, [_val(a) for a in args]) for n, args in c["host"]]
        if "snap" in c:
            c["snap"] = _snap(c["snap"])
    if "final" in r:
        r["final"] = _snap(r["final"])
    return r


def _run_chunk(chunk, timeout):
    p = subprocess.run([NODE, "--single-threaded", DRIVER], input=json.dumps({"jobs": chunk}).encode(), capture_output=True, timeout=timeout)
    if p.returncode != 0:
        raise OracleError("node failed (rc=%s): %s" % (p.returncode, p.stderr.decode(errors="replace")[-2000:]))
    res = json.loads(p.stdout.decode())["results"]
    if len(res) != len(chunk):
        raise OracleError("node returned %d results for %d jobs" % (len(res), len(chunk)))
    return [_normalise(r) for r in res]


HANG = {"valid": True, "stage": "hang", "hang": True, "calls": []}


def _run_marking(chunk, timeout, single_timeout):
    """Run a chunk; on a timeout bisect down to the job(s) that do not finish alone within single_timeout seconds and give those the
    result HANG (every job is microseconds of work for the engine, so a job that runs for single_timeout seconds does not terminate)."""
    try:
        return _run_chunk(chunk, timeout)
    except subprocess.TimeoutExpired:
        if len(chunk) == 1:
            return [dict(HANG)]
        h = len(chunk) // 2
        t = max(single_timeout, timeout // 2)
        return _run_marking(chunk[:h], t, single_timeout) + _run_marking(chunk[h:], t, single_timeout)


def run(jobs, batch=400, timeout=1800, on_hang="error", single_timeout=30):
    """on_hang="mark": a job that does not finish is reported with the result HANG instead of raising OracleError."""
    out = []
    for i in range(0, len(jobs), batch):
        chunk = jobs[i:i + batch]
        if on_hang == "mark":
            out.extend(_run_marking(chunk, timeout, single_timeout))
            continue
        try:
            out.extend(_run_chunk(chunk, timeout))
        except subprocess.TimeoutExpired:
            raise OracleError("node did not finish a batch of %d jobs" % len(chunk))
    return out


def is_nan(v):
    t, b = v
    if t == "f32":
        return (b & 0x7F800000) == 0x7F800000 and (b & 0x007FFFFF) != 0
    if t == "f64":
        return (b & 0x7FF0000000000000) == 0x7FF0000000000000 and (b & 0x000FFFFFFFFFFFFF) != 0
    return False


def same_value(a, b):
    if a is None or b is None:
        return a is None and b is None
    if a[0] != b[0]:
        return False
    if is_nan(a) and is_nan(b):
        return True
    return a[1] == b[1]


def call_outcome(c):
    if "trap" in c:
        return ("trap",)
    if "error" in c:
        return ("error", c["error"])
    return ("value", c.get("v"))


_RUN = re.compile(rb"[^\x00]+")


def mem_runs(data):
    return [(m.start(), m.group()) for m in _RUN.finditer(data)]


def show(v):
    """Human readable typed value."""
    if v is None:
        return "void"
    t, b = v
    if t == "f32":
        return "f32:%r(0x%08x)" % (struct.unpack("<f", struct.pack("<I", b))[0], b)
    if t == "f64":
        return "f64:%r(0x%016x)" % (struct.unpack("<d", struct.pack("<Q", b))[0], b)
    return "%s:%d" % (t, b)


def to_float(v):
    t, b = v
    if t == "f32":
        return struct.unpack("<f", struct.pack("<I", b))[0]
    return struct.unpack("<d", struct.pack("<Q", b))[0]


def host_function(spec, log=None):
    """Python twin of hostFunction() in node_driver.js: result = 1 + sum((i+2)*arg_i) in the result type.
    Arguments/results are plain Python numbers (ints signed, floats as floats); `log` receives (name, args)."""
    t = spec["result"]
    name = spec["mod"] + "." + spec["name"]

    def f(*args):
        if log is not None:
            log.append((name, list(args)))
        if t is None:
            return None
        if t in ("i32", "i64"):
            w = 32 if t == "i32" else 64
            r = 1
            for i, a in enumerate(args):
                r += (i + 2) * int(a)
            r &= (1 << w) - 1
            return r - (1 << w) if r >> (w - 1) else r
        r = 1.0
        for i, a in enumerate(args):
            r += (i + 2) * float(a)
        if t == "f32":
            r = struct.unpack("<f", struct.pack("<f", r))[0]
        return r
    return f


_checked = False


def selfcheck():
    """V8 must hand i64 and NaN sign bits through its JS boundary unchanged, else results cannot be compared bitwise."""
    global _checked
    if _checked:
        return
    from vf.gen import wasmgen as W
    fs = [(W.FT((W.F64,), (W.I64,)), (), [W.Ins("i64.reinterpret_f64", None, [W.lget(0)])]),
          (W.FT((W.F32,), (W.I32,)), (), [W.Ins("i32.reinterpret_f32", None, [W.lget(0)])]),
          (W.FT((W.I64,), (W.I64,)), (), [W.lget(0)]),
          (W.FT((W.I64,), (W.F64,)), (), [W.Ins("f64.reinterpret_i64", None, [W.lget(0)])])]
    m = W.module_of_funcs(fs)
    calls = [("e0", [(W.F64, 0xFFF8000000000000)], W.I64), ("e0", [(W.F64, 0x7FF8000000000000)], W.I64),
             ("e0", [(W.F64, 0x8000000000000000)], W.I64), ("e1", [(W.F32, 0xFFC00000)], W.I32), ("e1", [(W.F32, 0x7FC00000)], W.I32),
             ("e2", [(W.I64, -2 ** 63)], W.I64), ("e2", [(W.I64, 2 ** 63 - 1)], W.I64), ("e3", [(W.I64, -(2 ** 51))], W.F64)]
    want = [0xFFF8000000000000 - 2 ** 64, 0x7FF8000000000000, -2 ** 63, 0xFFC00000 - 2 ** 32, 0x7FC00000, -2 ** 63, 2 ** 63 - 1,
            0xFFF8000000000000]
    r = run([job_for(m, calls=calls)])[0]
    if not r["valid"] or r["stage"] != "run":
        raise OracleError("node self-check module rejected: %r" % (r,))
    got = [c.get("v", (None, None))[1] for c in r["calls"]]
    if got != want:
        raise OracleError("node does not pass bit patterns through unchanged: %r != %r" % (got, want))
    _checked = True
