"""gcc + UBSan as the conforming-C oracle (DESIGN C01/C04/C27).

A *case* is a dict:
  {"src":  C source of one or more functions and their globals; every file-scope identifier carries the placeholder '@'
           which is replaced by a per-case suffix so that many cases share one translation unit,
   "fname": "f@", "ret": C type, "params": [C types], "vectors": [[int|float,...]], "globals": [names with '@'] }
`run_cases(cases, dirpath)` compiles batches with `gcc -O0 -fsanitize=undefined`, runs them and returns per case
  None (gcc rejects the case)  or  {vector index: ("ok", ret, {global: hex}, [ext args...]) | ("ub", why)}.
The driver prints a B line before and an R line after every call with stdout flushed and stderr merged into the same pipe, so
any UBSan report (or a SIGFPE, caught with sigsetjmp) is attributed to exactly one call, which is then discarded.
`ext@`-style externals are not supported: cases call the shared `int ext(int)` / `long long extl(long long)` of the driver,
which log their argument and return 3*x+1 (wrapping), like vf.sem.irinterp.default_external.
"""
import os
import re
import struct
import subprocess

INT_TYPES = ["signed char", "unsigned char", "short", "unsigned short", "int", "unsigned", "long", "unsigned long", "long long", "unsigned long long"]
BITS = {"signed char": 8, "unsigned char": 8, "short": 16, "unsigned short": 16, "int": 32, "unsigned": 32, "unsigned int": 32, "long": 64,
        "unsigned long": 64, "long long": 64, "unsigned long long": 64}


def is_unsigned(t):
    return t.startswith("unsigned")


def is_float(t):
    return t in ("float", "double")


def type_range(t):
    b = BITS[t]
    return (0, (1 << b) - 1) if is_unsigned(t) else (-(1 << (b - 1)), (1 << (b - 1)) - 1)


def V(t, k=7):
    """Boundary alphabet for a C type (same shape as irgen.V)."""
    if is_float(t):
        return [0.0, 1.0, -1.0, 0.5, -1.5, 2.5, 100.0][:k]
    lo, hi = type_range(t)
    if is_unsigned(t):
        vs = [0, 1, hi, hi - 1, 2, 3, hi >> 1]
    else:
        vs = [0, 1, -1, lo, hi, 2, -7]
    out = []
    for v in vs[:k]:
        if v not in out:
            out.append(v)
    return out


def literal(t, v):
    if is_float(t):
        return "((%s)%r)" % (t, float(v))
    if v < 0:
        return "((%s)(-%dLL-1))" % (t, -v - 1)
    return "((%s)%dULL)" % (t, v)


PRELUDE = r'''
#include <stdio.h>
#include <string.h>
#include <signal.h>
#include <setjmp.h>
static sigjmp_buf vf_jb;
static long long vf_trace[64]; static int vf_ntrace;
int ext(int x){ if(vf_ntrace<64) vf_trace[vf_ntrace++]=x; return (int)(3u*(unsigned)x+1u); }
long long extl(long long x){ if(vf_ntrace<64) vf_trace[vf_ntrace++]=x; return (long long)(3ull*(unsigned long long)x+1ull); }
static void vf_fpe(int s){ (void)s; siglongjmp(vf_jb,1); }
static void vf_hex(const void*p, unsigned n){ const unsigned char*c=p; for(unsigned i=0;i<n;i++) printf("%02x",c[i]); }
static void vf_tr(void){ for(int i=0;i<vf_ntrace;i++) printf(" %lld", vf_trace[i]); }
'''


def case_source(case, suffix):
    return case["src"].replace("@", suffix)


def build_tu(cases, idxs, linemap=None):
    parts = [PRELUDE]
    nline = [PRELUDE.count("\n") + 1]

    def add(text, k):
        start = nline[0]
        parts.append(text)
        nline[0] += text.count("\n") + 1
        if linemap is not None:
            for ln in range(start, nline[0]):
                linemap[ln] = k

    main = ["int main(void){", " signal(SIGFPE, vf_fpe); signal(SIGSEGV, vf_fpe); signal(SIGBUS, vf_fpe); signal(SIGILL, vf_fpe); signal(SIGTRAP, vf_fpe);"]
    for k in idxs:
        c = cases[k]
        suf = "_%d" % k
        add(case_source(c, suf), k)
        gl = [g.replace("@", suf) for g in c.get("globals", [])]
        rl = gl + [g.replace("@", suf) for g in c.get("restore", [])]  # restored before each call, not dumped
        ret = c["ret"]
        fname = c["fname"].replace("@", suf)
        params = c["params"]
        # one small driver function per case (keeps every C function small: gcc -O0 is super-linear in function size)
        body = []
        for g in rl:
            add("static unsigned char vf_sh_%s[sizeof(%s)];" % (g, g), k)
            main.append(" memcpy(vf_sh_%s, &%s, sizeof(%s));" % (g, g, g))
        restore = "".join(" memcpy(&%s, vf_sh_%s, sizeof(%s));" % (g, g, g) for g in rl)
        dump = "".join(' printf(" %s="); vf_hex(&%s, sizeof(%s));' % (g, g, g) for g in gl)
        sig = ", ".join("%s a%d" % (t, i) for i, t in enumerate(params))
        args = ", ".join("a%d" % i for i in range(len(params)))
        if ret == "void":
            call = "%s(%s); printf(\"R %d %%d V\", vi);" % (fname, args, k)
        elif is_float(ret):
            call = "{ double r=(double)%s(%s); unsigned long long b; memcpy(&b,&r,8); printf(\"R %d %%d F%%llx\", vi, b); }" % (fname, args, k)
        elif is_unsigned(ret):
            call = "{ unsigned long long r=(unsigned long long)%s(%s); printf(\"R %d %%d %%llu\", vi, r); }" % (fname, args, k)
        else:
            call = "{ long long r=(long long)%s(%s); printf(\"R %d %%d %%lld\", vi, r); }" % (fname, args, k)
        add("static void vf_one_%d(int vi%s%s){ vf_ntrace=0;%s printf(\"B %d %%d\\n\", vi); fflush(stdout); if(!sigsetjmp(vf_jb,1)){ %s%s printf(\" T\"); vf_tr(); printf(\"\\n\"); } else printf(\"X %d %%d\\n\", vi); fflush(stdout); }"
            % (k, ", " if sig else "", sig, restore, k, call, dump, k), k)
        calls = []
        for vi, vec in enumerate(c["vectors"]):
            a = ", ".join(literal(t, v) for t, v in zip(params, vec))
            calls.append(" vf_one_%d(%d%s%s);" % (k, vi, ", " if a else "", a))
        add("static void vf_case_%d(void){\n%s\n}" % (k, "\n".join(calls)), k)
        main.append(" vf_case_%d();" % k)
    main.append(" return 0; }")
    return "\n".join(parts) + "\n" + "\n".join(main) + "\n"


GCC_FLAGS = ["-O0", "-w", "-std=gnu11", "-fsanitize=undefined,float-cast-overflow,float-divide-by-zero", "-fsanitize-undefined-trap-on-error", "-ffp-contract=off", "-fwrapv-pointer"]


RUN_TIMEOUT = 300  # seconds of wall clock for one batch executable (a safety net against non-terminating generated functions)


def _compile_run(cases, idxs, d, tag, extra_flags=(), linemap=None, warn_exclude=None, excluded=None):
    src = os.path.join(d, "tu_%s.c" % tag)
    exe = os.path.join(d, "tu_%s.exe" % tag)
    with open(src, "w") as f:
        f.write(build_tu(cases, idxs, linemap))
    flags = [f for f in GCC_FLAGS if not (f == "-w" and warn_exclude is not None)]
    if "-fno-sanitize=all" in extra_flags:
        flags = [f for f in flags if not f.startswith("-fsanitize")]
    r = subprocess.run(["gcc"] + flags + list(extra_flags) + ["-fmax-errors=0", "-o", exe, src], capture_output=True, text=True)
    if r.returncode != 0:
        return None, r.stderr
    if warn_exclude is not None and linemap is not None:
        for m in re.finditer(r"\.c:(\d+):\d+: warning: ([^\n]*)", r.stderr):
            if re.search(warn_exclude, m.group(2)):
                k = linemap.get(int(m.group(1)))
                if k is not None:
                    excluded[k] = m.group(2)[:100]
    env = dict(os.environ, UBSAN_OPTIONS="print_stacktrace=0:halt_on_error=0")
    try:
        r = subprocess.run([exe], stdout=subprocess.PIPE, stderr=subprocess.STDOUT, env=env, timeout=RUN_TIMEOUT)
        out = r.stdout.decode("utf-8", "replace")
    except subprocess.TimeoutExpired as e:
        # a generated function that does not terminate: the calls after it have no result line and are discarded by the callers
        out = (e.stdout or b"").decode("utf-8", "replace") + "\nTIMEOUT\n"
    try:
        os.unlink(exe)
        os.unlink(src)
    except OSError:
        pass
    return out, None


def parse_output(text, cases):
    res = {}
    cur = None
    dirty = False
    for line in text.splitlines():
        if line.startswith("B "):
            _, k, vi = line.split()
            cur = (int(k), int(vi))
            dirty = False
            res.setdefault(cur[0], {})[cur[1]] = ("ub", "no result line (crash)")
        elif line.startswith("R ") and cur is not None:
            head, _, tr = line.partition(" T")
            toks = head.split()
            k, vi = int(toks[1]), int(toks[2])
            if (k, vi) != cur:
                continue
            if dirty:
                cur = None
                continue
            val = toks[3]
            if val == "V":
                ret = None
            elif val.startswith("F"):
                ret = struct.unpack("<d", struct.pack("<Q", int(val[1:], 16)))[0]
            else:
                ret = int(val)
            mem = {}
            for t in toks[4:]:
                name, _, hx = t.partition("=")
                mem[name] = hx
            trace = [int(x) for x in tr.split()]
            res[k][vi] = ("ok", ret, mem, trace)
            cur = None
        elif line.startswith("X ") and cur is not None:
            res[cur[0]][cur[1]] = ("ub", "signal")
            cur = None
        elif cur is not None:
            dirty = True
            res[cur[0]][cur[1]] = ("ub", line[-120:])
    return res


def run_cases(cases, d, batch=150, tag="b", extra_flags=(), warn_exclude=None, only=None):
    """-> list aligned with cases: None (rejected by gcc) | {vi: outcome}
    warn_exclude: regex on gcc warning texts (pass the -W flags in extra_flags, after "-Wno-w" is not needed: put "-W..." flags
    there; -w is overridden by later -W options); cases with a matching warning get every vector marked ("ub", warning)."""
    excluded = {}
    out = [None] * len(cases)
    idx = list(range(len(cases))) if only is None else list(only)  # only: the sub-list of case indices to run (suffixes stay the full-list indices)
    n = 0
    for s in range(0, len(idx), batch):
        chunk = idx[s:s + batch]
        n += 1
        todo = [chunk]
        rounds = 0
        while todo:
            part = todo.pop()
            linemap = {}
            rounds += 1
            text, err = _compile_run(cases, part, d, "%s%d_%d" % (tag, n, rounds), extra_flags, linemap, warn_exclude, excluded)
            if text is None:
                # attribute compile errors to cases by line number and retry without them
                bad = set()
                for m in re.finditer(r"\.c:(\d+):\d+: (?:fatal )?error", err):
                    k = linemap.get(int(m.group(1)))
                    if k is not None:
                        bad.add(k)
                if bad and len(bad) < len(part):
                    todo.append([k for k in part if k not in bad])
                    continue
                if len(part) == 1 or (bad and len(bad) == len(part)):
                    continue
                h = len(part) // 2
                todo.append(part[:h])
                todo.append(part[h:])
                continue
            res = parse_output(text, cases)
            for k in part:
                out[k] = res.get(k, {})
                if k in excluded:
                    out[k] = {vi: ("ub", "gcc warning: " + excluded[k]) for vi in range(len(cases[k]["vectors"]))}
    return out


STRICT_FLAGS = ["-pedantic-errors"]


def run_cases_policy(cases, d, batch=150, tag="b"):
    """Like run_cases, but honours the per-case key "strict": such cases are compiled with -pedantic-errors and without -w, and any
    gcc warning excludes the case (all its calls become ("ub", "gcc warning: ...")); the other cases keep the plain flags."""
    plain = [k for k, c in enumerate(cases) if not c.get("strict")]
    strict = [k for k, c in enumerate(cases) if c.get("strict")]
    out = [None] * len(cases)
    if plain:
        r = run_cases(cases, d, batch=batch, tag=tag + "p", only=plain)
        for k in plain:
            out[k] = r[k]
    if strict:
        r = run_cases(cases, d, batch=batch, tag=tag + "s", extra_flags=STRICT_FLAGS, warn_exclude=r".", only=strict)
        for k in strict:
            out[k] = r[k]
    return out
