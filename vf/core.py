"""Runner core: partial results, parallel map, evidence, known findings, replay.

Every check module in vf/checks/cNN.py defines

    ID = "C20"
    LEVEL = "exploration" | "model_checking"
    RULE = "how cases are enumerated / what counts as distinct non-trivial"
    ASSUMPTIONS = [...]
    def run(ctx):        # ctx: Ctx; uses ctx.tier, ctx.seed, ctx.pmap, ctx.add ...
    def replay(witness): # -> (violated: bool, detail: str)

A *violation* is (key, what, witness):  key is the locus (stable, deterministic),
witness is a small JSON value from which `replay` re-derives the failure.
"""
import os
import re
import sys
import json
import time
import signal
import hashlib
import traceback
import contextlib
import subprocess
import multiprocessing

VERIF = os.path.dirname(os.path.dirname(os.path.abspath(__file__)))
REPO = os.environ.get("VF_REPO", "/repo")
NPROC = int(os.environ.get("VF_NPROC", "16"))


def use_repo():
    """Make `import ppci` resolve to the working tree of REPO."""
    if sys.path[0] != REPO:
        sys.path.insert(0, REPO)
    import ppci  # noqa

    got = os.path.dirname(os.path.dirname(os.path.abspath(ppci.__file__)))
    if os.path.realpath(got) != os.path.realpath(REPO):
        raise HarnessError("ppci imported from %s, expected %s" % (got, REPO))


class HarnessError(Exception):
    pass


class CpuTimeout(BaseException):
    """Raised inside an item when its CPU-time budget is exhausted.

    BaseException so that `except Exception` in the code under test does not
    swallow it."""


CPU_BUDGET_SCALE = 3


@contextlib.contextmanager
def cpu_limit(seconds):
    """CPU-time (not wall) watchdog for one item; machine load cannot trip it."""

    def handler(signum, frame):
        raise CpuTimeout()

    old = signal.signal(signal.SIGVTALRM, handler)
    # the budgets named at the call sites are nominal; they are stretched here because the CPU-time accounting of a heavily overcommitted
    # VM has charged 10 "CPU-seconds" to a one-line compilation (a budget only has to be finite to stop a real hang)
    signal.setitimer(signal.ITIMER_VIRTUAL, seconds * CPU_BUDGET_SCALE)
    try:
        yield
    finally:
        signal.setitimer(signal.ITIMER_VIRTUAL, 0)
        signal.signal(signal.SIGVTALRM, old)


def digest(o):
    return hashlib.blake2b(repr(o).encode(), digest_size=8).digest()


def innermost_ppci_frame(exc):
    """(function name, file basename) of the innermost frame inside ppci."""
    tb = traceback.extract_tb(exc.__traceback__)
    for fr in reversed(tb):
        if "/ppci/" in fr.filename:
            return "%s:%s" % (os.path.basename(fr.filename), fr.name)
    if tb:
        fr = tb[-1]
        return "%s:%s" % (os.path.basename(fr.filename), fr.name)
    return "?"


def exc_key(prefix, exc):
    return "%s/%s/%s" % (prefix, type(exc).__name__, innermost_ppci_frame(exc))


class Partial:
    """What one worker (or the parent) has observed so far."""

    MAX_SAMPLES = 4

    def __init__(self):
        self.evaluations = 0
        self.outcomes = set()
        self.samples = []
        self.violations = {}  # key -> (order, what, witness)
        self.counters = {}
        self.sets = {}

    def add(self, n=1):
        self.evaluations += n

    def outcome(self, o):
        self.outcomes.add(digest(o))

    def sample(self, s):
        if len(self.samples) < self.MAX_SAMPLES:
            self.samples.append(s)

    def count(self, name, n=1):
        self.counters[name] = self.counters.get(name, 0) + n

    def collect(self, name, item):
        """Union-collect small hashable items under a name (e.g. class names)."""
        self.sets.setdefault(name, set()).add(item)

    def violation(self, key, what, witness, order=None):
        if order is None:
            order = self.evaluations
        old = self.violations.get(key)
        if old is None or order < old[0]:
            self.violations[key] = (order, what, witness)

    def merge(self, other):
        self.evaluations += other.evaluations
        self.outcomes |= other.outcomes
        for s in other.samples:
            self.sample(s)
        for k, v in other.counters.items():
            self.counters[k] = self.counters.get(k, 0) + v
        for k, v in other.sets.items():
            self.sets.setdefault(k, set()).update(v)
        for k, (o, w, wit) in other.violations.items():
            self.violation(k, w, wit, order=o)


def _run_shard(args):
    fn, shard, extra = args
    p = Partial()
    try:
        fn(p, shard, *extra)
    except CpuTimeout:
        p.count("harness_cpu_timeouts")
    return p


class Ctx(Partial):
    def __init__(self, pid, tier, seed, level):
        super().__init__()
        self.pid = pid
        self.tier = tier
        self.seed = seed
        self.level = level
        self.assumptions = []
        self.caps = []
        self.notes = {}
        self.states = 0
        self.transitions = 0
        self.traces = 0
        self.exhaustive = True

    @property
    def quick(self):
        return self.tier == "quick"

    def note(self, k, v):
        self.notes[k] = v

    def cap(self, text):
        self.caps.append(text)
        self.exhaustive = False

    def pmap(self, fn, items, extra=(), nshards=None, interleave=True):
        """Run fn(partial, shard_items, *extra) over shards of `items` in NPROC
        forked workers; merge partials in shard order (deterministic)."""
        items = list(items)
        if not items:
            return
        if nshards is None:
            nshards = min(len(items), NPROC * 4)
        if interleave:
            shards = [items[i::nshards] for i in range(nshards)]
        else:
            size = (len(items) + nshards - 1) // nshards
            shards = [items[i:i + size] for i in range(0, len(items), size)]
        shards = [s for s in shards if s]
        if NPROC == 1 or len(shards) == 1:
            results = [_run_shard((fn, s, extra)) for s in shards]
        else:
            mp = multiprocessing.get_context("fork")
            with mp.Pool(min(NPROC, len(shards))) as pool:
                results = pool.map(_run_shard, [(fn, s, extra) for s in shards], chunksize=1)
        for r in results:
            self.merge(r)


# ---------------------------------------------------------------- known findings

KNOWN_FILE = os.path.join(VERIF, "known_findings.txt")


def load_known():
    """Lines:  known: property=C30 key=<key> :: <what>
               fixed: property=C38 <commit> key=<key> :: <what failed>"""
    known = {}
    if not os.path.exists(KNOWN_FILE):
        return known
    for line in open(KNOWN_FILE):
        line = line.strip()
        if not line or line.startswith("#"):
            continue
        if line.startswith("known:"):
            body = line[len("known:"):].strip()
            head, _, what = body.partition("::")
            parts = head.split()
            prop = [p for p in parts if p.startswith("property=")][0][9:]
            key = head.split("key=", 1)[1].strip()
            known[(prop, key)] = what.strip()
    return known


# ---------------------------------------------------------------- evidence

def validate_evidence(path):
    code = (
        "import json,sys,jsonschema;"
        "s=json.load(open('/root/.vp/EVIDENCE.schema.json'));"
        "jsonschema.validate(json.load(open(sys.argv[1])),s)"
    )
    if not os.path.exists("/root/.vp/EVIDENCE.schema.json"):
        return
    try:
        r = subprocess.run(["python3-vt", "-c", code, path], capture_output=True, text=True)
    except FileNotFoundError:
        return
    if r.returncode != 0:
        raise HarnessError("evidence does not validate: " + r.stderr[-2000:])


def jsonable(o):
    try:
        json.dumps(o)
        return o
    except TypeError:
        return repr(o)


WATCHDOG_KEY = re.compile(r"timeout|hang|runaway|did-not-finish", re.I)


def finish(mod, ctx, t0):
    known = load_known()
    new, listed = [], []
    listed_witness = {}
    for key, (order, what, witness) in sorted(ctx.violations.items(), key=lambda kv: (kv[1][0], kv[0])):
        if (ctx.pid, key) in known:
            listed.append((key, known[(ctx.pid, key)]))
            listed_witness[key] = (what, witness)
        else:
            # A verdict that rests on a watchdog (CPU-time budget of one item) must reproduce before it is believed: the witness is replayed
            # once here, in this process, with a fresh budget.  Everything else about a violation is deterministic and is not re-run.
            if WATCHDOG_KEY.search(key) and hasattr(mod, "replay"):
                try:
                    again, _ = mod.replay(jsonable(witness))
                except BaseException as ex:  # noqa  (a replay that cannot run leaves the verdict as it is)
                    again = True
                    ctx.note("watchdog_replay_error", repr(ex)[:200])
                if not again:
                    ctx.count("watchdog_expiries_not_reproduced")
                    ctx.collect("watchdog_expiries_not_reproduced_keys", key)
                    continue
            new.append((key, what, witness))
    cov = {
        "evaluations": ctx.evaluations,
        "distinct_nontrivial": len(ctx.outcomes),
        "rule": getattr(mod, "RULE", ""),
        "samples": [jsonable(s) for s in ctx.samples],
        "exhaustive": ctx.exhaustive and not ctx.caps,
    }
    if ctx.level == "model_checking":
        cov["states"] = ctx.states
        cov["transitions"] = ctx.transitions
        cov["traces_validated_against_impl"] = ctx.traces
    if ctx.caps:
        cov["caps_hit"] = ctx.caps
    for k, v in sorted(ctx.counters.items()):
        cov["n_" + k] = v
    for k, v in sorted(ctx.sets.items()):
        cov[k] = sorted(map(str, v))[:400]
    cov.update(ctx.notes)
    cov["known_findings_hit"] = [k for k, _ in listed]
    ev = {
        "property_id": ctx.pid,
        "tier": ctx.tier,
        "seed": ctx.seed,
        "level": ctx.level,
        "coverage": cov,
        "assumptions": list(getattr(mod, "ASSUMPTIONS", [])) + ctx.assumptions,
        "wall_s": round(time.time() - t0, 2),
        "violations": len(new),
    }
    os.makedirs(os.path.join(VERIF, "evidence"), exist_ok=True)
    path = os.path.join(VERIF, "evidence", ctx.pid + ".json")
    with open(path, "w") as f:
        json.dump(ev, f, indent=1, sort_keys=True, default=repr)
        f.write("\n")
    validate_evidence(path)
    for key, what in listed:
        print("KNOWN-FINDING: property=%s key=%s %s" % (ctx.pid, key, what))
        # the witness of a listed finding is kept as a replay file too: the known-findings file names the key, this file the failing input
        d = os.path.join(VERIF, "replays", ctx.pid)
        os.makedirs(d, exist_ok=True)
        rp = os.path.join(d, hashlib.blake2b(key.encode(), digest_size=6).hexdigest() + ".json")
        with open(rp, "w") as f:
            json.dump({"property": ctx.pid, "key": key, "what": listed_witness[key][0], "witness": listed_witness[key][1], "known_finding": True}, f, indent=1, default=repr)
            f.write("\n")
    rc = 0
    for key, what, witness in new:
        d = os.path.join(VERIF, "replays", ctx.pid)
        os.makedirs(d, exist_ok=True)
        name = hashlib.blake2b(key.encode(), digest_size=6).hexdigest() + ".json"
        rp = os.path.join(d, name)
        with open(rp, "w") as f:
            json.dump({"property": ctx.pid, "key": key, "what": what, "witness": witness}, f, indent=1, default=repr)
            f.write("\n")
        print("VIOLATION property=%s replay=%s" % (ctx.pid, rp))
        print("  key=%s :: %s" % (key, what))
        rc = 1
    print(
        "%s %s seed=%d: evaluations=%d distinct=%d states=%d transitions=%d known=%d new=%d wall=%.1fs%s"
        % (ctx.pid, ctx.tier, ctx.seed, ctx.evaluations, len(ctx.outcomes), ctx.states, ctx.transitions,
           len(listed), len(new), time.time() - t0, " CAPPED" if ctx.caps else "")
    )
    # vacuity guards: harness error, never a VIOLATION
    if rc == 0:
        if ctx.evaluations < 1 or len(ctx.outcomes) < 2:
            print("HARNESS-ERROR: vacuous exploration (evaluations=%d distinct=%d)" % (ctx.evaluations, len(ctx.outcomes)))
            return 2
        if ctx.counters.get("harness_cpu_timeouts"):
            print("HARNESS-ERROR: a shard hit the CPU watchdog outside an item")
            return 2
    return rc


@contextlib.contextmanager
def scratch(pid):
    """Scratch directory /verif/build/<pid>.<os pid>, removed on exit."""
    import shutil
    d = os.path.join(VERIF, "build", "%s.%d" % (pid, os.getpid()))
    os.makedirs(d, exist_ok=True)
    try:
        yield d
    finally:
        shutil.rmtree(d, ignore_errors=True)
