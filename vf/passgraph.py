"""K2 explorer shared by C02 and C03: breadth-first search over optimisation-pass sequences.

State  = an IR module, identified by (initial module, pass sequence); canonical key = irtools.canon(module).
Action = one optimisation pass applied to the whole module (on a clone made by irtools.clone).
Invariants evaluated in every new state:
  C03: the pass did not raise / run away, checker W (irtools.wellformed) passes, ppci's own verify_module passes;
  C02: for every function and argument vector, Interp(state) == Interp(initial) whenever the initial run is defined.
Also explored: every prefix of the real 24-pass pipeline of api.optimize and the optimize(level) macro actions.
"""
import itertools

from vf.core import cpu_limit, CpuTimeout, exc_key
from vf.sem import irtools, irinterp

PASS_NAMES = ["Mem2RegPromotor", "RemoveAddZeroPass", "ConstantFolder", "CommonSubexpressionEliminationPass",
              "TailCallOptimization", "LoadAfterStorePass", "DeleteUnusedInstructionsPass", "CleanPass", "CJumpPass"]
PIPELINE = PASS_NAMES[:8] * 3


def get_pass(name):
    from ppci.api import (Mem2RegPromotor, CleanPass, CommonSubexpressionEliminationPass, ConstantFolder, LoadAfterStorePass,
                          RemoveAddZeroPass, DeleteUnusedInstructionsPass, TailCallOptimization, CJumpPass)
    return {"Mem2RegPromotor": Mem2RegPromotor, "RemoveAddZeroPass": RemoveAddZeroPass, "ConstantFolder": ConstantFolder,
            "CommonSubexpressionEliminationPass": CommonSubexpressionEliminationPass, "TailCallOptimization": TailCallOptimization,
            "LoadAfterStorePass": LoadAfterStorePass, "DeleteUnusedInstructionsPass": DeleteUnusedInstructionsPass,
            "CleanPass": CleanPass, "CJumpPass": CJumpPass}[name]()


def arg_vectors(func, k=3, cap=16):
    """Full product of the per-parameter boundary alphabets (V_k), capped deterministically."""
    from vf.gen.irgen import V
    cols = []
    for p in func.arguments:
        name = p.ty.name
        if name == "ptr":
            return None  # pointer parameters need caller buffers: not driven by this explorer
        vs = list(V(name, k))
        if name[0] in "iu":
            vs = vs + [5, 2] if name[0] == "u" else vs + [5, -3]
        cols.append(vs)
    vecs = list(itertools.product(*cols)) if cols else [()]
    if len(vecs) > cap:
        step = len(vecs) / cap
        vecs = [vecs[int(i * step)] for i in range(cap)]
    return vecs


def observe(module, vectors, ptr_size=8, max_steps=400):
    """{(function name, vector index): ('ok', observation) | ('undef'|'horizon'|'unsupported', msg)}"""
    out = {}
    for f in module.functions:
        vs = vectors.get(f.name)
        if not vs:
            continue
        for i, v in enumerate(vs):
            out[(f.name, i)] = irinterp.run_function(module, f.name, v, ptr_size=ptr_size, max_steps=max_steps)
    return out


def descriptor_multiset(canon_text):
    import re
    from collections import Counter
    c = Counter()
    for line in canon_text.splitlines():
        line = line.strip()
        if not line or line.endswith(":") or line.startswith(("global", "local", "ext", "var")):
            continue
        line = re.sub(r"\b[vpB]\d+\b", "_", line)
        line = re.sub(r"(i:|f:)[-0-9a-f]+", "K", line)
        line = re.sub(r"@\w+", "@", line)
        c[line] += 1
    return c


def diff_feature(before, after, operands=False):
    a, b = descriptor_multiset(before), descriptor_multiset(after)
    removed = sorted((a - b).keys())
    added = sorted((b - a).keys())
    if operands and not removed and not added:
        return "operands-rewired"

    def short(xs):
        return ",".join(x.replace(" ", "") for x in xs[:3]) or "-"
    return "removed[%s]added[%s]" % (short(removed), short(added))


class Explorer:
    def __init__(self, p, want, depth, vec_k=3, vec_cap=16, closure_cap=0, pipeline=True):
        """p: Partial to record into; want: "C02" or "C03"."""
        self.p = p
        self.want = want
        self.depth = depth
        self.vec_k = vec_k
        self.vec_cap = vec_cap
        self.closure_cap = closure_cap
        self.pipeline = pipeline
        self.states = 0
        self.transitions = 0
        self.max_depth_seen = 0

    # -- one transition --------------------------------------------------------------
    def apply(self, module, pass_name, witness):
        """Run one pass on `module` in place.  Returns False when the pass failed (C03)."""
        the_pass = get_pass(pass_name)
        try:
            with cpu_limit(10):
                the_pass.run(module)
        except CpuTimeout:
            if self.want == "C03":
                self.p.violation("%s/cpu-timeout" % pass_name, "%s did not finish within 10 CPU-seconds" % pass_name, witness)
            return False
        except Exception as ex:  # noqa
            if self.want == "C03":
                self.p.violation(exc_key(pass_name, ex), "%s raised %s: %s" % (pass_name, type(ex).__name__, str(ex)[:200]), witness)
            return False
        return True

    def check_state(self, module, pass_name, witness, canon_before, canon_after, obs0, vectors):
        ok = True
        probs = irtools.wellformed(module)
        stated = [pr for pr in probs if not pr[0].startswith("bookkeeping") and pr[0] != "phi-position"]
        book = [pr for pr in probs if pr[0].startswith("bookkeeping") or pr[0] == "phi-position"]
        if probs:
            ok = not stated
            if self.want == "C03":
                for clause, msg in stated[:1]:
                    self.p.violation("%s/W-%s" % (pass_name, clause), "after %s: %s" % (pass_name, msg), witness)
                for clause, msg in book[:1]:
                    self.p.violation("%s/W-%s" % (pass_name, clause), "after %s: %s" % (pass_name, msg), witness)
        if ok and self.want == "C03":
            from ppci.irutils import verify_module
            try:
                verify_module(module)
            except Exception as ex:  # noqa
                self.p.violation(exc_key(pass_name + "/verify_module", ex), "after %s ppci's verifier rejects the module: %s %s" % (pass_name, type(ex).__name__, str(ex)[:160]), witness)
        if ok and self.want == "C02":
            obs = observe(module, vectors)
            for k, o0 in obs0.items():
                if o0[0] != "ok":
                    continue
                o1 = obs.get(k)
                if o1 != o0:
                    fname, vi = k
                    vec = vectors[fname][vi]
                    if o1 is None:
                        kind = "function-missing"
                    elif o1[0] != "ok":
                        kind = "became-" + o1[0]
                        if o1[0] in ("horizon", "unsupported"):
                            self.p.count("unclassified_" + o1[0])
                            continue
                    elif o1[1][0] != o0[1][0]:
                        kind = "result"
                    elif o1[1][1] != o0[1][1]:
                        kind = "memory"
                    else:
                        kind = "calls"
                    ok = False  # do not expand a behaviourally wrong state: later passes would be blamed for it
                    self.p.violation("%s/%s/%s" % (pass_name, kind, diff_feature(canon_before, canon_after, operands=True)),
                                     "after %s: %s%r gives %r, before optimisation %r" % (pass_name, fname, tuple(vec), o1[1] if o1 and o1[0] == "ok" else o1, o0[1]),
                                     dict(witness, function=fname, vector=list(vec)))
                    break
        return ok

    # -- search ------------------------------------------------------------------------
    def explore(self, make, ident):
        """make() -> fresh initial module; ident: JSON-able identification of the initial module for witnesses."""
        p = self.p
        m0 = make()
        probs = irtools.wellformed(m0)
        if [x for x in probs if not x[0].startswith("bookkeeping")]:
            p.count("initial_not_wellformed")
            return
        vectors = {}
        for f in m0.functions:
            vs = arg_vectors(f, self.vec_k, self.vec_cap)
            if vs:
                vectors[f.name] = vs
        obs0 = observe(m0, vectors) if self.want == "C02" else {}
        if self.want == "C02":
            ndef = sum(1 for o in obs0.values() if o[0] == "ok")
            p.count("initial_runs_defined", ndef)
            p.count("initial_runs_discarded", len(obs0) - ndef)
        c0 = irtools.canon(m0)
        try:
            m0c = irtools.clone(m0)
            assert irtools.canon(m0c) == c0
        except Exception as ex:  # noqa
            p.count("harness_clone_failed")
            raise
        seen = {c0}
        bad = set()
        self.states += 1
        frontier = [(m0, [], c0)]
        depth = 0
        cap = self.closure_cap
        while frontier and (depth < self.depth or cap):
            if depth >= self.depth and len(seen) > cap:
                p.count("closure_cap_hit")
                break
            nxt = []
            for module, seq, cb in frontier:
                for name in PASS_NAMES:
                    m2 = irtools.clone(module)
                    wit = {"initial": ident, "passes": seq + [name]}
                    self.transitions += 1
                    p.add()
                    if not self.apply(m2, name, wit):
                        continue
                    try:
                        ca = irtools.canon(m2)
                    except Exception as ex:  # noqa
                        if self.want == "C03":
                            p.violation(exc_key(name + "/canon", ex), "after %s the module cannot be traversed: %r" % (name, ex), wit)
                        continue
                    if ca in seen:
                        continue
                    seen.add(ca)
                    self.states += 1
                    if ca != cb:
                        p.outcome((name, diff_feature(cb, ca)))
                    if self.check_state(m2, name, wit, cb, ca, obs0, vectors):
                        nxt.append((m2, seq + [name], ca))
                    else:
                        bad.add(ca)
            frontier = nxt
            depth += 1
            self.max_depth_seen = max(self.max_depth_seen, depth)
        if self.pipeline:
            m = irtools.clone(m0)
            cb = c0
            seq = []
            for name in PIPELINE:
                seq = seq + [name]
                wit = {"initial": ident, "passes": list(seq)}
                self.transitions += 1
                p.add()
                if not self.apply(m, name, wit):
                    break
                try:
                    ca = irtools.canon(m)
                except Exception as ex:  # noqa
                    if self.want == "C03":
                        p.violation(exc_key(name + "/canon", ex), "after %s the module cannot be traversed: %r" % (name, ex), wit)
                    break
                if ca in bad:
                    break  # already reported when first reached; later passes must not be blamed
                if ca != cb:
                    if ca not in seen:
                        seen.add(ca)
                        self.states += 1
                        p.outcome((name, diff_feature(cb, ca)))
                        if not self.check_state(m, name, wit, cb, ca, obs0, vectors):
                            break
                    cb = ca
            # optimize(level) macro actions on fresh clones
            from ppci.api import optimize
            for level in ("1", "2", "s"):
                m = irtools.clone(m0)
                wit = {"initial": ident, "optimize_level": level}
                self.transitions += 1
                p.add()
                try:
                    with cpu_limit(20):
                        optimize(m, level=level)
                except CpuTimeout:
                    if self.want == "C03":
                        p.violation("optimize/cpu-timeout", "optimize(level=%s) did not finish" % level, wit)
                    continue
                except Exception as ex:  # noqa
                    if self.want == "C03":
                        p.violation(exc_key("optimize", ex), "optimize(level=%s) raised %s: %s" % (level, type(ex).__name__, str(ex)[:160]), wit)
                    continue
                ca = irtools.canon(m)
                if ca not in seen:
                    seen.add(ca)
                    self.states += 1
                    self.check_state(m, "optimize(%s)" % level, wit, c0, ca, obs0, vectors)
                if level == "1":
                    pass
        return len(seen)


def replay_sequence(make, witness, want):
    """Re-derive a violation from a fresh initial module without the explorer."""
    from vf.core import Partial
    p = Partial()
    ex = Explorer(p, want, 0)
    m = make()
    vectors = {}
    for f in m.functions:
        vs = arg_vectors(f, 7, 49)
        if vs:
            vectors[f.name] = vs
        if witness.get("function") == f.name and witness.get("vector") is not None:
            vectors[f.name] = [tuple(witness["vector"])] + list(vs or [])
    obs0 = observe(m, vectors) if want == "C02" else {}
    c0 = irtools.canon(m)
    if "optimize_level" in witness:
        from ppci.api import optimize
        try:
            optimize(m, level=witness["optimize_level"])
        except Exception as exn:  # noqa
            return (want == "C03"), "optimize raised %r" % exn
        ex.check_state(m, "optimize(%s)" % witness["optimize_level"], witness, c0, irtools.canon(m), obs0, vectors)
    else:
        cb = c0
        for i, name in enumerate(witness["passes"]):
            last = i == len(witness["passes"]) - 1
            cb = irtools.canon(m)
            if not ex.apply(m, name, witness):
                break
            if last:
                ex.check_state(m, name, witness, cb, irtools.canon(m), obs0, vectors)
    if p.violations:
        k = sorted(p.violations)[0]
        return True, k + ": " + p.violations[k][1]
    return False, "sequence preserves the invariant"
