"""Reference RV32IMC emulator (DESIGN 3.3).

Written from "The RISC-V Instruction Set Manual, Volume I: Unprivileged ISA" (RV32I 2.1, M 2.0, C 2.0); nothing here reads
ppci/arch/riscv.  Two layers:

  decode(word) -> Insn     pure decoder.  `word` is the 32-bit little-endian fetch (only the low 16 bits are looked at for a
                           compressed instruction).  A compressed instruction is decoded to its own mnemonic *and* to the base
                           instruction it expands to (`op`, rd, rs1, rs2, imm) - the executor only knows base operations.
                           Reserved / unsupported encodings raise IllegalInstruction.  HINT encodings (writes to x0 and friends)
                           decode normally with .hint = True; they execute as the no-ops the manual says they are.
  Machine / run(...)       flat little-endian memory, 32 registers, pc; ILP32 call: arguments in a0..a7 (or any register list
                           the caller names), return address = SENTINEL, result in a0/a1.

text(insn) prints an instruction the way `llvm-mc --disassemble -M no-aliases` does; tests/test_rv32.py compares the two on a
boundary lattice of encodings, and runs clang-compiled leaf functions against the same C compiled natively.

Not implemented on purpose (IllegalInstruction, callers treat the item as unclassified): F/D/A/Zicsr/Zifencei, the RV64/128-only
compressed forms, shift amounts >= 32.  ecall/ebreak raise Trap.
"""

SENTINEL = 0xFFFFFFF0
M32 = 0xFFFFFFFF

ABI = ["zero", "ra", "sp", "gp", "tp", "t0", "t1", "t2", "s0", "s1", "a0", "a1", "a2", "a3", "a4", "a5", "a6", "a7",
       "s2", "s3", "s4", "s5", "s6", "s7", "s8", "s9", "s10", "s11", "t3", "t4", "t5", "t6"]


class EmuError(Exception):
    pass


class IllegalInstruction(EmuError):
    def __init__(self, word, pc=None, why=""):
        self.word = word
        self.pc = pc
        self.why = why
        EmuError.__init__(self, "illegal instruction %#010x%s%s" % (word, "" if pc is None else " at pc=%#x" % pc, " (%s)" % why if why else ""))


class MemoryFault(EmuError):
    pass


class MisalignedAccess(MemoryFault):
    pass


class StepLimit(EmuError):
    pass


class Trap(EmuError):
    """ecall / ebreak reached."""


class Insn:
    __slots__ = ("name", "size", "op", "rd", "rs1", "rs2", "imm", "hint")

    def __init__(self, name, size, op, rd=0, rs1=0, rs2=0, imm=0, hint=False):
        self.name, self.size, self.op, self.rd, self.rs1, self.rs2, self.imm, self.hint = name, size, op, rd, rs1, rs2, imm, hint

    def __repr__(self):
        return "<%s>" % text(self)


def sx(v, bits):
    """sign-extend the low `bits` bits of v"""
    v &= (1 << bits) - 1
    return v - (1 << bits) if v >> (bits - 1) else v


def _bits(w, hi, lo):
    return (w >> lo) & ((1 << (hi - lo + 1)) - 1)


BRANCH = {0: "beq", 1: "bne", 4: "blt", 5: "bge", 6: "bltu", 7: "bgeu"}
LOAD = {0: "lb", 1: "lh", 2: "lw", 4: "lbu", 5: "lhu"}
STORE = {0: "sb", 1: "sh", 2: "sw"}
OPIMM = {0: "addi", 2: "slti", 3: "sltiu", 4: "xori", 6: "ori", 7: "andi"}
OP = {(0, 0): "add", (0x20, 0): "sub", (0, 1): "sll", (0, 2): "slt", (0, 3): "sltu", (0, 4): "xor", (0, 5): "srl", (0x20, 5): "sra",
      (0, 6): "or", (0, 7): "and",
      (1, 0): "mul", (1, 1): "mulh", (1, 2): "mulhsu", (1, 3): "mulhu", (1, 4): "div", (1, 5): "divu", (1, 6): "rem", (1, 7): "remu"}


def decode(word):
    if word & 3 != 3:
        return _decode16(word & 0xFFFF)
    w = word & M32
    opc = w & 0x7F
    rd, f3, rs1, rs2, f7 = _bits(w, 11, 7), _bits(w, 14, 12), _bits(w, 19, 15), _bits(w, 24, 20), _bits(w, 31, 25)
    if opc == 0x37:
        return Insn("lui", 4, "lui", rd, imm=w & 0xFFFFF000)
    if opc == 0x17:
        return Insn("auipc", 4, "auipc", rd, imm=w & 0xFFFFF000)
    if opc == 0x6F:
        imm = (_bits(w, 31, 31) << 20) | (_bits(w, 19, 12) << 12) | (_bits(w, 20, 20) << 11) | (_bits(w, 30, 21) << 1)
        return Insn("jal", 4, "jal", rd, imm=sx(imm, 21))
    if opc == 0x67:
        if f3 != 0:
            raise IllegalInstruction(w, why="jalr funct3")
        return Insn("jalr", 4, "jalr", rd, rs1, imm=sx(w >> 20, 12))
    if opc == 0x63:
        if f3 not in BRANCH:
            raise IllegalInstruction(w, why="branch funct3")
        imm = (_bits(w, 31, 31) << 12) | (_bits(w, 7, 7) << 11) | (_bits(w, 30, 25) << 5) | (_bits(w, 11, 8) << 1)
        return Insn(BRANCH[f3], 4, BRANCH[f3], 0, rs1, rs2, sx(imm, 13))
    if opc == 0x03:
        if f3 not in LOAD:
            raise IllegalInstruction(w, why="load width")
        return Insn(LOAD[f3], 4, LOAD[f3], rd, rs1, imm=sx(w >> 20, 12))
    if opc == 0x23:
        if f3 not in STORE:
            raise IllegalInstruction(w, why="store width")
        return Insn(STORE[f3], 4, STORE[f3], 0, rs1, rs2, sx((f7 << 5) | rd, 12))
    if opc == 0x13:
        if f3 == 1:
            if f7 != 0:
                raise IllegalInstruction(w, why="slli funct7/shamt")
            return Insn("slli", 4, "slli", rd, rs1, imm=rs2)
        if f3 == 5:
            if f7 == 0:
                return Insn("srli", 4, "srli", rd, rs1, imm=rs2)
            if f7 == 0x20:
                return Insn("srai", 4, "srai", rd, rs1, imm=rs2)
            raise IllegalInstruction(w, why="srli/srai funct7/shamt")
        return Insn(OPIMM[f3], 4, OPIMM[f3], rd, rs1, imm=sx(w >> 20, 12))
    if opc == 0x33:
        n = OP.get((f7, f3))
        if n is None:
            raise IllegalInstruction(w, why="OP funct7")
        return Insn(n, 4, n, rd, rs1, rs2)
    if opc == 0x0F:
        if f3 == 0 and rd == 0 and rs1 == 0 and (w >> 28) == 0 and _bits(w, 27, 24) and _bits(w, 23, 20):
            return Insn("fence", 4, "nop", imm=_bits(w, 27, 20))
        raise IllegalInstruction(w, why="fence.i (Zifencei) / fence with reserved fields set")
    if opc == 0x73:
        if w == 0x00000073:
            return Insn("ecall", 4, "trap")
        if w == 0x00100073:
            return Insn("ebreak", 4, "trap")
        raise IllegalInstruction(w, why="SYSTEM/Zicsr")
    raise IllegalInstruction(w, why="major opcode %#x" % opc)


def _decode16(h):
    q, f3 = h & 3, h >> 13
    r = _bits(h, 11, 7)            # full 5-bit register field
    r2 = _bits(h, 6, 2)
    rp1 = 8 + _bits(h, 9, 7)       # 3-bit register fields name x8..x15
    rp2 = 8 + _bits(h, 4, 2)
    b12 = _bits(h, 12, 12)
    imm6 = sx((b12 << 5) | r2, 6)
    if q == 0:
        if f3 == 0:
            imm = (_bits(h, 10, 7) << 6) | (_bits(h, 12, 11) << 4) | (_bits(h, 5, 5) << 3) | (_bits(h, 6, 6) << 2)
            if imm == 0:
                raise IllegalInstruction(h, why="c.addi4spn nzuimm=0 / defined illegal")
            return Insn("c.addi4spn", 2, "addi", rp2, 2, imm=imm)
        if f3 in (2, 6):
            imm = (_bits(h, 5, 5) << 6) | (_bits(h, 12, 10) << 3) | (_bits(h, 6, 6) << 2)
            if f3 == 2:
                return Insn("c.lw", 2, "lw", rp2, rp1, imm=imm)
            return Insn("c.sw", 2, "sw", 0, rp1, rp2, imm)
        raise IllegalInstruction(h, why="C quadrant 0 float/reserved")
    if q == 1:
        if f3 == 0:
            if r == 0:
                return Insn("c.nop", 2, "addi", 0, 0, imm=imm6, hint=imm6 != 0)
            return Insn("c.addi", 2, "addi", r, r, imm=imm6, hint=imm6 == 0)
        if f3 in (1, 5):
            imm = (b12 << 11) | (_bits(h, 8, 8) << 10) | (_bits(h, 10, 9) << 8) | (_bits(h, 6, 6) << 7) | (_bits(h, 7, 7) << 6) | \
                  (_bits(h, 2, 2) << 5) | (_bits(h, 11, 11) << 4) | (_bits(h, 5, 3) << 1)
            return Insn("c.jal" if f3 == 1 else "c.j", 2, "jal", 1 if f3 == 1 else 0, imm=sx(imm, 12))
        if f3 == 2:
            return Insn("c.li", 2, "addi", r, 0, imm=imm6, hint=r == 0)
        if f3 == 3:
            if r == 2:
                imm = sx((b12 << 9) | (_bits(h, 4, 3) << 7) | (_bits(h, 5, 5) << 6) | (_bits(h, 2, 2) << 5) | (_bits(h, 6, 6) << 4), 10)
                if imm == 0:
                    raise IllegalInstruction(h, why="c.addi16sp nzimm=0")
                return Insn("c.addi16sp", 2, "addi", 2, 2, imm=imm)
            if imm6 == 0 or r == 0:
                raise IllegalInstruction(h, why="c.lui nzimm=0 (reserved) or rd=0 (hint)")
            return Insn("c.lui", 2, "lui", r, imm=(imm6 << 12) & M32)
        if f3 == 4:
            k = _bits(h, 11, 10)
            if k in (0, 1):
                if b12 or r2 == 0:
                    raise IllegalInstruction(h, why="c.srli/c.srai shamt[5]=1 or shamt=0 (c.srli64 hint) on RV32")
                return Insn("c.srli" if k == 0 else "c.srai", 2, "srli" if k == 0 else "srai", rp1, rp1, imm=r2)
            if k == 2:
                return Insn("c.andi", 2, "andi", rp1, rp1, imm=imm6)
            if b12:
                raise IllegalInstruction(h, why="c.subw/c.addw/reserved")
            n = ("sub", "xor", "or", "and")[_bits(h, 6, 5)]
            return Insn("c." + n, 2, n, rp1, rp1, rp2)
        imm = sx((b12 << 8) | (_bits(h, 6, 5) << 6) | (_bits(h, 2, 2) << 5) | (_bits(h, 11, 10) << 3) | (_bits(h, 4, 3) << 1), 9)
        return Insn("c.beqz" if f3 == 6 else "c.bnez", 2, "beq" if f3 == 6 else "bne", 0, rp1, 0, imm)
    # q == 2
    if f3 == 0:
        if b12 or r2 == 0:
            raise IllegalInstruction(h, why="c.slli shamt[5]=1 or shamt=0 (c.slli64 hint) on RV32")
        return Insn("c.slli", 2, "slli", r, r, imm=r2, hint=r == 0)
    if f3 == 2:
        if r == 0:
            raise IllegalInstruction(h, why="c.lwsp rd=0")
        imm = (_bits(h, 3, 2) << 6) | (b12 << 5) | (_bits(h, 6, 4) << 2)
        return Insn("c.lwsp", 2, "lw", r, 2, imm=imm)
    if f3 == 4:
        if not b12:
            if r2 == 0:
                if r == 0:
                    raise IllegalInstruction(h, why="c.jr rs1=0")
                return Insn("c.jr", 2, "jalr", 0, r, imm=0)
            return Insn("c.mv", 2, "add", r, 0, r2, hint=r == 0)
        if r2 == 0:
            if r == 0:
                return Insn("c.ebreak", 2, "trap")
            return Insn("c.jalr", 2, "jalr", 1, r, imm=0)
        return Insn("c.add", 2, "add", r, r, r2, hint=r == 0)
    if f3 == 6:
        imm = (_bits(h, 8, 7) << 6) | (_bits(h, 12, 9) << 2)
        return Insn("c.swsp", 2, "sw", 0, 2, r2, imm)
    raise IllegalInstruction(h, why="C quadrant 2 float/reserved")


_FENCE = lambda v: "".join(c for c, b in zip("iorw", (8, 4, 2, 1)) if v & b) or "0"  # noqa


def text(i):
    """llvm-mc -M no-aliases spelling (operands separated by ', ')."""
    n, R = i.name, ABI
    if n in ("lui", "auipc"):
        return "%s %s, %d" % (n, R[i.rd], (i.imm >> 12) & 0xFFFFF)
    if n == "jal":
        return "jal %s, %d" % (R[i.rd], i.imm)
    if n == "jalr":
        return "jalr %s, %d(%s)" % (R[i.rd], i.imm, R[i.rs1])
    if n in ("beq", "bne", "blt", "bge", "bltu", "bgeu"):
        return "%s %s, %s, %d" % (n, R[i.rs1], R[i.rs2], i.imm)
    if n in ("lb", "lh", "lw", "lbu", "lhu"):
        return "%s %s, %d(%s)" % (n, R[i.rd], i.imm, R[i.rs1])
    if n in ("sb", "sh", "sw"):
        return "%s %s, %d(%s)" % (n, R[i.rs2], i.imm, R[i.rs1])
    if n in ("addi", "slti", "sltiu", "xori", "ori", "andi", "slli", "srli", "srai"):
        return "%s %s, %s, %d" % (n, R[i.rd], R[i.rs1], i.imm)
    if n == "fence":
        return "fence %s, %s" % (_FENCE(i.imm >> 4), _FENCE(i.imm & 15))
    if n in ("ecall", "ebreak", "c.nop", "c.ebreak"):
        if n == "c.nop" and i.imm:
            return "c.nop %d" % i.imm
        return n
    if n == "c.addi4spn":
        return "c.addi4spn %s, %s, %d" % (R[i.rd], R[i.rs1], i.imm)
    if n == "c.addi16sp":
        return "c.addi16sp %s, %d" % (R[i.rd], i.imm)
    if n in ("c.lw", "c.lwsp"):
        return "%s %s, %d(%s)" % (n, R[i.rd], i.imm, R[i.rs1])
    if n in ("c.sw", "c.swsp"):
        return "%s %s, %d(%s)" % (n, R[i.rs2], i.imm, R[i.rs1])
    if n in ("c.addi", "c.li", "c.andi", "c.srli", "c.srai", "c.slli"):
        return "%s %s, %d" % (n, R[i.rd], i.imm)
    if n == "c.lui":
        return "c.lui %s, %d" % (R[i.rd], (i.imm >> 12) & 0xFFFFF)
    if n in ("c.j", "c.jal"):
        return "%s %d" % (n, i.imm)
    if n in ("c.beqz", "c.bnez"):
        return "%s %s, %d" % (n, R[i.rs1], i.imm)
    if n in ("c.jr", "c.jalr"):
        return "%s %s" % (n, R[i.rs1])
    if n in ("c.mv", "c.add", "c.sub", "c.xor", "c.or", "c.and"):
        return "%s %s, %s" % (n, R[i.rd], R[i.rs2])
    return "%s %s, %s, %s" % (n, R[i.rd], R[i.rs1], R[i.rs2])   # OP / M


# --------------------------------------------------------------------------------------------------------- execution

def _s(v):
    return v - 0x100000000 if v & 0x80000000 else v


def _divq(a, b):
    """quotient truncated toward zero"""
    q = abs(a) // abs(b)
    return -q if (a < 0) != (b < 0) else q


def _alu(op, a, b):
    """a, b: unsigned 32-bit register values -> unsigned 32-bit result (register-register form of every ALU operation)"""
    if op == "add":
        return (a + b) & M32
    if op == "sub":
        return (a - b) & M32
    if op == "and":
        return a & b
    if op == "or":
        return a | b
    if op == "xor":
        return a ^ b
    if op == "sll":
        return (a << (b & 31)) & M32
    if op == "srl":
        return a >> (b & 31)
    if op == "sra":
        return (_s(a) >> (b & 31)) & M32
    if op == "slt":
        return 1 if _s(a) < _s(b) else 0
    if op == "sltu":
        return 1 if a < b else 0
    if op == "mul":
        return (a * b) & M32
    if op == "mulh":
        return ((_s(a) * _s(b)) >> 32) & M32
    if op == "mulhsu":
        return ((_s(a) * b) >> 32) & M32
    if op == "mulhu":
        return ((a * b) >> 32) & M32
    if op == "div":
        if b == 0:
            return M32
        if a == 0x80000000 and b == M32:
            return a
        return _divq(_s(a), _s(b)) & M32
    if op == "divu":
        return M32 if b == 0 else a // b
    if op == "rem":
        if b == 0:
            return a
        if a == 0x80000000 and b == M32:
            return 0
        sa, sb = _s(a), _s(b)
        return (sa - _divq(sa, sb) * sb) & M32
    if op == "remu":
        return a if b == 0 else a % b
    raise AssertionError(op)


_IMM2REG = {"addi": "add", "slti": "slt", "sltiu": "sltu", "xori": "xor", "ori": "or", "andi": "and", "slli": "sll", "srli": "srl", "srai": "sra"}
_CMP = {"beq": lambda a, b: a == b, "bne": lambda a, b: a != b, "blt": lambda a, b: _s(a) < _s(b), "bge": lambda a, b: _s(a) >= _s(b),
        "bltu": lambda a, b: a < b, "bgeu": lambda a, b: a >= b}
_LD = {"lb": (1, True), "lh": (2, True), "lw": (4, False), "lbu": (1, False), "lhu": (2, False)}
_ST = {"sb": 1, "sh": 2, "sw": 4}


class Machine:
    """32 x registers, pc, one flat little-endian memory [base, base+size)."""

    def __init__(self, size=1 << 18, base=0, strict_align=False):
        self.base = base
        self.mem = bytearray(size)
        self.x = [0] * 32
        self.pc = 0
        self.steps = 0
        self.strict_align = strict_align
        self.icache = {}
        self.code_lo, self.code_hi = 1 << 33, 0      # range of addresses instructions were fetched from
        self.hooks = {}           # address -> callable(machine): a host-implemented function; it returns to ra afterwards
        self.trace = None         # set to a list to record every executed pc
        self.writes = None        # set to a dict to record address -> size of every store

    def load(self, addr, data):
        o = addr - self.base
        if o < 0 or o + len(data) > len(self.mem):
            raise MemoryFault("image [%#x, %#x) outside memory" % (addr, addr + len(data)))
        self.mem[o:o + len(data)] = data
        self.icache.clear()

    def read(self, addr, n):
        o = addr - self.base
        if o < 0 or o + n > len(self.mem):
            raise MemoryFault("read of %d bytes at %#x outside memory (pc=%#x)" % (n, addr, self.pc))
        if self.strict_align and addr % n:
            raise MisalignedAccess("misaligned %d-byte read at %#x (pc=%#x)" % (n, addr, self.pc))
        return int.from_bytes(self.mem[o:o + n], "little")

    def write(self, addr, n, v):
        o = addr - self.base
        if o < 0 or o + n > len(self.mem):
            raise MemoryFault("write of %d bytes at %#x outside memory (pc=%#x)" % (n, addr, self.pc))
        if self.strict_align and addr % n:
            raise MisalignedAccess("misaligned %d-byte write at %#x (pc=%#x)" % (n, addr, self.pc))
        self.mem[o:o + n] = (v & ((1 << (8 * n)) - 1)).to_bytes(n, "little")
        if self.writes is not None:
            self.writes[addr] = n
        if self.code_lo - 3 <= addr < self.code_hi:      # a store into fetched code: drop the decoded copies
            for a in range(addr - 3, addr + n):
                self.icache.pop(a, None)

    def fetch(self, pc):
        i = self.icache.get(pc)
        if i is None:
            if pc & 1:
                raise MisalignedAccess("instruction fetch at odd address %#x" % pc)
            o = pc - self.base
            if o < 0 or o + 2 > len(self.mem):
                raise MemoryFault("instruction fetch at %#x outside memory" % pc)
            w = int.from_bytes(self.mem[o:o + 4], "little")       # may be short at the very end of memory: then only 16 bits
            if w & 3 == 3 and o + 4 > len(self.mem):
                raise MemoryFault("instruction fetch at %#x crosses the end of memory" % pc)
            try:
                i = decode(w)
            except IllegalInstruction as e:
                e.pc = pc
                e.args = ("illegal instruction %#010x at pc=%#x (%s)" % (e.word, pc, e.why),)
                raise
            self.icache[pc] = i
            if pc < self.code_lo:
                self.code_lo = pc
            if pc + 4 > self.code_hi:
                self.code_hi = pc + 4
        return i

    def step(self):
        pc = self.pc
        i = self.fetch(pc)
        x = self.x
        op = i.op
        npc = (pc + i.size) & M32
        if self.trace is not None:
            self.trace.append(pc)
        r = _IMM2REG.get(op)
        if r is not None:
            v = _alu(r, x[i.rs1], i.imm & M32)
            if i.rd:
                x[i.rd] = v
        elif op in _LD:
            n, signed = _LD[op]
            v = self.read((x[i.rs1] + i.imm) & M32, n)
            if signed:
                v = sx(v, 8 * n) & M32
            if i.rd:
                x[i.rd] = v
        elif op in _ST:
            self.write((x[i.rs1] + i.imm) & M32, _ST[op], x[i.rs2])
        elif op in _CMP:
            if _CMP[op](x[i.rs1], x[i.rs2]):
                npc = (pc + i.imm) & M32
        elif op == "jal":
            if i.rd:
                x[i.rd] = npc
            npc = (pc + i.imm) & M32
        elif op == "jalr":
            t = (x[i.rs1] + i.imm) & 0xFFFFFFFE
            if i.rd:
                x[i.rd] = npc
            npc = t
        elif op == "lui":
            if i.rd:
                x[i.rd] = i.imm & M32
        elif op == "auipc":
            if i.rd:
                x[i.rd] = (pc + i.imm) & M32
        elif op == "nop":
            pass
        elif op == "trap":
            raise Trap("%s at pc=%#x" % (i.name, pc))
        else:
            v = _alu(op, x[i.rs1], x[i.rs2])
            if i.rd:
                x[i.rd] = v
        self.pc = npc
        self.steps += 1

    def run(self, max_steps=100000, stop=SENTINEL):
        n = 0
        hooks = self.hooks
        while self.pc != stop:
            if n >= max_steps:
                raise StepLimit("no return after %d instructions (pc=%#x)" % (max_steps, self.pc))
            if hooks and self.pc in hooks:
                hooks[self.pc](self)
                self.pc = self.x[1] & 0xFFFFFFFE
            else:
                self.step()
            n += 1
        return n


class Result:
    __slots__ = ("a0", "a1", "regs", "machine", "steps")

    def __init__(self, m, steps):
        self.a0, self.a1, self.regs, self.machine, self.steps = m.x[10], m.x[11], list(m.x), m, steps


def run(image_bytes, load_address, entry, args=(), stack_top=None, max_steps=100000, mem_size=1 << 18, mem_base=0, arg_regs=(10, 11, 12, 13, 14, 15, 16, 17),
        strict_align=False, extra_images=(), init_regs=None, trace=False, hooks=None):
    """Load `image_bytes` at `load_address` (plus (address, bytes) pairs in extra_images), put `args` (ints, taken modulo 2^32)
    in a0..a7 (ILP32; or in the registers named by `arg_regs`), ra = SENTINEL, sp = stack_top (default: 16 below the end of memory),
    run from `entry` until control returns to SENTINEL.  -> Result (a0, a1, regs, machine).
    Raises IllegalInstruction / MemoryFault / MisalignedAccess / StepLimit / Trap."""
    m = Machine(mem_size, mem_base, strict_align)
    m.load(load_address, image_bytes)
    for a, b in extra_images:
        m.load(a, b)
    if len(args) > len(arg_regs):
        raise ValueError("only %d register arguments are supported" % len(arg_regs))
    if init_regs:
        for r, v in init_regs.items():
            m.x[r] = v & M32
    for r, v in zip(arg_regs, args):
        m.x[r] = v & M32
    m.x[0] = 0
    m.x[1] = SENTINEL
    m.x[2] = (mem_base + mem_size - 16 if stack_top is None else stack_top) & M32
    m.pc = entry & M32
    if trace:
        m.trace = []
    if hooks:
        m.hooks = dict(hooks)
    steps = m.run(max_steps)
    return Result(m, steps)
