"""Reference emulator for 32-bit ARM integer code: A32 (ARM state) and Thumb (T16 + the Thumb-2 T32 integer subset).

Written from the ARM Architecture Reference Manual (ARMv7-A/R and ARMv7-M editions: instruction encodings of chapters A5/A6,
pseudo-code of A8/A7: Shift_C, AddWithCarry, ARMExpandImm_C, ThumbExpandImm_C, ITAdvance, BXWritePC ...); nothing here reads
ppci/arch/arm.  Layers (same shape as vf/sem/rv32.py):

  decode_arm(word) / decode_thumb(hw1, hw2) -> Insn    pure decoders (decode(word, thumb) wraps both).  Everything that is
        UNDEFINED, UNPREDICTABLE, privileged, floating point/SIMD/coprocessor or simply not implemented raises
        IllegalInstruction (never a guess); .why names the class ("UNPREDICTABLE ...", "unsupported ...", "UNDEFINED ...").
  text(insn)                                           LLVM's spelling (llvm-mc --disassemble) with the ".w" width suffix removed.
  Machine / run(...)                                   flat little-endian memory, r0..r15, NZCVQ, Thumb bit, ITSTATE.
        Call: arguments in the registers named by arg_regs (AAPCS r0-r3 by default), lr = SENTINEL (| 1 in Thumb state),
        sp = stack_top, run until control returns to SENTINEL.  hooks: address -> callable(machine), a host function that
        returns through lr.

Alignment: ldm/stm/push/pop/ldrd/strd always need word alignment (MisalignedAccess); the other accesses may be unaligned
(ARMv7 with SCTLR.A = 0) unless strict_align is set (ARMv6-M behaviour: every access naturally aligned).
svc / bkpt / udf raise Trap when executed.
"""

SENTINEL = 0xFFFFFFF0
M32 = 0xFFFFFFFF

REG = ["r0", "r1", "r2", "r3", "r4", "r5", "r6", "r7", "r8", "r9", "r10", "r11", "r12", "sp", "lr", "pc"]
COND = ["eq", "ne", "hs", "lo", "mi", "pl", "vs", "vc", "hi", "ls", "ge", "lt", "gt", "le", "", ""]
AL = 14
LSL, LSR, ASR, ROR, RRX = 0, 1, 2, 3, 4
SHNAME = ["lsl", "lsr", "asr", "ror", "rrx"]


class EmuError(Exception):
    pass


class IllegalInstruction(EmuError):
    def __init__(self, word, pc=None, why=""):
        self.word = word
        self.pc = pc
        self.why = why
        EmuError.__init__(self, "illegal instruction %#010x%s%s" % (word, "" if pc is None else " at pc=%#x" % pc, " (%s)" % why if why else ""))


class MemoryFault(EmuError):
    pass


class MisalignedAccess(MemoryFault):
    pass


class StepLimit(EmuError):
    pass


class Trap(EmuError):
    """svc / bkpt / udf reached."""


class Insn:
    """One decoded instruction.  k: kind (executor dispatch); name: base mnemonic; cond: 0..14; s: sets flags;
    sit: (Thumb 16-bit) sets flags only outside an IT block; the other fields depend on the kind."""
    __slots__ = ("k", "name", "size", "cond", "s", "sit", "rd", "rn", "rm", "rs", "ra", "rt", "rt2", "imm", "carry", "o2", "sh", "sha",
                 "P", "U", "W", "regs", "link", "aux", "word", "thumb")

    def __init__(self, k, name, size, cond=AL, **kw):
        self.k, self.name, self.size, self.cond = k, name, size, cond
        self.s = self.sit = False
        self.rd = self.rn = self.rm = self.rs = self.ra = self.rt = self.rt2 = None
        self.imm = self.carry = self.o2 = self.sh = self.sha = None
        self.P = self.U = self.W = None
        self.regs = self.link = self.aux = None
        self.word = 0
        self.thumb = False
        for a, v in kw.items():
            setattr(self, a, v)

    def __repr__(self):
        return "<%s>" % text(self)


def sx(v, bits):
    v &= (1 << bits) - 1
    return v - (1 << bits) if v >> (bits - 1) else v


def _b(w, hi, lo):
    return (w >> lo) & ((1 << (hi - lo + 1)) - 1)


def ror32(v, n):
    n &= 31
    return ((v >> n) | (v << (32 - n))) & M32 if n else v & M32


# ------------------------------------------------------------------------------------------------ pseudo-code helpers

def shift_c(v, st, n, cin):
    """Shift_C of the manual: (result, carry_out); n == 0 leaves value and carry alone (RRX always shifts by one)."""
    v &= M32
    if st == RRX:
        return ((cin << 31) | (v >> 1)) & M32, v & 1
    if n == 0:
        return v, cin
    if st == LSL:
        if n > 32:
            return 0, 0
        x = v << n
        return x & M32, (x >> 32) & 1
    if st == LSR:
        if n > 32:
            return 0, 0
        return (v >> n) & M32, (v >> (n - 1)) & 1
    if st == ASR:
        s = v - (1 << 32) if v >> 31 else v
        if n > 32:
            n = 32
        return (s >> n) & M32, (s >> (n - 1)) & 1
    r = ror32(v, n % 32)            # ROR
    return r, r >> 31


def decode_imm_shift(ty, imm5):
    if ty == 0:
        return LSL, imm5
    if ty == 1:
        return LSR, imm5 or 32
    if ty == 2:
        return ASR, imm5 or 32
    return (RRX, 1) if imm5 == 0 else (ROR, imm5)


def add_with_carry(x, y, cin):
    us = x + y + cin
    r = us & M32
    sx_, sy = (x - (1 << 32) if x >> 31 else x), (y - (1 << 32) if y >> 31 else y)
    ss = sx_ + sy + cin
    rs = r - (1 << 32) if r >> 31 else r
    return r, 1 if us != r else 0, 1 if ss != rs else 0


def arm_expand_imm_c(imm12, cin):
    rot = 2 * (imm12 >> 8)
    v = ror32(imm12 & 0xFF, rot)
    return v, (v >> 31 if rot else cin)


def thumb_expand_imm_c(imm12, cin):
    """-> (imm32, carry) or None when UNPREDICTABLE"""
    if imm12 >> 10 == 0:
        k, b = (imm12 >> 8) & 3, imm12 & 0xFF
        if k == 0:
            return b, cin
        if b == 0:
            return None
        if k == 1:
            return (b << 16) | b, cin
        if k == 2:
            return (b << 24) | (b << 8), cin
        return (b << 24) | (b << 16) | (b << 8) | b, cin
    v = ror32(0x80 | (imm12 & 0x7F), imm12 >> 7)
    return v, v >> 31


def _ill(w, why):
    raise IllegalInstruction(w, why=why)


# ------------------------------------------------------------------------------------------------ A32 decoder

DPNAMES = ["and", "eor", "sub", "rsb", "add", "adc", "sbc", "rsc", "tst", "teq", "cmp", "cmn", "orr", "mov", "bic", "mvn"]
TESTOPS = ("tst", "teq", "cmp", "cmn")


def decode_arm(w):
    w &= M32
    i = _decode_arm(w)
    i.word = w
    return i


def _decode_arm(w):
    cond = w >> 28
    if cond == 15:
        _ill(w, "unsupported: A32 unconditional instruction space (blx imm, pld, SIMD, ...)")
    op = _b(w, 27, 25)
    if op in (0, 1):
        return _arm_dp_misc(w, cond)
    if op == 2:
        return _arm_ldst(w, cond)
    if op == 3:
        return _arm_media(w, cond) if w & 0x10 else _arm_ldst(w, cond)
    if op == 4:
        return _arm_ldm(w, cond)
    if op == 5:
        return Insn("b", "bl" if w & (1 << 24) else "b", 4, cond, imm=sx((w & 0xFFFFFF) << 2, 26), link=bool(w & (1 << 24)))
    if _b(w, 27, 24) == 15:
        return Insn("trap", "svc", 4, cond, imm=w & 0xFFFFFF)
    _ill(w, "unsupported: coprocessor / floating point / SIMD")


def _arm_dp_misc(w, cond):
    imm_form = bool(w & (1 << 25))
    opc, S, rn, rd = _b(w, 24, 21), bool(w & (1 << 20)), _b(w, 19, 16), _b(w, 15, 12)
    if not imm_form:
        if w & 0x90 == 0x90:
            if _b(w, 6, 5) == 0:
                if w & (1 << 24):
                    _ill(w, "unsupported: synchronisation primitives (swp, ldrex/strex)")
                return _arm_mul(w, cond)
            return _arm_extra_ldst(w, cond)
        if 8 <= opc <= 11 and not S:
            if w & 0x80:
                return _arm_halfmul(w, cond)
            return _arm_misc(w, cond)
    elif 8 <= opc <= 11 and not S:
        op = _b(w, 24, 20)
        if op in (0x10, 0x14):
            if rd == 15:
                _ill(w, "UNPREDICTABLE: movw/movt to pc")
            return Insn("mov16", "movw" if op == 0x10 else "movt", 4, cond, rd=rd, imm=(rn << 12) | (w & 0xFFF))
        if w & 0x0FFFFF00 == 0x0320F000:
            h = w & 0xFF
            if h in (0, 1):
                return Insn("nop", ("nop", "yield")[h], 4, cond)
            _ill(w, "unsupported: hint %d (wfe/wfi/sev/dbg/...)" % h)
        _ill(w, "unsupported: msr immediate")
    name = DPNAMES[opc]
    i = Insn("dp", name, 4, cond, s=S, rd=rd, rn=rn)
    if name in TESTOPS:
        if rd != 0:
            _ill(w, "UNPREDICTABLE: compare/test with Rd field != 0")
        i.rd = None
    if name in ("mov", "mvn"):
        if rn != 0:
            _ill(w, "UNPREDICTABLE: mov/mvn with Rn field != 0")
        i.rn = None
    if rd == 15 and S and name not in TESTOPS:
        _ill(w, "unsupported: flag-setting data processing to pc (exception return)")
    if imm_form:
        i.o2, i.imm = "imm", w & 0xFFF
    elif w & 0x10:
        i.o2, i.rm, i.sh, i.rs = "rsr", w & 15, _b(w, 6, 5), _b(w, 11, 8)
        if 15 in (i.rm, i.rs, rd if i.rd is not None else 0, rn if i.rn is not None else 0):
            _ill(w, "UNPREDICTABLE: pc in register-shifted-register data processing")
    else:
        i.o2, i.rm = "reg", w & 15
        i.sh, i.sha = decode_imm_shift(_b(w, 6, 5), _b(w, 11, 7))
        if i.rm == 15 and (i.sh, i.sha) != (LSL, 0):
            _ill(w, "UNPREDICTABLE: pc as a shifted Rm (LLVM: potentially undefined)")
    return i


def _arm_mul(w, cond):
    op, S = _b(w, 23, 21), bool(w & (1 << 20))
    a, b, c, d = _b(w, 19, 16), _b(w, 15, 12), _b(w, 11, 8), w & 15
    if op == 0:
        if b != 0:
            _ill(w, "UNPREDICTABLE: mul with Ra field != 0")
        if 15 in (a, c, d):
            _ill(w, "UNPREDICTABLE: pc in multiply")
        return Insn("mul", "mul", 4, cond, s=S, rd=a, rn=d, rm=c)
    if op in (1, 3):
        if op == 3 and S:
            _ill(w, "UNDEFINED: multiply op 0111")
        if 15 in (a, b, c, d):
            _ill(w, "UNPREDICTABLE: pc in multiply")
        return Insn("mul", "mla" if op == 1 else "mls", 4, cond, s=S, rd=a, rn=d, rm=c, ra=b)
    if op == 2:
        if S:
            _ill(w, "UNDEFINED: multiply op 0101")
        name = "umaal"
    else:
        name = ("umull", "umlal", "smull", "smlal")[op - 4]
    if 15 in (a, b, c, d) or a == b:
        _ill(w, "UNPREDICTABLE: pc in long multiply or RdHi == RdLo")
    return Insn("mull", name, 4, cond, s=S, rd=b, ra=a, rn=d, rm=c)       # rd = RdLo, ra = RdHi


def _arm_halfmul(w, cond):
    op = _b(w, 22, 21)
    a, b, c, d = _b(w, 19, 16), _b(w, 15, 12), _b(w, 11, 8), w & 15
    if w & 0x10:
        _ill(w, "UNDEFINED")
    xy = (_b(w, 5, 5), _b(w, 6, 6))
    if op == 3:
        if b != 0:
            _ill(w, "UNPREDICTABLE: smulxy with Ra field != 0")
        if 15 in (a, c, d):
            _ill(w, "UNPREDICTABLE: pc in multiply")
        return Insn("smulxy", "smul" + "bt"[xy[0]] + "bt"[xy[1]], 4, cond, rd=a, rn=d, rm=c, aux=xy)
    if op == 0:
        if 15 in (a, b, c, d):
            _ill(w, "UNPREDICTABLE: pc in multiply")
        return Insn("smulxy", "smla" + "bt"[xy[0]] + "bt"[xy[1]], 4, cond, rd=a, rn=d, rm=c, ra=b, aux=xy)
    _ill(w, "unsupported: smlaw/smulw/smlalxy")


def _arm_misc(w, cond):
    op2, op = _b(w, 6, 4), _b(w, 22, 21)
    if op2 == 1 and op == 1 and w & 0x0FFFFF00 == 0x012FFF00:
        return Insn("bx", "bx", 4, cond, rm=w & 15, link=False)
    if op2 == 3 and op == 1 and w & 0x0FFFFF00 == 0x012FFF00:
        if w & 15 == 15:
            _ill(w, "UNPREDICTABLE: blx pc")
        return Insn("bx", "blx", 4, cond, rm=w & 15, link=True)
    if op2 == 1 and op == 3 and w & 0x0FFF0F00 == 0x016F0F00:
        if 15 in (_b(w, 15, 12), w & 15):
            _ill(w, "UNPREDICTABLE: pc in clz")
        return Insn("un", "clz", 4, cond, rd=_b(w, 15, 12), rm=w & 15)
    if op2 == 7 and op == 1:
        if cond != AL:
            _ill(w, "UNPREDICTABLE: conditional bkpt")
        return Insn("trap", "bkpt", 4, cond, imm=(_b(w, 19, 8) << 4) | (w & 15))
    if op2 == 5:
        a, b, c, d = _b(w, 19, 16), _b(w, 15, 12), _b(w, 11, 8), w & 15
        if c != 0:
            _ill(w, "UNPREDICTABLE: saturating add/sub with bits 11:8 != 0")
        if 15 in (a, b, d):
            _ill(w, "UNPREDICTABLE: pc in saturating add/sub")
        return Insn("qadd", ("qadd", "qsub", "qdadd", "qdsub")[op], 4, cond, rd=b, rm=d, rn=a)
    _ill(w, "unsupported: mrs/msr/bxj/eret/hvc/smc")


def _arm_extra_ldst(w, cond):
    P, U, I, W, L = (bool(w & (1 << k)) for k in (24, 23, 22, 21, 20))
    op2 = _b(w, 6, 5)
    rn, rt = _b(w, 19, 16), _b(w, 15, 12)
    if not P and W:
        _ill(w, "unsupported: unprivileged load/store (strht, ldrht, ...)")
    name = {(1, 0): "strh", (1, 1): "ldrh", (2, 0): "ldrd", (2, 1): "ldrsb", (3, 0): "strd", (3, 1): "ldrsh"}[(op2, int(L))]
    wback = (not P) or W
    i = Insn("mem", name, 4, cond, rt=rt, rn=rn, P=P, U=U, W=wback)
    if I:
        i.o2, i.imm = "imm", (_b(w, 11, 8) << 4) | (w & 15)
    else:
        if _b(w, 11, 8):
            _ill(w, "UNPREDICTABLE: register-offset halfword/dual load/store with bits 11:8 != 0")
        i.o2, i.rm, i.sh, i.sha = "reg", w & 15, LSL, 0
        if i.rm == 15:
            _ill(w, "UNPREDICTABLE: pc as offset register")
    if rt == 15:
        _ill(w, "UNPREDICTABLE: pc as Rt of a halfword/signed/dual load/store")
    if name in ("ldrd", "strd"):
        if rt & 1 or rt == 14:
            _ill(w, "UNPREDICTABLE/UNDEFINED: ldrd/strd with odd Rt or Rt == lr")
        i.rt2 = rt + 1
        if not I and name == "ldrd" and i.rm in (rt, rt + 1):
            _ill(w, "UNPREDICTABLE: ldrd with Rm == Rt/Rt2")
        if wback and rn in (rt, rt + 1):
            _ill(w, "UNPREDICTABLE: writeback with Rn == Rt/Rt2")
    if wback and (rn == 15 or rn == rt):
        _ill(w, "UNPREDICTABLE: writeback with Rn == pc or Rn == Rt")
    if rn == 15 and (name.startswith("st") or not I):
        _ill(w, "UNPREDICTABLE: pc-relative store / register offset from pc")
    return i


def _arm_ldst(w, cond):
    R, P, U, B, W, L = (bool(w & (1 << k)) for k in (25, 24, 23, 22, 21, 20))
    rn, rt = _b(w, 19, 16), _b(w, 15, 12)
    if not P and W:
        _ill(w, "unsupported: unprivileged load/store (ldrt, strt, ...)")
    name = ("ldr" if L else "str") + ("b" if B else "")
    wback = (not P) or W
    i = Insn("mem", name, 4, cond, rt=rt, rn=rn, P=P, U=U, W=wback)
    if R:
        i.o2, i.rm = "reg", w & 15
        i.sh, i.sha = decode_imm_shift(_b(w, 6, 5), _b(w, 11, 7))
        if i.rm == 15:
            _ill(w, "UNPREDICTABLE: pc as offset register")
        if wback and i.rm == rn:
            _ill(w, "UNPREDICTABLE: writeback with Rm == Rn (pre-ARMv6 restriction, kept)")
    else:
        i.o2, i.imm = "imm", w & 0xFFF
    if wback and (rn == 15 or rn == rt):
        _ill(w, "UNPREDICTABLE: writeback with Rn == pc or Rn == Rt")
    if rt == 15 and (B or not L):
        _ill(w, "UNPREDICTABLE: pc as Rt of a byte load / store of pc")
    if rn == 15 and not L:
        _ill(w, "unsupported: pc-relative store")
    return i


def _arm_ldm(w, cond):
    P, U, S, W, L = (bool(w & (1 << k)) for k in (24, 23, 22, 21, 20))
    rn, regs = _b(w, 19, 16), w & 0xFFFF
    if S:
        _ill(w, "unsupported: ldm/stm of user registers / exception return")
    if rn == 15 or regs == 0:
        _ill(w, "UNPREDICTABLE: ldm/stm with Rn == pc or an empty list")
    if W and regs & (1 << rn):
        if L or regs & ((1 << rn) - 1):
            _ill(w, "UNPREDICTABLE: ldm/stm writeback with Rn in the list")
    if not L and regs & 0x8000:
        _ill(w, "unsupported: stm of pc (implementation defined value)")
    if L and rn == 13 and W and regs & (1 << 13):
        _ill(w, "UNPREDICTABLE: pop with sp in the list")
    mode = ("da", "ia", "db", "ib")[(P << 1) | U]
    return Insn("ldm" if L else "stm", ("ldm" if L else "stm"), 4, cond, rn=rn, regs=regs, W=W, aux=mode)


def _arm_media(w, cond):
    op1, op2 = _b(w, 24, 20), _b(w, 7, 5)
    a, b, c, d = _b(w, 19, 16), _b(w, 15, 12), _b(w, 11, 8), w & 15
    if op1 in (0x0A, 0x0B, 0x0E, 0x0F) and op2 & 1 == 0 and (w >> 4) & 3 == 1:
        if b == 15 or d == 15:
            _ill(w, "UNPREDICTABLE: pc in saturate")
        sat = _b(w, 20, 16)
        st, n = (ASR, _b(w, 11, 7) or 32) if w & 0x40 else (LSL, _b(w, 11, 7))
        return Insn("sat", "ssat" if op1 < 0x0C else "usat", 4, cond, rd=b, rn=d, imm=sat + 1 if op1 < 0x0C else sat, sh=st, sha=n)
    if op1 == 0x08 and (w >> 4) & 3 == 1:
        if 15 in (a, b, d):
            _ill(w, "UNPREDICTABLE: pc in pkh")
        st, n = (ASR, _b(w, 11, 7) or 32) if w & 0x40 else (LSL, _b(w, 11, 7))
        return Insn("pkh", "pkhtb" if w & 0x40 else "pkhbt", 4, cond, rd=b, rn=a, rm=d, sh=st, sha=n)
    if op1 in (0x08, 0x0C) and op2 == 3:
        if c & 3:
            _ill(w, "UNPREDICTABLE: extend with bits 9:8 != 0")
        if b == 15 or d == 15:
            _ill(w, "UNPREDICTABLE: pc in extend")
        base = "sxtb16" if op1 == 0x08 else "uxtb16"
        return Insn("ext16", base if a == 15 else base[:3] + "a" + base[3:], 4, cond, rd=b, rn=None if a == 15 else a, rm=d, imm=8 * (c >> 2), aux=base)
    if op1 in (0x0A, 0x0B, 0x0E, 0x0F) and op2 == 3:
        if c & 3:
            _ill(w, "UNPREDICTABLE: extend with bits 9:8 != 0")
        if b == 15 or d == 15:
            _ill(w, "UNPREDICTABLE: pc in extend")
        base = {0x0A: "sxtb", 0x0B: "sxth", 0x0E: "uxtb", 0x0F: "uxth"}[op1]
        name = base if a == 15 else base[:3] + "a" + base[3:]
        return Insn("ext", name, 4, cond, rd=b, rn=None if a == 15 else a, rm=d, imm=8 * (c >> 2), aux=base)
    if (op1, op2) in ((0x0B, 1), (0x0B, 5), (0x0F, 1), (0x0F, 5)):
        if a != 15 or c != 15:
            _ill(w, "UNPREDICTABLE: rev/rbit with should-be-one fields != 1111")
        if b == 15 or d == 15:
            _ill(w, "UNPREDICTABLE: pc in rev/rbit")
        return Insn("un", {(0x0B, 1): "rev", (0x0B, 5): "rev16", (0x0F, 1): "rbit", (0x0F, 5): "revsh"}[(op1, op2)], 4, cond, rd=b, rm=d)
    if op1 in (0x11, 0x13) and op2 == 0:
        if b != 15:
            _ill(w, "UNPREDICTABLE: sdiv/udiv with bits 15:12 != 1111")
        if 15 in (a, c, d):
            _ill(w, "UNPREDICTABLE: pc in divide")
        return Insn("div", "sdiv" if op1 == 0x11 else "udiv", 4, cond, rd=a, rn=d, rm=c)
    if op1 == 0x15 and op2 in (0, 1, 6, 7):
        if 15 in (a, c, d):
            _ill(w, "UNPREDICTABLE: pc in multiply")
        rnd = op2 & 1
        if op2 >= 6:
            if b == 15:
                _ill(w, "UNPREDICTABLE: smmls with Ra == pc")
            return Insn("smm", "smmls" + "r" * rnd, 4, cond, rd=a, rn=d, rm=c, ra=b, aux=rnd)
        return Insn("smm", ("smmul" if b == 15 else "smmla") + "r" * rnd, 4, cond, rd=a, rn=d, rm=c, ra=None if b == 15 else b, aux=rnd)
    if op1 in (0x1A, 0x1B, 0x1E, 0x1F) and op2 & 3 == 2:
        lsb, wm1 = _b(w, 11, 7), _b(w, 20, 16)
        if b == 15 or d == 15:
            _ill(w, "UNPREDICTABLE: pc in bit-field extract")
        if lsb + wm1 > 31:
            _ill(w, "UNPREDICTABLE: bit-field extract beyond bit 31")
        return Insn("bfx", "sbfx" if op1 < 0x1C else "ubfx", 4, cond, rd=b, rn=d, imm=lsb, aux=wm1 + 1)
    if op1 in (0x1C, 0x1D) and op2 & 3 == 0:
        lsb, msb = _b(w, 11, 7), _b(w, 20, 16)
        if b == 15:
            _ill(w, "UNPREDICTABLE: pc in bit-field insert")
        if msb < lsb:
            _ill(w, "UNPREDICTABLE: bit-field insert with msb < lsb")
        return Insn("bfi", "bfc" if d == 15 else "bfi", 4, cond, rd=b, rn=None if d == 15 else d, imm=lsb, aux=msb - lsb + 1)
    if op1 == 0x1F and op2 == 7:
        if cond != AL:
            _ill(w, "UNDEFINED: conditional udf")
        return Insn("trap", "udf", 4, cond, imm=(_b(w, 19, 8) << 4) | (w & 15))
    _ill(w, "unsupported: media instruction (parallel/saturating arithmetic, sel, usad8, ssat16/usat16, dual multiplies)")


# ------------------------------------------------------------------------------------------------ Thumb decoder

def is_thumb32(hw1):
    return (hw1 >> 11) in (0x1D, 0x1E, 0x1F)


def decode_thumb(hw1, hw2=0):
    hw1 &= 0xFFFF
    hw2 &= 0xFFFF
    if is_thumb32(hw1):
        i = _decode_t32(hw1, hw2, (hw1 << 16) | hw2)
        i.word = (hw1 << 16) | hw2
    else:
        i = _decode_t16(hw1)
        i.word = hw1
    i.thumb = True
    return i


def decode(word, thumb=False):
    """word: A32 instruction word, or for Thumb the little-endian 32-bit fetch (first halfword in the low 16 bits)"""
    if thumb:
        return decode_thumb(word & 0xFFFF, (word >> 16) & 0xFFFF)
    return decode_arm(word)


T16DP = ["and", "eor", "lsl", "lsr", "asr", "adc", "sbc", "ror", "tst", "rsb", "cmp", "cmn", "orr", "mul", "bic", "mvn"]


def _dpreg(name, size, rd, rn, rm, s=False, sit=False, sh=LSL, sha=0, cond=AL, aux=None):
    return Insn("dp", name, size, cond, s=s, sit=sit, rd=rd, rn=rn, o2="reg", rm=rm, sh=sh, sha=sha, aux=aux)


def _dpimm(name, size, rd, rn, imm, s=False, sit=False, cond=AL, aux=None):
    """imm: a plain 32-bit value (o2 = 'val': no modified-immediate carry)"""
    return Insn("dp", name, size, cond, s=s, sit=sit, rd=rd, rn=rn, o2="val", imm=imm, aux=aux)


def _decode_t16(h):
    top = h >> 10
    r0, r3, r6, r8 = h & 7, _b(h, 5, 3), _b(h, 8, 6), _b(h, 10, 8)
    if top < 0x10:
        op = _b(h, 13, 11)
        if op < 3:
            imm5 = _b(h, 10, 6)
            if op == 0 and imm5 == 0:
                return _dpreg("mov", 2, r0, None, r3, s=True, aux="movs-t2")     # MOVS Rd, Rm (T2): flags always set, not allowed in IT
            st, n = decode_imm_shift(op, imm5)
            return _dpreg("mov", 2, r0, None, r3, sit=True, sh=st, sha=n)
        if op == 3:
            name = "sub" if h & (1 << 9) else "add"
            if h & (1 << 10):
                return _dpimm(name, 2, r0, r3, r6, sit=True)
            return _dpreg(name, 2, r0, r3, r6, sit=True)
        imm8 = h & 0xFF
        if op == 4:
            return _dpimm("mov", 2, r8, None, imm8, sit=True)
        if op == 5:
            return _dpimm("cmp", 2, None, r8, imm8, s=True)
        return _dpimm("add" if op == 6 else "sub", 2, r8, r8, imm8, sit=True, aux="rdn")
    if top == 0x10:
        name = T16DP[_b(h, 9, 6)]
        if name in ("lsl", "lsr", "asr", "ror"):
            return Insn("dp", "mov", 2, AL, sit=True, rd=r0, o2="rsr", rm=r0, sh=SHNAME.index(name), rs=r3)
        if name in ("tst", "cmp", "cmn"):
            return _dpreg(name, 2, None, r0, r3, s=True)
        if name == "rsb":
            return _dpimm("rsb", 2, r0, r3, 0, sit=True)
        if name == "mul":
            return Insn("mul", "mul", 2, AL, sit=True, rd=r0, rn=r3, rm=r0)
        if name == "mvn":
            return _dpreg("mvn", 2, r0, None, r3, sit=True)
        return _dpreg(name, 2, r0, r0, r3, sit=True, aux="rdn")
    if top == 0x11:
        op = _b(h, 9, 8)
        rm, rdn = _b(h, 6, 3), ((h >> 4) & 8) | r0
        if op == 0:
            if rdn == 15 and rm == 15:
                _ill(h, "UNPREDICTABLE: add pc, pc")
            return _dpreg("add", 2, rdn, rdn, rm, aux="rdn")
        if op == 1:
            if (rdn < 8 and rm < 8) or rdn == 15 or rm == 15:
                _ill(h, "UNPREDICTABLE: cmp (T2) with two low registers or pc")
            return _dpreg("cmp", 2, None, rdn, rm, s=True)
        if op == 2:
            return _dpreg("mov", 2, rdn, None, rm)
        if h & 7:
            _ill(h, "UNPREDICTABLE: bx/blx with bits 2:0 != 0")
        if h & 0x80:
            if rm == 15:
                _ill(h, "UNPREDICTABLE: blx pc")
            return Insn("bx", "blx", 2, AL, rm=rm, link=True)
        return Insn("bx", "bx", 2, AL, rm=rm, link=False)
    if top in (0x12, 0x13):
        return Insn("mem", "ldr", 2, AL, rt=r8, rn=15, P=True, U=True, W=False, o2="imm", imm=(h & 0xFF) << 2)
    if 0x14 <= top <= 0x17:
        name = ("str", "strh", "strb", "ldrsb", "ldr", "ldrh", "ldrb", "ldrsh")[_b(h, 11, 9)]
        return Insn("mem", name, 2, AL, rt=r0, rn=r3, P=True, U=True, W=False, o2="reg", rm=r6, sh=LSL, sha=0)
    if 0x18 <= top <= 0x23:
        imm5 = _b(h, 10, 6)
        L = bool(h & (1 << 11))
        if top < 0x1C:
            name, sc = ("ldr" if L else "str"), 2
        elif top < 0x20:
            name, sc = ("ldrb" if L else "strb"), 0
        else:
            name, sc = ("ldrh" if L else "strh"), 1
        return Insn("mem", name, 2, AL, rt=r0, rn=r3, P=True, U=True, W=False, o2="imm", imm=imm5 << sc)
    if top in (0x24, 0x25, 0x26, 0x27):
        return Insn("mem", "ldr" if h & (1 << 11) else "str", 2, AL, rt=r8, rn=13, P=True, U=True, W=False, o2="imm", imm=(h & 0xFF) << 2)
    if top in (0x28, 0x29):
        return Insn("adr", "adr", 2, AL, rd=r8, imm=(h & 0xFF) << 2)
    if top in (0x2A, 0x2B):
        return _dpimm("add", 2, r8, 13, (h & 0xFF) << 2)
    if 0x2C <= top <= 0x2F:
        return _t16_misc(h)
    if top in (0x30, 0x31, 0x32, 0x33):
        L = bool(h & (1 << 11))
        regs = h & 0xFF
        if regs == 0:
            _ill(h, "UNPREDICTABLE: ldm/stm with an empty list")
        if L:
            return Insn("ldm", "ldm", 2, AL, rn=r8, regs=regs, W=not (regs & (1 << r8)), aux="ia")
        if regs & (1 << r8) and regs & ((1 << r8) - 1):
            _ill(h, "UNPREDICTABLE: stm writeback with Rn in the list and not lowest")
        return Insn("stm", "stm", 2, AL, rn=r8, regs=regs, W=True, aux="ia")
    if 0x34 <= top <= 0x37:
        c = _b(h, 11, 8)
        if c == 14:
            return Insn("trap", "udf", 2, AL, imm=h & 0xFF)
        if c == 15:
            return Insn("trap", "svc", 2, AL, imm=h & 0xFF)
        return Insn("b", "b", 2, c, imm=sx((h & 0xFF) << 1, 9), link=False, aux="bcond")
    if top in (0x38, 0x39):
        return Insn("b", "b", 2, AL, imm=sx((h & 0x7FF) << 1, 12), link=False)
    _ill(h, "not a 16-bit instruction")


def _t16_misc(h):
    op = _b(h, 11, 5)
    r0, r3 = h & 7, _b(h, 5, 3)
    if op >> 3 == 0:                                   # 1011 0000 x
        return _dpimm("sub" if h & 0x80 else "add", 2, 13, 13, (h & 0x7F) << 2, aux="rdn")
    if op & 0x28 == 0x08:                              # 1011 x0x1: cbz / cbnz
        return Insn("cbz", "cbnz" if h & (1 << 11) else "cbz", 2, AL, rn=r0, imm=(_b(h, 9, 9) << 6) | (_b(h, 7, 3) << 1))
    if op >> 3 == 0b0010:
        name = ("sxth", "sxtb", "uxth", "uxtb")[_b(h, 7, 6)]
        return Insn("ext", name, 2, AL, rd=r0, rm=r3, imm=0, aux=name)
    if op >> 4 == 0b010:                               # push
        regs = (h & 0xFF) | ((1 << 14) if h & 0x100 else 0)
        if regs == 0:
            _ill(h, "UNPREDICTABLE: push with an empty list")
        return Insn("stm", "stm", 2, AL, rn=13, regs=regs, W=True, aux="db")
    if op >> 4 == 0b110:                               # pop
        regs = (h & 0xFF) | ((1 << 15) if h & 0x100 else 0)
        if regs == 0:
            _ill(h, "UNPREDICTABLE: pop with an empty list")
        return Insn("ldm", "ldm", 2, AL, rn=13, regs=regs, W=True, aux="ia")
    if op >> 3 == 0b1010:
        k = _b(h, 7, 6)
        if k == 2:
            _ill(h, "UNDEFINED: 1011 1010 10")
        return Insn("un", ("rev", "rev16", None, "revsh")[k], 2, AL, rd=r0, rm=r3)
    if op >> 3 == 0b1110:
        return Insn("trap", "bkpt", 2, AL, imm=h & 0xFF)
    if op >> 3 == 0b1111:
        if h & 15:
            fc = _b(h, 7, 4)
            if fc == 15 or (fc == 14 and bin(h & 15).count("1") != 1):
                _ill(h, "UNPREDICTABLE: it with condition 1111 or 'al' with else")
            return Insn("it", "it", 2, AL, imm=h & 0xFF)
        hint = _b(h, 7, 4)
        if hint in (0, 1):
            return Insn("nop", ("nop", "yield")[hint], 2, AL)
        _ill(h, "unsupported: hint %d (wfe/wfi/sev/...)" % hint)
    _ill(h, "unsupported/UNDEFINED: 16-bit miscellaneous (cps, setend, ...)")


T32DP = {0: "and", 1: "bic", 2: "orr", 3: "orn", 4: "eor", 8: "add", 10: "adc", 11: "sbc", 13: "sub", 14: "rsb"}


def _bad(r):
    return r in (13, 15)


def _t32_dp_common(w, op, S, rn, rd):
    """shared naming of the T32 data-processing groups -> (name, rd, rn) with the tst/teq/cmn/cmp and mov/mvn special cases"""
    if op not in T32DP:
        _ill(w, "UNDEFINED/unsupported: T32 data-processing opcode %d" % op)
    name = T32DP[op]
    if rd == 15 and name in ("and", "eor", "add", "sub"):
        if not S:
            _ill(w, "UNPREDICTABLE: Rd == pc")
        name = {"and": "tst", "eor": "teq", "add": "cmn", "sub": "cmp"}[name]
        if rn == 15 or (rn == 13 and name in ("tst", "teq")):
            _ill(w, "UNPREDICTABLE: pc/sp as Rn of a test")
        return name, None, rn
    if rn == 15 and name in ("orr", "orn"):
        name = "mov" if name == "orr" else "mvn"
        if _bad(rd):
            _ill(w, "UNPREDICTABLE: mov/mvn to sp/pc (T32)")
        return name, rd, None
    if rd == 15 or rn == 15:
        _ill(w, "UNPREDICTABLE: pc as Rd/Rn")
    if rd == 13 and not (rn == 13 and name in ("add", "sub")):
        _ill(w, "UNPREDICTABLE: sp as Rd (ARMv7 rules)")
    if rn == 13 and name not in ("add", "sub"):
        _ill(w, "UNPREDICTABLE: sp as Rn (ARMv7 rules)")
    return name, rd, rn


def _decode_t32(h1, h2, w):
    op1, op2 = _b(h1, 12, 11), _b(h1, 10, 4)
    if op1 == 1:
        if op2 & 0x64 == 0:
            return _t32_ldm(h1, h2, w)
        if op2 & 0x64 == 4:
            return _t32_dual(h1, h2, w)
        if op2 & 0x60 == 0x20:
            return _t32_dp_shift(h1, h2, w)
        _ill(w, "unsupported: coprocessor / floating point / SIMD")
    if op1 == 2:
        if h2 & 0x8000:
            return _t32_branch(h1, h2, w)
        if h1 & 0x200:
            return _t32_plain_imm(h1, h2, w)
        return _t32_mod_imm(h1, h2, w)
    if op2 & 0x71 == 0x00:
        return _t32_ldst(h1, h2, w)
    if op2 & 0x60 == 0 and op2 & 1:
        if op2 & 7 == 7:
            _ill(w, "UNDEFINED")
        return _t32_ldst(h1, h2, w)
    if op2 & 0x70 == 0x20:
        return _t32_dp_reg(h1, h2, w)
    if op2 & 0x78 == 0x30:
        return _t32_mul(h1, h2, w)
    if op2 & 0x78 == 0x38:
        return _t32_mull(h1, h2, w)
    if op2 & 0x71 == 0x10:
        _ill(w, "unsupported: SIMD element load/store")
    _ill(w, "unsupported: coprocessor / floating point / SIMD")


def _t32_mod_imm(h1, h2, w):
    op, S, rn, rd = _b(h1, 8, 5), bool(h1 & 0x10), h1 & 15, _b(h2, 11, 8)
    name, rd_, rn_ = _t32_dp_common(w, op, S, rn, rd)
    imm12 = (_b(h1, 10, 10) << 11) | (_b(h2, 14, 12) << 8) | (h2 & 0xFF)
    if thumb_expand_imm_c(imm12, 0) is None:
        _ill(w, "UNPREDICTABLE: modified immediate 00xx with zero byte")
    return Insn("dp", name, 4, AL, s=S, rd=rd_, rn=rn_, o2="timm", imm=imm12)


def _t32_plain_imm(h1, h2, w):
    op, rn, rd = _b(h1, 8, 4), h1 & 15, _b(h2, 11, 8)
    imm12 = (_b(h1, 10, 10) << 11) | (_b(h2, 14, 12) << 8) | (h2 & 0xFF)
    if op in (0, 10):
        if rn == 15:
            if _bad(rd):
                _ill(w, "UNPREDICTABLE: adr to sp/pc")
            return Insn("adr", "adr", 4, AL, rd=rd, imm=imm12 if op == 0 else -imm12, aux="sub" if op else "add")
        if rd == 15 or (rd == 13 and rn != 13):
            _ill(w, "UNPREDICTABLE: addw/subw to pc/sp")
        return _dpimm("addw" if op == 0 else "subw", 4, rd, rn, imm12)
    if op in (4, 12):
        if _bad(rd):
            _ill(w, "UNPREDICTABLE: movw/movt to sp/pc")
        return Insn("mov16", "movw" if op == 4 else "movt", 4, AL, rd=rd, imm=(rn << 12) | imm12)
    if op in (0x14, 0x1C, 0x16):
        if h1 & 0x400 or h2 & 0x20:
            _ill(w, "UNPREDICTABLE/UNDEFINED: bit-field instruction with should-be-zero bits set")
        lsb, x = (_b(h2, 14, 12) << 2) | _b(h2, 7, 6), h2 & 31
        if _bad(rd) or rn == 13:
            _ill(w, "UNPREDICTABLE: sp/pc in bit-field instruction")
        if op == 0x16:
            if x < lsb:
                _ill(w, "UNPREDICTABLE: bit-field insert with msb < lsb")
            return Insn("bfi", "bfc" if rn == 15 else "bfi", 4, AL, rd=rd, rn=None if rn == 15 else rn, imm=lsb, aux=x - lsb + 1)
        if rn == 15 or lsb + x > 31:
            _ill(w, "UNPREDICTABLE: bit-field extract from pc or beyond bit 31")
        return Insn("bfx", "sbfx" if op == 0x14 else "ubfx", 4, AL, rd=rd, rn=rn, imm=lsb, aux=x + 1)
    if op in (0x10, 0x12, 0x18, 0x1A):
        n = (_b(h2, 14, 12) << 2) | _b(h2, 7, 6)
        if h1 & 0x400 or h2 & 0x20:
            _ill(w, "UNPREDICTABLE/UNDEFINED: saturate with should-be-zero bits set")
        if op & 2 and n == 0:
            _ill(w, "unsupported: ssat16/usat16")
        if _bad(rd) or _bad(rn):
            _ill(w, "UNPREDICTABLE: sp/pc in saturate")
        sat = h2 & 31
        return Insn("sat", "ssat" if op < 0x18 else "usat", 4, AL, rd=rd, rn=rn, imm=sat + 1 if op < 0x18 else sat, sh=ASR if op & 2 else LSL, sha=n)
    _ill(w, "unsupported/UNDEFINED: T32 plain binary immediate op %#x" % op)


def _t32_dp_shift(h1, h2, w):
    op, S, rn, rd, rm = _b(h1, 8, 5), bool(h1 & 0x10), h1 & 15, _b(h2, 11, 8), h2 & 15
    if h2 & 0x8000:
        _ill(w, "UNPREDICTABLE: bit 15 of the second halfword set")
    if op == 6:
        if S or h2 & 0x10:
            _ill(w, "UNDEFINED: pkh with S or T bit set")
        if _bad(rd) or _bad(rn) or _bad(rm):
            _ill(w, "UNPREDICTABLE: sp/pc in pkh")
        n = (_b(h2, 14, 12) << 2) | _b(h2, 7, 6)
        st, n = (ASR, n or 32) if h2 & 0x20 else (LSL, n)
        return Insn("pkh", "pkhtb" if h2 & 0x20 else "pkhbt", 4, AL, rd=rd, rn=rn, rm=rm, sh=st, sha=n)
    name, rd_, rn_ = _t32_dp_common(w, op, S, rn, rd)
    if _bad(rm):
        _ill(w, "UNPREDICTABLE: sp/pc as Rm")
    st, n = decode_imm_shift(_b(h2, 5, 4), (_b(h2, 14, 12) << 2) | _b(h2, 7, 6))
    return _dpreg(name, 4, rd_, rn_, rm, s=S, sh=st, sha=n)


def _t32_dp_reg(h1, h2, w):
    a, rn, rd, b, rm = _b(h1, 7, 4), h1 & 15, _b(h2, 11, 8), _b(h2, 7, 4), h2 & 15
    if _b(h2, 15, 12) != 15:
        _ill(w, "UNDEFINED: data-processing (register) with bits 15:12 != 1111")
    if a < 8 and b == 0:
        if _bad(rd) or _bad(rn) or _bad(rm):
            _ill(w, "UNPREDICTABLE: sp/pc in register shift")
        return Insn("dp", "mov", 4, AL, s=bool(a & 1), rd=rd, o2="rsr", rm=rn, sh=a >> 1, rs=rm)
    if a < 8 and b & 8:
        if a > 5:
            _ill(w, "UNDEFINED: extend opcode")
        if b & 4:
            _ill(w, "UNPREDICTABLE: extend with bit 6 set")
        base = {0: "sxth", 1: "uxth", 2: "sxtb16", 3: "uxtb16", 4: "sxtb", 5: "uxtb"}[a]
        if _bad(rd) or _bad(rm) or rn == 13:
            _ill(w, "UNPREDICTABLE: sp/pc in extend")
        name = base if rn == 15 else base[:3] + "a" + base[3:]
        return Insn("ext16" if a in (2, 3) else "ext", name, 4, AL, rd=rd, rn=None if rn == 15 else rn, rm=rm, imm=8 * (b & 3), aux=base)
    if a == 8 and b & 12 == 8:
        if _bad(rd) or _bad(rn) or _bad(rm):
            _ill(w, "UNPREDICTABLE: sp/pc in saturating add/sub")
        return Insn("qadd", ("qadd", "qdadd", "qsub", "qdsub")[b & 3], 4, AL, rd=rd, rm=rm, rn=rn)
    if a in (9, 11) and b & 12 == 8:
        if rn != rm:
            _ill(w, "UNPREDICTABLE: rev/clz with the two Rm fields different")
        if _bad(rd) or _bad(rm):
            _ill(w, "UNPREDICTABLE: sp/pc in rev/clz")
        if a == 11:
            if b != 8:
                _ill(w, "UNDEFINED")
            return Insn("un", "clz", 4, AL, rd=rd, rm=rm)
        return Insn("un", ("rev", "rev16", "rbit", "revsh")[b & 3], 4, AL, rd=rd, rm=rm)
    _ill(w, "unsupported: parallel/saturating arithmetic, sel")


def _t32_mul(h1, h2, w):
    a, rn, ra, rd, b, rm = _b(h1, 6, 4), h1 & 15, _b(h2, 15, 12), _b(h2, 11, 8), _b(h2, 7, 4), h2 & 15
    if h1 & 0x80:
        _ill(w, "UNDEFINED")
    if _bad(rd) or _bad(rn) or _bad(rm) or ra == 13:
        _ill(w, "UNPREDICTABLE: sp/pc in multiply")
    if a == 0 and b == 0:
        if ra == 15:
            return Insn("mul", "mul", 4, AL, rd=rd, rn=rn, rm=rm)
        return Insn("mul", "mla", 4, AL, rd=rd, rn=rn, rm=rm, ra=ra)
    if a == 0 and b == 1:
        if ra == 15:
            _ill(w, "UNPREDICTABLE: mls with Ra == pc")
        return Insn("mul", "mls", 4, AL, rd=rd, rn=rn, rm=rm, ra=ra)
    if a == 1 and b < 4:
        xy = (b >> 1, b & 1)
        return Insn("smulxy", ("smul" if ra == 15 else "smla") + "bt"[xy[0]] + "bt"[xy[1]], 4, AL, rd=rd, rn=rn, rm=rm, ra=None if ra == 15 else ra, aux=xy)
    if a == 5 and b < 2:
        return Insn("smm", ("smmul" if ra == 15 else "smmla") + "r" * b, 4, AL, rd=rd, rn=rn, rm=rm, ra=None if ra == 15 else ra, aux=b)
    if a == 6 and b < 2:
        if ra == 15:
            _ill(w, "UNPREDICTABLE: smmls with Ra == pc")
        return Insn("smm", "smmls" + "r" * b, 4, AL, rd=rd, rn=rn, rm=rm, ra=ra, aux=b)
    _ill(w, "unsupported: dual/word-by-halfword multiplies, usad8")


def _t32_mull(h1, h2, w):
    a, rn, lo, hi, b, rm = _b(h1, 6, 4), h1 & 15, _b(h2, 15, 12), _b(h2, 11, 8), _b(h2, 7, 4), h2 & 15
    if (a, b) in ((1, 15), (3, 15)):
        if lo != 15:
            _ill(w, "UNPREDICTABLE: sdiv/udiv with bits 15:12 != 1111")
        if _bad(hi) or _bad(rn) or _bad(rm):
            _ill(w, "UNPREDICTABLE: sp/pc in divide")
        return Insn("div", "sdiv" if a == 1 else "udiv", 4, AL, rd=hi, rn=rn, rm=rm)
    name = {(0, 0): "smull", (2, 0): "umull", (4, 0): "smlal", (6, 0): "umlal", (6, 6): "umaal"}.get((a, b))
    if name is None:
        _ill(w, "unsupported/UNDEFINED: long multiply variant")
    if _bad(lo) or _bad(hi) or _bad(rn) or _bad(rm) or lo == hi:
        _ill(w, "UNPREDICTABLE: sp/pc in long multiply or RdHi == RdLo")
    return Insn("mull", name, 4, AL, rd=lo, ra=hi, rn=rn, rm=rm)


def _t32_ldm(h1, h2, w):
    op, W, L, rn = _b(h1, 8, 7), bool(h1 & 0x20), bool(h1 & 0x10), h1 & 15
    if op in (0, 3):
        _ill(w, "unsupported: srs/rfe")
    regs = h2
    if regs & 0x2000 or (not L and regs & 0x8000):
        _ill(w, "UNPREDICTABLE: sp (or pc for stm) in the register list")
    if L and regs & 0x8000 and regs & 0x4000:
        _ill(w, "UNPREDICTABLE: ldm with both lr and pc")
    if rn == 15 or bin(regs).count("1") < 2:
        _ill(w, "UNPREDICTABLE: ldm/stm with Rn == pc or fewer than two registers")
    if W and regs & (1 << rn):
        _ill(w, "UNPREDICTABLE: writeback with Rn in the list")
    return Insn("ldm" if L else "stm", "ldm" if L else "stm", 4, AL, rn=rn, regs=regs, W=W, aux="ia" if op == 1 else "db")


def _t32_dual(h1, h2, w):
    P, U, W, L, rn = bool(h1 & 0x100), bool(h1 & 0x80), bool(h1 & 0x20), bool(h1 & 0x10), h1 & 15
    if not P and not W:
        if h1 & 0xFFF0 == 0xE8D0 and h2 & 0xFFE0 == 0xF000:
            rm = h2 & 15
            if rn == 13 or _bad(rm):
                _ill(w, "UNPREDICTABLE: sp/pc in table branch")
            return Insn("tb", "tbh" if h2 & 0x10 else "tbb", 4, AL, rn=rn, rm=rm)
        _ill(w, "unsupported: load/store exclusive")
    rt, rt2, imm = _b(h2, 15, 12), _b(h2, 11, 8), (h2 & 0xFF) << 2
    wback = W
    if _bad(rt) or _bad(rt2) or (L and rt == rt2):
        _ill(w, "UNPREDICTABLE: ldrd/strd with sp/pc as Rt or Rt == Rt2")
    if wback and (rn == 15 or rn in (rt, rt2)):
        _ill(w, "UNPREDICTABLE: writeback with Rn == pc or Rn == Rt/Rt2")
    if rn == 15 and not L:
        _ill(w, "UNPREDICTABLE: pc-relative strd")
    return Insn("mem", "ldrd" if L else "strd", 4, AL, rt=rt, rt2=rt2, rn=rn, P=P, U=U, W=wback, o2="imm", imm=imm)


def _t32_ldst(h1, h2, w):
    sign, u12, size, L, rn, rt = bool(h1 & 0x100), bool(h1 & 0x80), _b(h1, 6, 5), bool(h1 & 0x10), h1 & 15, _b(h2, 15, 12)
    if size == 3 or (sign and (not L or size == 2)):
        _ill(w, "UNDEFINED: load/store single size/sign combination")
    name = ("ldr" if L else "str") + ("s" if sign else "") + ("b", "h", "")[size]
    if rt == 15 and not (L and size == 2):
        _ill(w, "unsupported/UNPREDICTABLE: pc as Rt (preload hints, byte/halfword load to pc, store of pc)")
    if rt == 13 and size != 2:
        _ill(w, "UNPREDICTABLE: sp as Rt of a byte/halfword access")
    if rn == 15:
        if not L:
            _ill(w, "UNDEFINED: pc-relative store")
        return Insn("mem", name, 4, AL, rt=rt, rn=15, P=True, U=u12, W=False, o2="imm", imm=h2 & 0xFFF)
    if u12:
        return Insn("mem", name, 4, AL, rt=rt, rn=rn, P=True, U=True, W=False, o2="imm", imm=h2 & 0xFFF)
    if h2 & 0x800:
        P, U, W = bool(h2 & 0x400), bool(h2 & 0x200), bool(h2 & 0x100)
        if P and U and not W:
            _ill(w, "unsupported: unprivileged load/store (ldrt, strt, ...)")
        if not P and not W:
            _ill(w, "UNDEFINED: load/store with P == 0 and W == 0")
        if W and rn == rt:
            _ill(w, "UNPREDICTABLE: writeback with Rn == Rt")
        return Insn("mem", name, 4, AL, rt=rt, rn=rn, P=P, U=U, W=W, o2="imm", imm=h2 & 0xFF)
    if h2 & 0x7C0:
        _ill(w, "UNDEFINED: register-offset load/store with bits 10:6 != 0")
    rm = h2 & 15
    if _bad(rm):
        _ill(w, "UNPREDICTABLE: sp/pc as offset register")
    return Insn("mem", name, 4, AL, rt=rt, rn=rn, P=True, U=True, W=False, o2="reg", rm=rm, sh=LSL, sha=_b(h2, 5, 4))


def _t32_branch(h1, h2, w):
    S, j1, j2 = _b(h1, 10, 10), _b(h2, 13, 13), _b(h2, 11, 11)
    k = (_b(h2, 14, 14) << 1) | _b(h2, 12, 12)
    if k == 0:
        c = _b(h1, 9, 6)
        if c < 14:
            off = sx((S << 20) | (j2 << 19) | (j1 << 18) | ((h1 & 0x3F) << 12) | ((h2 & 0x7FF) << 1), 21)
            return Insn("b", "b", 4, c, imm=off, link=False, aux="bcond")
        if h1 == 0xF3AF and h2 & 0xFF00 == 0x8000:
            hint = h2 & 0xFF
            if hint in (0, 1):
                return Insn("nop", ("nop", "yield")[hint], 4, AL)
            _ill(w, "unsupported: hint %d (wfe/wfi/sev/dbg/...)" % hint)
        if h1 & 0xFFF0 == 0xF7F0 and _b(h2, 15, 12) == 0xA:
            return Insn("trap", "udf", 4, AL, imm=((h1 & 15) << 12) | (h2 & 0xFFF))
        _ill(w, "unsupported: msr/mrs/barriers/miscellaneous control")
    if k == 2:
        _ill(w, "unsupported: blx immediate (switch to ARM state) / hvc / smc")
    i1, i2 = 1 - (j1 ^ S), 1 - (j2 ^ S)
    off = sx((S << 24) | (i1 << 23) | (i2 << 22) | ((h1 & 0x3FF) << 12) | ((h2 & 0x7FF) << 1), 25)
    return Insn("b", "bl" if k == 3 else "b", 4, AL, imm=off, link=k == 3)


# ------------------------------------------------------------------------------------------------ text (LLVM spelling, no ".w")

def _s32(v):
    v &= M32
    return v - (1 << 32) if v >> 31 else v


def _llvm_so_imm_val(arg):
    """LLVM's ARM_AM::getSOImmVal: the canonical modified-immediate encoding of a value, or -1"""
    if arg & ~255 == 0:
        return arg

    def ctz(x):
        return (x & -x).bit_length() - 1
    rot = ctz(arg) & ~1
    if ror32(arg, rot) & ~255:
        ok = False
        if arg & 63:
            rot2 = ctz(arg & ~63) & ~1
            if ror32(arg, rot2) & ~255 == 0:
                rot, ok = rot2, True
        if not ok:
            return -1
    ra = (32 - rot) & 31
    if ror32(0xFFFFFF00, ra) & arg:
        return -1
    return ror32(arg, (32 - ra) & 31) | ((ra >> 1) << 8)


def _mod_imm_text(imm12):
    bits, rot = imm12 & 0xFF, (imm12 >> 8) * 2
    v = ror32(bits, rot)
    if _llvm_so_imm_val(v) == imm12:
        return "#%d" % _s32(v)
    return "#%d, #%d" % (bits, rot)


def _reglist(mask):
    return "{" + ", ".join(REG[r] for r in range(16) if mask & (1 << r)) + "}"


def _shift_suffix(sh, sha):
    if sh == RRX:
        return ", rrx"
    if sh == LSL and sha == 0:
        return ""
    return ", %s #%d" % (SHNAME[sh], sha)


def _addr(i):
    sign = "" if i.U else "-"
    base = REG[i.rn]
    if i.o2 == "imm":
        if i.P:
            plain = i.imm == 0 and i.U
            if i.thumb and ((i.rn == 15 and i.rt2 is None) or i.W):
                plain = False                                   # LLVM: "[pc, #0]" for Thumb literal loads, "[rn, #0]!" for T32 pre-indexed forms
            off = "" if plain else ", #%s%d" % (sign, i.imm)
            return "[%s%s]%s" % (base, off, "!" if i.W else "")
        return "[%s], #%s%d" % (base, sign, i.imm)
    off = "%s%s%s" % (sign, REG[i.rm], _shift_suffix(i.sh, i.sha))
    if i.P:
        return "[%s, %s]%s" % (base, off, "!" if i.W else "")
    return "[%s], %s" % (base, off)


def text(i, it_cond=None):
    """LLVM spelling.  it_cond: condition name when the instruction is printed as a member of an IT block
    (16-bit flag-setting forms then lose their 's' and every mnemonic carries the condition)."""
    k, n = i.k, i.name
    c = COND[i.cond] if it_cond is None else it_cond
    s = "s" if (i.s or (i.sit and it_cond is None)) else ""
    if k == "dp":
        if i.o2 in ("imm", "timm", "val"):
            if i.o2 == "imm":
                op2 = _mod_imm_text(i.imm)
            elif i.o2 == "timm":
                op2 = "#%d" % thumb_expand_imm_c(i.imm, 0)[0]
            else:
                op2 = "#%d" % i.imm
            if n in ("addw", "subw"):
                return "%s%s %s, %s, %s" % (n, c, REG[i.rd], REG[i.rn], op2)
            if i.rd is None:
                return "%s%s %s, %s" % (n, c, REG[i.rn], op2)
            if i.rn is None:
                return "%s%s%s %s, %s" % (n, s, c, REG[i.rd], op2)
            if i.aux == "rdn":
                return "%s%s%s %s, %s" % (n, s, c, REG[i.rd], op2)
            return "%s%s%s %s, %s, %s" % (n, s, c, REG[i.rd], REG[i.rn], op2)
        if i.o2 == "rsr":
            if n == "mov":
                if i.size == 2:
                    return "%s%s%s %s, %s" % (SHNAME[i.sh], s, c, REG[i.rd], REG[i.rs])
                return "%s%s%s %s, %s, %s" % (SHNAME[i.sh], s, c, REG[i.rd], REG[i.rm], REG[i.rs])
            op2 = "%s, %s %s" % (REG[i.rm], SHNAME[i.sh], REG[i.rs])
        else:
            if n == "mov" and not (i.sh == LSL and i.sha == 0):
                if i.sh == RRX:
                    return "rrx%s%s %s, %s" % (s, c, REG[i.rd], REG[i.rm])
                return "%s%s%s %s, %s, #%d" % (SHNAME[i.sh], s, c, REG[i.rd], REG[i.rm], i.sha)
            op2 = REG[i.rm] + _shift_suffix(i.sh, i.sha)
        if i.rd is None:
            return "%s%s %s, %s" % (n, c, REG[i.rn], op2)
        if i.rn is None:
            return "%s%s%s %s, %s" % (n, s, c, REG[i.rd], op2)
        if i.aux == "rdn":
            if i.size == 2 and n == "add" and i.rm == 13:
                return "add%s %s, sp, %s" % (c, REG[i.rd], REG[i.rd])
            return "%s%s%s %s, %s" % (n, s, c, REG[i.rd], op2)
        return "%s%s%s %s, %s, %s" % (n, s, c, REG[i.rd], REG[i.rn], op2)
    if k == "mov16":
        return "%s%s %s, #%d" % (n, c, REG[i.rd], i.imm)
    if k == "mul":
        if n == "mul":
            if i.size == 2:
                return "mul%s%s %s, %s, %s" % (s, c, REG[i.rd], REG[i.rn], REG[i.rd])
            return "mul%s%s %s, %s, %s" % (s, c, REG[i.rd], REG[i.rn], REG[i.rm])
        return "%s%s%s %s, %s, %s, %s" % (n, s, c, REG[i.rd], REG[i.rn], REG[i.rm], REG[i.ra])
    if k == "mull":
        return "%s%s%s %s, %s, %s, %s" % (n, s, c, REG[i.rd], REG[i.ra], REG[i.rn], REG[i.rm])
    if k in ("smulxy", "smm"):
        if i.ra is None:
            return "%s%s %s, %s, %s" % (n, c, REG[i.rd], REG[i.rn], REG[i.rm])
        return "%s%s %s, %s, %s, %s" % (n, c, REG[i.rd], REG[i.rn], REG[i.rm], REG[i.ra])
    if k == "div":
        return "%s%s %s, %s, %s" % (n, c, REG[i.rd], REG[i.rn], REG[i.rm])
    if k == "un":
        return "%s%s %s, %s" % (n, c, REG[i.rd], REG[i.rm])
    if k == "qadd":
        return "%s%s %s, %s, %s" % (n, c, REG[i.rd], REG[i.rm], REG[i.rn])
    if k == "sat":
        return "%s%s %s, #%d, %s%s" % (n, c, REG[i.rd], i.imm, REG[i.rn], _shift_suffix(i.sh, i.sha))
    if k == "pkh":
        return "%s%s %s, %s, %s%s" % (n, c, REG[i.rd], REG[i.rn], REG[i.rm], _shift_suffix(i.sh, i.sha))
    if k in ("ext", "ext16"):
        rot = ", ror #%d" % i.imm if i.imm else ""
        if i.rn is None:
            return "%s%s %s, %s%s" % (n, c, REG[i.rd], REG[i.rm], rot)
        return "%s%s %s, %s, %s%s" % (n, c, REG[i.rd], REG[i.rn], REG[i.rm], rot)
    if k == "bfx":
        return "%s%s %s, %s, #%d, #%d" % (n, c, REG[i.rd], REG[i.rn], i.imm, i.aux)
    if k == "bfi":
        if i.rn is None:
            return "bfc%s %s, #%d, #%d" % (c, REG[i.rd], i.imm, i.aux)
        return "bfi%s %s, %s, #%d, #%d" % (c, REG[i.rd], REG[i.rn], i.imm, i.aux)
    if k == "mem":
        if i.rt2 is not None:
            return "%s%s %s, %s, %s" % (n, c, REG[i.rt], REG[i.rt2], _addr(i))
        return "%s%s %s, %s" % (n, c, REG[i.rt], _addr(i))
    if k in ("ldm", "stm"):
        if i.rn == 13 and i.W and ((k == "stm" and i.aux == "db") or (k == "ldm" and i.aux == "ia")) and (i.thumb or i.regs & (i.regs - 1)):
            return "%s%s %s" % ("push" if k == "stm" else "pop", c, _reglist(i.regs))
        return "%s%s%s %s%s, %s" % (n, "" if i.aux == "ia" else i.aux, c, REG[i.rn], "!" if i.W else "", _reglist(i.regs))
    if k == "b":
        return "%s%s #%d" % (n, c, i.imm)
    if k == "bx":
        return "%s%s %s" % (n, c, REG[i.rm])
    if k == "cbz":
        return "%s %s, #%d" % (n, REG[i.rn], i.imm)
    if k == "tb":
        return "%s%s [%s, %s%s]" % (n, c, REG[i.rn], REG[i.rm], ", lsl #1" if n == "tbh" else "")
    if k == "adr":
        if i.aux == "sub" and i.imm == 0:
            return "subw%s %s, pc, #0" % (c, REG[i.rd])
        return "adr%s %s, #%d" % (c, REG[i.rd], i.imm)
    if k == "it":
        fc, mask = i.imm >> 4, i.imm & 15
        out = "it"
        nb = 3 - ((mask & -mask).bit_length() - 1)       # number of extra slots
        for j in range(nb):
            out += "t" if ((mask >> (3 - j)) & 1) == (fc & 1) else "e"
        return "%s %s" % (out, COND[fc] if fc != 14 else "al")
    if k == "nop":
        return n + c
    if k == "trap":
        if n == "udf" and ((not i.thumb and i.imm == 0xFDEE) or (i.size == 2 and i.imm == 254)):
            return "trap"
        if n == "udf" and i.size == 2 and i.imm == 249:
            return "__brkdiv0"
        return "%s%s #%d" % (n, c, i.imm)
    raise AssertionError(k)


# ------------------------------------------------------------------------------------------------ execution

def _sgn(v):
    return v - 0x100000000 if v & 0x80000000 else v


def _divq(a, b):
    q = abs(a) // abs(b)
    return -q if (a < 0) != (b < 0) else q


_LDST = {"ldr": (4, False, True), "ldrb": (1, False, True), "ldrh": (2, False, True), "ldrsb": (1, True, True), "ldrsh": (2, True, True),
         "str": (4, False, False), "strb": (1, False, False), "strh": (2, False, False)}


class Machine:
    """r[0..15] (r[15] holds the address of the current instruction between steps), flags n z c v q, thumb state bit, itstate,
    one flat little-endian memory [base, base+size)."""

    def __init__(self, size=1 << 18, base=0, strict_align=False, thumb=False):
        self.base = base
        self.mem = bytearray(size)
        self.r = [0] * 16
        self.n = self.z = self.c = self.v = self.q = 0
        self.thumb = thumb
        self.itstate = 0
        self.steps = 0
        self.strict_align = strict_align
        self.icache = {}
        self.code_lo, self.code_hi = 1 << 33, 0
        self.hooks = {}           # address (bit 0 clear) -> callable(machine): host function; returns through lr afterwards
        self.trace = None         # set to a list to record (pc, thumb) of every executed instruction
        self.writes = None

    @property
    def pc(self):
        return self.r[15]

    # -- memory
    def load(self, addr, data):
        o = addr - self.base
        if o < 0 or o + len(data) > len(self.mem):
            raise MemoryFault("image [%#x, %#x) outside memory" % (addr, addr + len(data)))
        self.mem[o:o + len(data)] = data
        self.icache.clear()

    def read(self, addr, n, aligned=False):
        o = addr - self.base
        if o < 0 or o + n > len(self.mem):
            raise MemoryFault("read of %d bytes at %#x outside memory (pc=%#x)" % (n, addr, self.r[15]))
        if (aligned or self.strict_align) and addr % n:
            raise MisalignedAccess("misaligned %d-byte read at %#x (pc=%#x)" % (n, addr, self.r[15]))
        return int.from_bytes(self.mem[o:o + n], "little")

    def write(self, addr, n, v, aligned=False):
        o = addr - self.base
        if o < 0 or o + n > len(self.mem):
            raise MemoryFault("write of %d bytes at %#x outside memory (pc=%#x)" % (n, addr, self.r[15]))
        if (aligned or self.strict_align) and addr % n:
            raise MisalignedAccess("misaligned %d-byte write at %#x (pc=%#x)" % (n, addr, self.r[15]))
        self.mem[o:o + n] = (v & ((1 << (8 * n)) - 1)).to_bytes(n, "little")
        if self.writes is not None:
            self.writes[addr] = n
        if self.code_lo - 3 <= addr < self.code_hi:
            for a in range(addr - 3, addr + n):
                self.icache.pop((a, True), None)
                self.icache.pop((a, False), None)

    def fetch(self, pc, thumb):
        key = (pc, thumb)
        i = self.icache.get(key)
        if i is None:
            o = pc - self.base
            if thumb:
                if pc & 1:
                    raise MisalignedAccess("thumb instruction fetch at odd address %#x" % pc)
                if o < 0 or o + 2 > len(self.mem):
                    raise MemoryFault("instruction fetch at %#x outside memory" % pc)
                h1 = int.from_bytes(self.mem[o:o + 2], "little")
                h2 = 0
                if is_thumb32(h1):
                    if o + 4 > len(self.mem):
                        raise MemoryFault("instruction fetch at %#x crosses the end of memory" % pc)
                    h2 = int.from_bytes(self.mem[o + 2:o + 4], "little")
                try:
                    i = decode_thumb(h1, h2)
                except IllegalInstruction as e:
                    e.pc = pc
                    e.args = ("illegal thumb instruction %#x at pc=%#x (%s)" % (e.word, pc, e.why),)
                    raise
            else:
                if pc & 3:
                    raise MisalignedAccess("ARM instruction fetch at unaligned address %#x" % pc)
                if o < 0 or o + 4 > len(self.mem):
                    raise MemoryFault("instruction fetch at %#x outside memory" % pc)
                try:
                    i = decode_arm(int.from_bytes(self.mem[o:o + 4], "little"))
                except IllegalInstruction as e:
                    e.pc = pc
                    e.args = ("illegal instruction %#010x at pc=%#x (%s)" % (e.word, pc, e.why),)
                    raise
            self.icache[key] = i
            self.code_lo = min(self.code_lo, pc)
            self.code_hi = max(self.code_hi, pc + 4)
        return i

    # -- conditions / pc writes
    def cond_passed(self, c):
        k = c >> 1
        if k == 0:
            r = self.z
        elif k == 1:
            r = self.c
        elif k == 2:
            r = self.n
        elif k == 3:
            r = self.v
        elif k == 4:
            r = self.c and not self.z
        elif k == 5:
            r = self.n == self.v
        elif k == 6:
            r = self.n == self.v and not self.z
        else:
            return True
        return (not r) if c & 1 else bool(r)

    def bx_write_pc(self, addr):
        if addr & 1:
            self.thumb = True
            self._npc = addr & 0xFFFFFFFE
        elif addr & 2 == 0:
            self.thumb = False
            self._npc = addr
        else:
            raise MisalignedAccess("UNPREDICTABLE: interworking branch to %#x (bits 1:0 = 10) at pc=%#x" % (addr, self.r[15]))

    def branch_write_pc(self, addr):
        self._npc = addr & (0xFFFFFFFE if self.thumb else 0xFFFFFFFC)

    def alu_write_pc(self, addr):
        if self.thumb:
            self.branch_write_pc(addr)
        else:
            self.bx_write_pc(addr)

    def rd(self, n):
        if n == 15:
            return (self.r[15] + (4 if self.thumb else 8)) & M32
        return self.r[n]

    # -- one instruction
    def step(self):
        pc = self.r[15]
        thumb = self.thumb
        i = self.fetch(pc, thumb)
        if self.trace is not None:
            self.trace.append((pc, thumb))
        self._npc = (pc + i.size) & M32
        in_it = False
        if thumb and self.itstate & 15:
            in_it = True
            cond = self.itstate >> 4
            last = (self.itstate & 15) == 8
            if i.k in ("it", "cbz") or i.aux in ("bcond", "movs-t2") or (i.k in ("b", "bx", "tb") and not last):
                raise IllegalInstruction(i.word, pc, "UNPREDICTABLE: %s inside an IT block" % text(i))
        else:
            cond = i.cond
        if cond == AL or self.cond_passed(cond):
            self._exec(i, in_it)
            if in_it and self._npc != ((pc + i.size) & M32) and (self.itstate & 15) != 8:
                raise IllegalInstruction(i.word, pc, "UNPREDICTABLE: write to pc inside an IT block (not last)")
        if thumb and i.k != "it" and self.itstate:
            self.itstate = 0 if self.itstate & 7 == 0 else (self.itstate & 0xE0) | ((self.itstate << 1) & 0x1F)
        self.r[15] = self._npc
        self.steps += 1

    def _setnz(self, v):
        self.n, self.z = v >> 31, 1 if v == 0 else 0

    def _exec(self, i, in_it):
        k = i.k
        r = self.r
        R = self.rd
        if k == "dp":
            n = i.name
            S = i.s or (i.sit and not in_it)
            cin = self.c
            o2 = i.o2
            if o2 == "reg":
                b, sc = shift_c(R(i.rm), i.sh, i.sha, cin)
            elif o2 == "imm":
                b, sc = arm_expand_imm_c(i.imm, cin)
            elif o2 == "timm":
                b, sc = thumb_expand_imm_c(i.imm, cin)
            elif o2 == "val":
                b, sc = i.imm, cin
            else:
                b, sc = shift_c(r[i.rm], i.sh, r[i.rs] & 0xFF, cin)
                if i.sh == RRX:
                    raise AssertionError
            a = R(i.rn) if i.rn is not None else 0
            if i.rn == 15 and o2 in ("val",) and self.thumb:
                a &= 0xFFFFFFFC
            arith = None
            if n in ("and", "tst"):
                v = a & b
            elif n in ("eor", "teq"):
                v = a ^ b
            elif n == "orr":
                v = a | b
            elif n == "orn":
                v = a | (~b & M32)
            elif n == "bic":
                v = a & ~b & M32
            elif n == "mov":
                v = b
            elif n == "mvn":
                v = ~b & M32
            else:
                if n in ("add", "cmn", "addw"):
                    arith = add_with_carry(a, b, 0)
                elif n in ("sub", "cmp", "subw"):
                    arith = add_with_carry(a, ~b & M32, 1)
                elif n == "rsb":
                    arith = add_with_carry(~a & M32, b, 1)
                elif n == "adc":
                    arith = add_with_carry(a, b, cin)
                elif n == "sbc":
                    arith = add_with_carry(a, ~b & M32, cin)
                elif n == "rsc":
                    arith = add_with_carry(~a & M32, b, cin)
                else:
                    raise AssertionError(n)
                v = arith[0]
            if i.rd is not None:
                if i.rd == 15:
                    if S:
                        raise IllegalInstruction(i.word, r[15], "flag-setting write to pc")
                    self.alu_write_pc(v)
                else:
                    r[i.rd] = v
            if S:
                self._setnz(v)
                if arith:
                    self.c, self.v = arith[1], arith[2]
                else:
                    self.c = sc
        elif k == "mem":
            self._mem(i)
        elif k == "b":
            tgt = (R(15) + i.imm) & M32
            if i.link:
                r[14] = (self._npc | 1) if self.thumb else self._npc
            self.branch_write_pc(tgt)
        elif k == "bx":
            tgt = R(i.rm)
            if i.link:
                r[14] = (self._npc | 1) if self.thumb else self._npc
            self.bx_write_pc(tgt)
        elif k == "ldm":
            self._ldm(i)
        elif k == "stm":
            self._stm(i)
        elif k == "mov16":
            if i.name == "movw":
                r[i.rd] = i.imm
            else:
                r[i.rd] = (r[i.rd] & 0xFFFF) | (i.imm << 16)
        elif k == "mul":
            n = i.name
            v = r[i.rn] * r[i.rm]
            if n == "mla":
                v += r[i.ra]
            elif n == "mls":
                v = r[i.ra] - v
            v &= M32
            r[i.rd] = v
            if i.s or (i.sit and not in_it):
                self._setnz(v)
        elif k == "mull":
            n = i.name
            if n[0] == "s":
                v = _sgn(r[i.rn]) * _sgn(r[i.rm])
            else:
                v = r[i.rn] * r[i.rm]
            if n in ("umlal", "smlal"):
                v += (r[i.ra] << 32) | r[i.rd]
            elif n == "umaal":
                v += r[i.ra] + r[i.rd]
            v &= (1 << 64) - 1
            r[i.rd], r[i.ra] = v & M32, v >> 32
            if i.s:
                self.n, self.z = v >> 63, 1 if v == 0 else 0
        elif k == "smulxy":
            a = sx(r[i.rn] >> (16 * i.aux[0]), 16)
            b = sx(r[i.rm] >> (16 * i.aux[1]), 16)
            v = a * b
            if i.ra is not None:
                v += _sgn(r[i.ra])
                if v != _sgn(v & M32):
                    self.q = 1
            r[i.rd] = v & M32
        elif k == "smm":
            v = _sgn(r[i.rn]) * _sgn(r[i.rm])
            if i.name.startswith("smmls"):
                v = (_sgn(r[i.ra]) << 32) - v
            elif i.ra is not None:
                v += _sgn(r[i.ra]) << 32
            if i.aux:
                v += 0x80000000
            r[i.rd] = (v >> 32) & M32
        elif k == "div":
            a, b = r[i.rn], r[i.rm]
            if b == 0:
                v = 0                       # divide-by-zero trapping disabled: result 0
            elif i.name == "udiv":
                v = a // b
            else:
                v = _divq(_sgn(a), _sgn(b)) & M32
            r[i.rd] = v
        elif k == "un":
            n, x = i.name, r[i.rm]
            if n == "clz":
                v = 32 - x.bit_length()
            elif n == "rev":
                v = int.from_bytes(x.to_bytes(4, "little"), "big")
            elif n == "rev16":
                v = ((x & 0x00FF00FF) << 8) | ((x >> 8) & 0x00FF00FF)
            elif n == "revsh":
                v = sx(((x & 0xFF) << 8) | ((x >> 8) & 0xFF), 16) & M32
            else:
                v = int("{:032b}".format(x)[::-1], 2)
            r[i.rd] = v
        elif k == "ext":
            x = ror32(r[i.rm], i.imm)
            b = i.aux
            bits = 8 if b[3] == "b" else 16
            v = (sx(x, bits) if b[0] == "s" else x & ((1 << bits) - 1))
            if i.rn is not None:
                v += r[i.rn]
            r[i.rd] = v & M32
        elif k == "ext16":
            x = ror32(r[i.rm], i.imm)
            lo, hi = x & 0xFF, (x >> 16) & 0xFF
            if i.aux[0] == "s":
                lo, hi = sx(lo, 8), sx(hi, 8)
            if i.rn is not None:
                lo, hi = lo + (r[i.rn] & 0xFFFF), hi + (r[i.rn] >> 16)
            r[i.rd] = ((hi & 0xFFFF) << 16) | (lo & 0xFFFF)
        elif k == "sat":
            x = _sgn(shift_c(r[i.rn], i.sh, i.sha, 0)[0])
            lo, hi = (-(1 << (i.imm - 1)), (1 << (i.imm - 1)) - 1) if i.name == "ssat" else (0, (1 << i.imm) - 1)
            y = min(max(x, lo), hi)
            if y != x:
                self.q = 1
            r[i.rd] = y & M32
        elif k == "qadd":
            def sat32(x):
                y = min(max(x, -(1 << 31)), (1 << 31) - 1)
                if y != x:
                    self.q = 1
                return y
            b = _sgn(r[i.rn])
            if i.name in ("qdadd", "qdsub"):
                b = sat32(2 * b)
            r[i.rd] = sat32(_sgn(r[i.rm]) + b if i.name in ("qadd", "qdadd") else _sgn(r[i.rm]) - b) & M32
        elif k == "pkh":
            x = shift_c(r[i.rm], i.sh, i.sha, 0)[0]
            if i.name == "pkhbt":
                r[i.rd] = (x & 0xFFFF0000) | (r[i.rn] & 0xFFFF)
            else:
                r[i.rd] = (r[i.rn] & 0xFFFF0000) | (x & 0xFFFF)
        elif k == "bfx":
            x = (r[i.rn] >> i.imm) & ((1 << i.aux) - 1)
            r[i.rd] = (sx(x, i.aux) & M32) if i.name == "sbfx" else x
        elif k == "bfi":
            mask = ((1 << i.aux) - 1) << i.imm
            src = 0 if i.rn is None else (r[i.rn] << i.imm) & mask
            r[i.rd] = (r[i.rd] & ~mask & M32) | src
        elif k == "adr":
            r[i.rd] = ((R(15) & 0xFFFFFFFC) + i.imm) & M32
        elif k == "cbz":
            if (r[i.rn] == 0) == (i.name == "cbz"):
                self.branch_write_pc((R(15) + i.imm) & M32)
        elif k == "tb":
            base = R(i.rn)
            if i.name == "tbb":
                h = self.read((base + r[i.rm]) & M32, 1)
            else:
                h = self.read((base + 2 * r[i.rm]) & M32, 2)
            self.branch_write_pc((R(15) + 2 * h) & M32)
        elif k == "it":
            self.itstate = i.imm
        elif k == "nop":
            pass
        elif k == "trap":
            raise Trap("%s at pc=%#x" % (text(i), r[15]))
        else:
            raise AssertionError(k)

    def _mem(self, i):
        r = self.r
        n = i.name
        base = self.rd(i.rn)
        if i.rn == 15:
            base &= 0xFFFFFFFC
        if i.o2 == "imm":
            off = i.imm
        else:
            off = shift_c(r[i.rm], i.sh, i.sha, self.c)[0]
        oaddr = (base + off if i.U else base - off) & M32
        addr = oaddr if i.P else base
        if n in ("ldrd", "strd"):
            if addr & 3:
                raise MisalignedAccess("misaligned %s at %#x (pc=%#x)" % (n, addr, r[15]))
            if n == "ldrd":
                a, b = self.read(addr, 4), self.read((addr + 4) & M32, 4)
                if i.W:
                    r[i.rn] = oaddr
                r[i.rt], r[i.rt2] = a, b
            else:
                self.write(addr, 4, r[i.rt])
                self.write((addr + 4) & M32, 4, r[i.rt2])
                if i.W:
                    r[i.rn] = oaddr
            return
        size, signed, isload = _LDST[n]
        if isload:
            v = self.read(addr, size)
            if signed:
                v = sx(v, 8 * size) & M32
            if i.W:
                r[i.rn] = oaddr
            if i.rt == 15:
                if addr & 3:
                    raise MisalignedAccess("UNPREDICTABLE: unaligned load to pc")
                self.bx_write_pc(v)
            else:
                r[i.rt] = v
        else:
            self.write(addr, size, self.rd(i.rt))
            if i.W:
                r[i.rn] = oaddr

    def _ldm(self, i):
        r = self.r
        cnt = bin(i.regs).count("1")
        base = r[i.rn]
        mode = i.aux
        addr = {"ia": base, "ib": base + 4, "da": base - 4 * cnt + 4, "db": base - 4 * cnt}[mode] & M32
        if addr & 3:
            raise MisalignedAccess("misaligned ldm/pop at %#x (pc=%#x)" % (addr, r[15]))
        vals = []
        for k in range(16):
            if i.regs & (1 << k):
                vals.append((k, self.read(addr, 4)))
                addr = (addr + 4) & M32
        if i.W:
            r[i.rn] = (base + 4 * cnt if mode in ("ia", "ib") else base - 4 * cnt) & M32
        for k, v in vals:
            if k == 15:
                self.bx_write_pc(v)
            else:
                r[k] = v

    def _stm(self, i):
        r = self.r
        cnt = bin(i.regs).count("1")
        base = r[i.rn]
        mode = i.aux
        addr = {"ia": base, "ib": base + 4, "da": base - 4 * cnt + 4, "db": base - 4 * cnt}[mode] & M32
        if addr & 3:
            raise MisalignedAccess("misaligned stm/push at %#x (pc=%#x)" % (addr, r[15]))
        for k in range(16):
            if i.regs & (1 << k):
                self.write(addr, 4, r[k])
                addr = (addr + 4) & M32
        if i.W:
            r[i.rn] = (base + 4 * cnt if mode in ("ia", "ib") else base - 4 * cnt) & M32

    def run(self, max_steps=100000, stop=SENTINEL):
        n = 0
        hooks = self.hooks
        r = self.r
        while r[15] != stop:
            if n >= max_steps:
                raise StepLimit("no return after %d instructions (pc=%#x)" % (max_steps, r[15]))
            if hooks and r[15] in hooks:
                if self.thumb and self.itstate & 15:
                    raise EmuError("host function entered inside an IT block")
                hooks[r[15]](self)
                self._npc = r[15]
                self.bx_write_pc(r[14])
                r[15] = self._npc
            else:
                self.step()
            n += 1
        return n


class Result:
    __slots__ = ("r0", "r1", "regs", "machine", "steps")

    def __init__(self, m, steps):
        self.r0, self.r1, self.regs, self.machine, self.steps = m.r[0], m.r[1], list(m.r), m, steps


def run(image_bytes, load_address, entry, args=(), stack_top=None, max_steps=100000, mem_size=1 << 18, mem_base=0, arg_regs=(0, 1, 2, 3),
        strict_align=False, extra_images=(), init_regs=None, trace=False, hooks=None, thumb=False, stack_args=()):
    """Load `image_bytes` at `load_address` (plus (address, bytes) pairs in extra_images); arguments (ints modulo 2^32) go to the
    registers named by `arg_regs` (AAPCS: r0-r3) and `stack_args` are stored as words at sp upwards; lr = SENTINEL (bit 0 set when
    `thumb`), sp = stack_top (default: 16 below the end of memory, minus the stack arguments, 8-byte aligned); run from `entry`
    (bit 0 ignored) in ARM or Thumb state until control returns to SENTINEL.  -> Result (r0, r1, regs, machine, steps).
    Raises IllegalInstruction / MemoryFault / MisalignedAccess / StepLimit / Trap."""
    m = Machine(mem_size, mem_base, strict_align, thumb)
    m.load(load_address, image_bytes)
    for a, b in extra_images:
        m.load(a, b)
    if len(args) > len(arg_regs):
        raise ValueError("only %d register arguments are supported" % len(arg_regs))
    if init_regs:
        for k, v in init_regs.items():
            m.r[k] = v & M32
    for k, v in zip(arg_regs, args):
        m.r[k] = v & M32
    sp = (mem_base + mem_size - 16 if stack_top is None else stack_top) & M32
    if stack_args:
        sp = (sp - 4 * len(stack_args)) & 0xFFFFFFF8
        for k, v in enumerate(stack_args):
            m.write(sp + 4 * k, 4, v & M32)
    m.r[13] = sp
    m.r[14] = SENTINEL | (1 if thumb else 0)
    m.r[15] = entry & (0xFFFFFFFE if thumb else 0xFFFFFFFC)
    if trace:
        m.trace = []
    if hooks:
        m.hooks = {a & 0xFFFFFFFE: h for a, h in hooks.items()}
    steps = m.run(max_steps)
    return Result(m, steps)
