"""Reference interpreter for ppci IR ("Interp" in DESIGN 3.2).

Written from the semantics stated in properties C02/C24, independent of ppci's
ir2py backend:  fixed-width two's-complement wrap-around, / and % truncating
toward zero, >> arithmetic for signed and logical for unsigned, casts int->int
modulo, int->float to nearest, float->int truncating, f64->f32 rounding.

Outside the defined domain the run raises `Undefined` (division by zero,
INT_MIN / -1, shift count >= width, float->int out of range, use of an
`undefined` value, read of an uninitialised byte, out-of-bounds or dangling
access) or `Horizon` (step budget), and the caller never uses such a run as
evidence for or against a property.

Observation of a run = (return value, final bytes of every global, external call
trace) -- see `Interp.observe`.
"""
import math
import struct
import bisect


class Undefined(Exception):
    pass


class Horizon(Exception):
    pass


class Unsupported(Exception):
    pass


class _Undef:
    def __repr__(self):
        return "UNDEF"


UNDEF = _Undef()


def f32round(x):
    try:
        return struct.unpack("<f", struct.pack("<f", x))[0]
    except OverflowError:
        return math.copysign(math.inf, x)


def int_to_float(v, bits):
    """Round an integer to the nearest representable float (ties to even), once."""
    if bits == 64:
        return float(v)  # CPython int->float is correctly rounded
    # f32: correct single rounding
    if abs(v) < (1 << 53):
        return f32round(float(v))
    sign = -1 if v < 0 else 1
    m = abs(v)
    shift = m.bit_length() - 24
    q, r = m >> shift, m & ((1 << shift) - 1)
    half = 1 << (shift - 1)
    if r > half or (r == half and (q & 1)):
        q += 1
    return f32round(float(sign * (q << shift)))


class Region:
    __slots__ = ("base", "size", "data", "init", "live", "name", "writable", "kind")

    def __init__(self, base, size, name, kind, writable=True):
        self.base = base
        self.size = size
        self.data = bytearray(size)
        self.init = bytearray(size)  # 1 = initialised
        self.live = True
        self.name = name
        self.kind = kind
        self.writable = writable


def default_external(name, args, ret_ty):
    """Deterministic stub for external functions: 3*sum(args)+1 (ints), sum+0.5 (floats)."""
    if ret_ty is None:
        return None
    s = 0
    for a in args:
        s += a if not isinstance(a, float) else int(a) if math.isfinite(a) else 0
    if ret_ty.is_integer or ret_ty.name == "ptr":
        return 3 * s + 1
    return float(s) + 0.5


class Interp:
    def __init__(self, module, ptr_size=8, max_steps=20000, max_depth=40, externals=None, little_endian=True, extra_modules=()):
        from ppci import ir
        self.ir = ir
        self.module = module
        self.ptr_size = ptr_size
        self.ptr_bits = ptr_size * 8
        self.max_steps = max_steps
        self.max_depth = max_depth
        self.externals = externals or {}
        self.endian = "little" if little_endian else "big"
        self.fmt = "<" if little_endian else ">"
        self.regions = []  # sorted by base
        self.bases = []
        self.addr_of = {}  # global value / function -> address
        self.func_at = {}  # address -> SubRoutine or External
        self.globals = []
        self.next_static = 0x10000
        self.next_stack = 0x40000000
        self.trace = []
        self._pending_regions = []
        self.steps = 0
        self.by_name = {}
        mods = [module] + list(extra_modules)
        for m in mods:
            for v in m.variables:
                self.by_name[v.name] = v
            for f in m.functions:
                self.by_name[f.name] = f
        for m in mods:
            for f in m.functions:
                self._place_function(f)
            for e in m.externals:
                if e.name in self.by_name:
                    continue
                if isinstance(e, ir.ExternalVariable):
                    r = self._new_static(64, 8, e.name, "extvar")
                    r.init[:] = b"\x01" * 64
                    self.addr_of[e] = r.base
                    self.globals.append((e.name, r))
                else:
                    self._place_function(e)
        for m in mods:
            for v in m.variables:
                r = self._new_static(max(v.amount, 1), max(v.alignment, 1), v.name, "global")
                r.size = v.amount
                self.addr_of[v] = r.base
                self.globals.append((v.name, r))
        # initial images (may reference addresses of other globals)
        for m in mods:
            for v in m.variables:
                r = self._region_of_base(self.addr_of[v])
                if v.value:
                    pos = 0
                    for part in v.value:
                        if isinstance(part, bytes):
                            r.data[pos:pos + len(part)] = part
                            pos += len(part)
                        elif isinstance(part, tuple) and part[0] is ir.ptr:
                            target = self.by_name.get(part[1])
                            if target is None:
                                raise Unsupported("initializer references unknown label %s" % part[1])
                            # (ir.ptr, name) or, for an address constant with a byte offset, (ir.ptr, name, offset)
                            off = part[2] if len(part) > 2 else 0
                            a = (self.addr_of[target] + off) % (1 << (8 * ptr_size))
                            r.data[pos:pos + ptr_size] = a.to_bytes(ptr_size, self.endian)
                            pos += ptr_size
                        else:
                            raise Unsupported("initializer part %r" % (part,))
                    if pos > v.amount:
                        raise Unsupported("initializer larger than variable %s" % v.name)
                r.init[:] = b"\x01" * len(r.init)  # globals are zero-initialised

    # ------------------------------------------------------------ memory
    def _new_static(self, size, align, name, kind, writable=True):
        base = (self.next_static + align - 1) // align * align
        self.next_static = base + size + 32
        r = Region(base, size, name, kind, writable)
        self._insert(r)
        return r

    def _insert(self, r):
        i = bisect.bisect(self.bases, r.base)
        self.bases.insert(i, r.base)
        self.regions.insert(i, r)

    def _place_function(self, f):
        if f in self.addr_of:
            return
        r = self._new_static(1, 16, f.name, "code", writable=False)
        self.addr_of[f] = r.base
        self.func_at[r.base] = f

    def _region_of_base(self, base):
        i = bisect.bisect(self.bases, base) - 1
        return self.regions[i]

    def _locate(self, addr, size, write):
        if not isinstance(addr, int):
            raise Undefined("address is %r" % (addr,))
        i = bisect.bisect(self.bases, addr) - 1
        if i < 0:
            raise Undefined("access to address %#x outside any object" % addr)
        r = self.regions[i]
        off = addr - r.base
        if off < 0 or off + size > r.size:
            raise Undefined("out-of-bounds access to %s at offset %d size %d" % (r.name, off, size))
        if not r.live:
            raise Undefined("access to dead stack object %s" % r.name)
        if r.kind == "code":
            raise Undefined("data access to function %s" % r.name)
        if write and not r.writable:
            raise Undefined("write to read-only object %s" % r.name)
        return r, off

    def read_bytes(self, addr, size):
        if size == 0:
            return b""
        r, off = self._locate(addr, size, False)
        if r.init[off:off + size].count(1) != size:
            fill = getattr(self, "uninit_fill", None)
            if fill is None:
                raise Undefined("read of uninitialised byte in %s+%d" % (r.name, off))
            # opt-in (set .uninit_fill = 0..255 after construction): uninitialised bytes read as that value; a caller that wants to know
            # whether a result depends on them runs twice with different fill values and compares
            self.uninit_reads = getattr(self, "uninit_reads", 0) + 1
            return bytes(r.data[off + i] if r.init[off + i] else fill for i in range(size))
        return bytes(r.data[off:off + size])

    def write_bytes(self, addr, data):
        if not data:
            return
        r, off = self._locate(addr, len(data), True)
        r.data[off:off + len(data)] = data
        r.init[off:off + len(data)] = b"\x01" * len(data)

    def alloc_stack(self, size, align, name):
        base = (self.next_stack + align - 1) // align * align
        self.next_stack = base + size + 32
        r = Region(base, size, name, "stack")
        self._insert(r)
        return r

    def alloc_buffer(self, data, name="buf"):
        """Caller-provided argument buffer (initialised, observed with the globals)."""
        r = self._new_static(len(data), 16, name, "global")
        r.data[:] = data
        r.init[:] = b"\x01" * len(data)
        self.globals.append((name, r))
        return r.base

    # ------------------------------------------------------------ values
    def wrap(self, ty, v):
        if ty.is_integer:
            bits = ty.bits
            v &= (1 << bits) - 1
            if ty.is_signed and v >> (bits - 1):
                v -= 1 << bits
            return v
        if ty is self.ir.ptr:
            return v & ((1 << self.ptr_bits) - 1)
        if ty is self.ir.f32:
            return f32round(v)
        return float(v)

    def size_of(self, ty):
        if ty.is_blob:
            raise Unsupported("blob-typed value")
        if ty is self.ir.ptr:
            return self.ptr_size
        return ty.bits // 8

    def to_bytes(self, ty, v):
        if ty is self.ir.f32:
            return struct.pack(self.fmt + "f", v)
        if ty is self.ir.f64:
            return struct.pack(self.fmt + "d", v)
        n = self.size_of(ty)
        return (v & ((1 << (8 * n)) - 1)).to_bytes(n, self.endian)

    def from_bytes(self, ty, b):
        if ty is self.ir.f32:
            return struct.unpack(self.fmt + "f", b)[0]
        if ty is self.ir.f64:
            return struct.unpack(self.fmt + "d", b)[0]
        v = int.from_bytes(b, self.endian)
        return self.wrap(ty, v)

    def coerce_arg(self, ty, v):
        if ty.is_blob:
            if not (isinstance(v, tuple) and v[0] == "blob"):
                raise Undefined("non-blob passed for blob parameter")
            r = self.alloc_stack(max(ty.size, 1), max(ty.alignment, 1), "blobcopy")
            r.size = ty.size
            self.copy_blob(r.base, v[1], ty.size)
            self._pending_regions.append(r)
            return ("blob", r.base)
        if isinstance(v, tuple):
            raise Undefined("blob passed for scalar parameter")
        if isinstance(v, float) and (ty.is_integer or ty is self.ir.ptr):
            raise Undefined("float passed for integer parameter")
        if ty.is_integer or ty is self.ir.ptr:
            return self.wrap(ty, int(v))
        return self.wrap(ty, float(v))

    # ------------------------------------------------------------ execution
    def call(self, func, args):
        """Run `func` (SubRoutine or its name) with Python numbers as arguments."""
        if isinstance(func, str):
            func = self.by_name[func]
        return self._call(func, list(args), 0)

    def _call(self, f, args, depth):
        ir = self.ir
        if isinstance(f, ir.External) and f.name in self.by_name:
            f = self.by_name[f.name]
        if isinstance(f, ir.External):
            if not isinstance(f, ir.ExternalSubRoutine):
                raise Undefined("call of external variable")
            ret_ty = f.return_ty if isinstance(f, ir.ExternalFunction) else None
            args = [self.coerce_arg(t, a) for t, a in zip(f.argument_types, args)] if len(f.argument_types) == len(args) else list(args)
            self.trace.append((f.name, tuple(self._obs_val(a) for a in args)))
            fn = self.externals.get(f.name)
            if fn is not None:
                r = fn(self, args)
            else:
                r = default_external(f.name, args, ret_ty)
            if ret_ty is None:
                return None
            return self.coerce_arg(ret_ty, r)
        if depth > self.max_depth:
            raise Horizon("call depth")
        if len(args) != len(f.arguments):
            raise Undefined("call of %s with %d arguments, expects %d" % (f.name, len(args), len(f.arguments)))
        env = {}
        self._pending_regions = []
        for p, a in zip(f.arguments, args):
            if a is UNDEF:
                raise Undefined("undefined value passed as argument")
            env[p] = self.coerce_arg(p.ty, a)
        frame_regions = self._pending_regions
        self._pending_regions = []
        try:
            r = self._run(f, env, frame_regions, depth)
            if isinstance(r, tuple) and r[0] == "blob":
                # returned by value: copy out of the dying frame
                ty = f.return_ty
                t = self.alloc_stack(max(ty.size, 1), max(ty.alignment, 1), "blobret")
                t.size = ty.size
                self.copy_blob(t.base, r[1], ty.size)
                r = ("blob", t.base)
            return r
        finally:
            for r in frame_regions:
                r.live = False

    def _val(self, env, v):
        """Value of operand v; raises Undefined when it is UNDEF."""
        x = env.get(v, None)
        if x is None:
            x = self._global_val(env, v)
        if x is UNDEF:
            raise Undefined("use of undefined value %s" % v.name)
        return x

    def _global_val(self, env, v):
        ir = self.ir
        if isinstance(v, ir.GlobalValue):
            if isinstance(v, ir.External) and v.name in self.by_name:
                v = self.by_name[v.name]
            a = self.addr_of.get(v)
            if a is None:
                raise Unsupported("unknown global %s" % v.name)
            return a
        raise Undefined("value %s used before definition on this path" % v.name)

    def _run(self, f, env, frame_regions, depth):
        ir = self.ir
        block = f.entry
        prev = None
        val = self._val
        while True:
            self.steps += 1
            if self.steps > self.max_steps:
                raise Horizon("steps")
            # phis: parallel assignment from the predecessor
            phis = []
            for ins in block.instructions:
                if isinstance(ins, ir.Phi):
                    if prev not in ins.inputs:
                        raise Undefined("phi %s has no incoming value for block %s" % (ins.name, prev.name if prev else None))
                    src = ins.inputs[prev]
                    x = env.get(src)
                    if x is None:
                        x = self._global_val(env, src)
                    phis.append((ins, x))
                else:
                    break
            for ins, x in phis:
                env[ins] = x
            for ins in block.instructions[len(phis):]:
                t = type(ins)
                if t is ir.Const:
                    env[ins] = self._const(ins)
                elif t is ir.Binop:
                    env[ins] = self.binop(ins.ty, ins.operation, val(env, ins.a), val(env, ins.b))
                elif t is ir.Load:
                    a = val(env, ins.address)
                    env[ins] = self.from_bytes(ins.ty, self.read_bytes(a, self.size_of(ins.ty)))
                elif t is ir.Store:
                    a = val(env, ins.address)
                    v = val(env, ins.value)
                    if ins.value.ty.is_blob:
                        # "store <blob value>, addr" (struct assignment / struct return through the hidden pointer): copy the bytes
                        if not (isinstance(v, tuple) and v[0] == "blob"):
                            raise Undefined("store of a non-blob value with blob type")
                        self.copy_blob(a, v[1], ins.value.ty.size)
                        continue
                    self.write_bytes(a, self.to_bytes(ins.value.ty, v))
                elif t is ir.Cast:
                    env[ins] = self.cast(ins.src.ty, ins.ty, val(env, ins.src))
                elif t is ir.CJump:
                    a, b = val(env, ins.a), val(env, ins.b)
                    prev, block = block, (ins.lab_yes if self.compare(ins.a.ty, ins.cond, a, b) else ins.lab_no)
                    break
                elif t is ir.Jump:
                    prev, block = block, ins.target
                    break
                elif t is ir.Return:
                    return val(env, ins.result)
                elif t is ir.Exit:
                    return None
                elif t is ir.Unop:
                    env[ins] = self.unop(ins.ty, ins.operation, val(env, ins.a))
                elif t is ir.Alloc:
                    r = self.alloc_stack(ins.amount, max(ins.alignment, 1), ins.name)
                    frame_regions.append(r)
                    env[ins] = ("blob", r.base)
                elif t is ir.AddressOf:
                    s = env.get(ins.src)
                    if s is None:
                        s = val(env, ins.src)
                    if isinstance(s, tuple):
                        env[ins] = s[1]
                    else:
                        env[ins] = s
                elif t is ir.FunctionCall or t is ir.ProcedureCall:
                    callee = self._resolve_callee(env, ins.callee)
                    args = [val(env, a) for a in ins.arguments]
                    r = self._call(callee, args, depth + 1)
                    if t is ir.FunctionCall:
                        if r is None:
                            raise Undefined("function call to a procedure")
                        if ins.ty.is_blob:
                            env[ins] = r
                        else:
                            env[ins] = self.coerce_arg(ins.ty, r) if not (isinstance(r, float) and ins.ty.is_integer) else UNDEF
                elif t is ir.Undefined:
                    env[ins] = UNDEF
                elif t is ir.LiteralData:
                    key = ("lit", id(ins))
                    base = self.addr_of.get(key)
                    if base is None:
                        r = self._new_static(max(len(ins.data), 1), 8, ins.name, "literal", writable=False)
                        r.size = len(ins.data)
                        r.data[:len(ins.data)] = ins.data
                        r.init[:] = b"\x01" * len(r.init)
                        base = self.addr_of[key] = r.base
                    env[ins] = ("blob", base)
                elif t is ir.CopyBlob:
                    d, s = val(env, ins.dst), val(env, ins.src)
                    # ppci's C front end passes the blob value itself (an Alloc / blob parameter) as well as its address
                    if isinstance(d, tuple) and d[0] == "blob":
                        d = d[1]
                    if isinstance(s, tuple) and s[0] == "blob":
                        s = s[1]
                    self.copy_blob(d, s, ins.amount)
                elif t is ir.Phi:
                    raise Undefined("phi after non-phi instruction")
                else:
                    raise Unsupported("instruction %s" % t.__name__)
            else:
                raise Undefined("block %s has no terminator" % block.name)

    def copy_blob(self, d, s, n):
        if n == 0:
            return
        rs, so = self._locate(s, n, False)
        data = bytes(rs.data[so:so + n])
        init = bytes(rs.init[so:so + n])
        rd, do = self._locate(d, n, True)
        rd.data[do:do + n] = data
        rd.init[do:do + n] = init

    def _resolve_callee(self, env, c):
        ir = self.ir
        if isinstance(c, (ir.SubRoutine, ir.External)):
            return c
        a = self._val(env, c)
        f = self.func_at.get(a)
        if f is None:
            raise Undefined("indirect call to non-function address %#x" % a)
        return f

    def _const(self, ins):
        ty, v = ins.ty, ins.value
        if ty.is_integer or ty is self.ir.ptr:
            if isinstance(v, float):
                raise Undefined("float constant in integer type")
            return self.wrap(ty, v)
        return self.wrap(ty, float(v))

    # ------------------------------------------------------------ arithmetic
    def binop(self, ty, op, a, b):
        if ty.is_integer or ty is self.ir.ptr:
            bits = ty.bits if ty.is_integer else self.ptr_bits
            if op == "+":
                r = a + b
            elif op == "-":
                r = a - b
            elif op == "*":
                r = a * b
            elif op == "/" or op == "%":
                if b == 0:
                    raise Undefined("division by zero")
                q = abs(a) // abs(b)
                if (a < 0) != (b < 0):
                    q = -q
                if ty.is_integer and ty.is_signed and q == (1 << (bits - 1)):
                    raise Undefined("signed division overflow")
                r = q if op == "/" else a - q * b
            elif op == "&":
                r = a & b
            elif op == "|":
                r = a | b
            elif op == "^":
                r = a ^ b
            elif op == "<<":
                if b < 0 or b >= bits:
                    raise Undefined("shift count out of range")
                r = a << b
            elif op == ">>":
                if b < 0 or b >= bits:
                    raise Undefined("shift count out of range")
                r = a >> b  # a is negative for signed negative values -> arithmetic; unsigned values are >= 0 -> logical
            elif op in ("rol", "ror"):
                if b < 0:
                    raise Undefined("rotate count negative")
                u = a & ((1 << bits) - 1)
                c = b % bits
                if op == "ror":
                    c = (bits - c) % bits
                r = ((u << c) | (u >> (bits - c))) if c else u
            else:
                raise Unsupported("binop " + op)
            return self.wrap(ty, r)
        # floats
        try:
            if op == "+":
                r = a + b
            elif op == "-":
                r = a - b
            elif op == "*":
                r = a * b
            elif op == "/":
                if b == 0:
                    if a == 0 or a != a:
                        r = math.nan
                    else:
                        r = math.copysign(math.inf, a) * math.copysign(1.0, b)
                else:
                    r = a / b
            else:
                raise Unsupported("float binop " + op)
        except OverflowError:
            raise Unsupported("python float overflow")
        return self.wrap(ty, r)

    def unop(self, ty, op, a):
        if op == "-":
            return self.wrap(ty, -a)
        if op == "~":
            if not (ty.is_integer or ty is self.ir.ptr):
                raise Undefined("~ on float")
            return self.wrap(ty, ~a)
        raise Unsupported("unop " + op)

    def cast(self, src, dst, v):
        ir = self.ir
        s_int = src.is_integer or src is ir.ptr
        d_int = dst.is_integer or dst is ir.ptr
        if s_int and d_int:
            return self.wrap(dst, v)
        if s_int and not d_int:
            return int_to_float(v, dst.bits)
        if not s_int and d_int:
            if v != v or v in (math.inf, -math.inf):
                raise Undefined("float->int of non-finite")
            t = math.trunc(v)
            bits = dst.bits if dst.is_integer else self.ptr_bits
            if dst.is_integer and dst.is_signed:
                lo, hi = -(1 << (bits - 1)), (1 << (bits - 1)) - 1
            else:
                lo, hi = 0, (1 << bits) - 1
            if t < lo or t > hi:
                raise Undefined("float->int out of range")
            return t
        return self.wrap(dst, v)

    def compare(self, ty, cond, a, b):
        if cond == "==":
            return a == b
        if cond == "!=":
            return a != b
        if cond == "<":
            return a < b
        if cond == ">":
            return a > b
        if cond == "<=":
            return a <= b
        if cond == ">=":
            return a >= b
        raise Unsupported("cond " + cond)

    # ------------------------------------------------------------ observation
    @staticmethod
    def _obs_val(v):
        if isinstance(v, float):
            if v != v:
                return "nan"
            return struct.pack("<d", v).hex()
        return v

    def observe(self, result):
        mem = tuple((name, bytes(r.data[:r.size]).hex()) for name, r in self.globals)
        return (self._obs_val(result), mem, tuple(self.trace))


def run_function(module, fname, args, **kw):
    """Fresh interpreter, one call; returns ('ok', observation) | ('undef', msg) | ('horizon', msg) | ('unsupported', msg)."""
    try:
        it = Interp(module, **kw)
        r = it.call(fname, args)
        return ("ok", it.observe(r))
    except Undefined as e:
        return ("undef", str(e))
    except Horizon as e:
        return ("horizon", str(e))
    except Unsupported as e:
        return ("unsupported", str(e))
    except RecursionError:
        return ("horizon", "python recursion")
