"""IR utilities written in /verif, independent of ppci's own verifier/writer:

canon(module)      canonical text after positional renaming (dedup key, equality of modules)
clone(module)      deep copy through the ir constructors
wellformed(module) the checker W of DESIGN C03: list of (clause, message)
operands(ins)      operand values of an instruction, from its class (not from `uses`)
"""
import struct


def _terminator_targets(ir, ins):
    if isinstance(ins, ir.Jump):
        return [ins.target]
    if isinstance(ins, ir.CJump):
        return [ins.lab_yes, ins.lab_no]
    return []


def operands(ir, ins):
    t = type(ins)
    if t is ir.Binop:
        return [ins.a, ins.b]
    if t in (ir.Unop,):
        return [ins.a]
    if t is ir.Cast or t is ir.AddressOf:
        return [ins.src]
    if t is ir.Load:
        return [ins.address]
    if t is ir.Store:
        return [ins.value, ins.address]
    if t is ir.Phi:
        return list(ins.inputs.values())
    if t is ir.FunctionCall or t is ir.ProcedureCall:
        return [ins.callee] + list(ins.arguments)
    if t is ir.CopyBlob:
        return [ins.dst, ins.src]
    if t is ir.CJump:
        return [ins.a, ins.b]
    if t is ir.Return:
        return [ins.result]
    if t is ir.InlineAsm:
        return list(ins.input_values) + list(ins.output_values)
    return []


def _fval(v):
    if isinstance(v, float):
        return "f:" + struct.pack("<d", v).hex()
    return "i:%d" % v


def canon(module, with_names=False):
    """Canonical text: values and blocks are numbered by position, globals keep their names."""
    from ppci import ir
    out = []
    for e in module.externals:
        if isinstance(e, ir.ExternalFunction):
            out.append("ext fn %s(%s)->%s" % (e.name, ",".join(str(t) for t in e.argument_types), e.return_ty))
        elif isinstance(e, ir.ExternalProcedure):
            out.append("ext proc %s(%s)" % (e.name, ",".join(str(t) for t in e.argument_types)))
        else:
            out.append("ext var %s" % e.name)
    for v in module.variables:
        val = None
        if v.value is not None:
            val = tuple(p.hex() if isinstance(p, bytes) else ("ptr", p[1]) for p in v.value)
        out.append("var %s %s %d/%d %r" % (v.name, v.binding, v.amount, v.alignment, val))
    for f in module.functions:
        names = {}
        for i, p in enumerate(f.arguments):
            names[p] = "p%d" % i
        bn = {}
        for i, b in enumerate(f.blocks):
            bn[b] = "B%d" % i
        n = 0
        for b in f.blocks:
            for ins in b.instructions:
                if isinstance(ins, ir.Value):
                    names[ins] = "v%d" % n
                    n += 1

        def nm(v):
            if v in names:
                return names[v]
            if isinstance(v, ir.GlobalValue):
                return "@" + v.name
            return "?%s" % getattr(v, "name", v)

        def bl(b):
            return bn.get(b, "?B" + str(getattr(b, "name", b)))

        rt = f.return_ty if isinstance(f, ir.Function) else "void"
        out.append("%s %s %s(%s)->%s entry=%s" % (f.binding, type(f).__name__, f.name, ",".join("%s %s" % (p.ty, names[p]) for p in f.arguments), rt, bl(f.entry)))
        for b in f.blocks:
            out.append(" %s:" % bn[b])
            for ins in b.instructions:
                t = type(ins)
                if t is ir.Const:
                    s = "%s %s = const %s" % (ins.ty, nm(ins), _fval(ins.value))
                elif t is ir.Binop:
                    s = "%s %s = %s %s %s" % (ins.ty, nm(ins), nm(ins.a), ins.operation, nm(ins.b))
                elif t is ir.Unop:
                    s = "%s %s = %s %s" % (ins.ty, nm(ins), ins.operation, nm(ins.a))
                elif t is ir.Cast:
                    s = "%s %s = cast %s" % (ins.ty, nm(ins), nm(ins.src))
                elif t is ir.AddressOf:
                    s = "%s %s = &%s" % (ins.ty, nm(ins), nm(ins.src))
                elif t is ir.Load:
                    s = "%s %s = load%s %s" % (ins.ty, nm(ins), " volatile" if ins.volatile else "", nm(ins.address))
                elif t is ir.Store:
                    s = "store%s %s -> %s" % (" volatile" if ins.volatile else "", nm(ins.value), nm(ins.address))
                elif t is ir.Phi:
                    pairs = sorted((bl(k), nm(v)) for k, v in ins.inputs.items())
                    s = "%s %s = phi %s" % (ins.ty, nm(ins), ", ".join("%s:%s" % p for p in pairs))
                elif t is ir.FunctionCall:
                    s = "%s %s = call %s(%s)" % (ins.ty, nm(ins), nm(ins.callee), ",".join(nm(a) for a in ins.arguments))
                elif t is ir.ProcedureCall:
                    s = "call %s(%s)" % (nm(ins.callee), ",".join(nm(a) for a in ins.arguments))
                elif t is ir.Alloc:
                    s = "%s = alloc %d/%d" % (nm(ins), ins.amount, ins.alignment)
                elif t is ir.CopyBlob:
                    s = "memcpy %s <- %s, %d" % (nm(ins.dst), nm(ins.src), ins.amount)
                elif t is ir.LiteralData:
                    s = "%s = literal %s" % (nm(ins), ins.data.hex())
                elif t is ir.Undefined:
                    s = "%s %s = undefined" % (ins.ty, nm(ins))
                elif t is ir.Jump:
                    s = "jmp %s" % bl(ins.target)
                elif t is ir.CJump:
                    s = "cjmp %s %s %s ? %s : %s" % (nm(ins.a), ins.cond, nm(ins.b), bl(ins.lab_yes), bl(ins.lab_no))
                elif t is ir.Return:
                    s = "return %s" % nm(ins.result)
                elif t is ir.Exit:
                    s = "exit"
                else:
                    s = "<%s %s>" % (t.__name__, ins)
                if with_names and isinstance(ins, ir.Value):
                    s += "   ; " + ins.name
                out.append("  " + s)
    return "\n".join(out)


def _rpo(ir, f):
    seen, order = set(), []
    stack = [(f.entry, iter(_terminator_targets(ir, f.entry.instructions[-1]) if f.entry.instructions else []))]
    seen.add(f.entry)
    while stack:
        b, it = stack[-1]
        for s in it:
            if s not in seen:
                seen.add(s)
                stack.append((s, iter(_terminator_targets(ir, s.instructions[-1]) if s.instructions else [])))
                break
        else:
            order.append(b)
            stack.pop()
    order.reverse()
    return order


def clone(module):
    """Deep copy through the public constructors (only for modules that pass `wellformed`)."""
    from ppci import ir
    m2 = ir.Module(module.name)
    gmap = {}
    for e in module.externals:
        if isinstance(e, ir.ExternalFunction):
            e2 = ir.ExternalFunction(e.name, list(e.argument_types), e.return_ty)
        elif isinstance(e, ir.ExternalProcedure):
            e2 = ir.ExternalProcedure(e.name, list(e.argument_types))
        else:
            e2 = type(e)(e.name)
        m2.add_external(e2)
        gmap[e] = e2
    for v in module.variables:
        v2 = ir.Variable(v.name, v.binding, v.amount, v.alignment, value=v.value)
        m2.add_variable(v2)
        gmap[v] = v2
    for f in module.functions:
        if isinstance(f, ir.Function):
            f2 = ir.Function(f.name, f.binding, f.return_ty)
        else:
            f2 = ir.Procedure(f.name, f.binding)
        m2.add_function(f2)
        gmap[f] = f2
    for f in module.functions:
        f2 = gmap[f]
        vmap = dict(gmap)
        for p in f.arguments:
            p2 = ir.Parameter(p.name, p.ty)
            f2.add_parameter(p2)
            vmap[p] = p2
        bmap = {}
        for b in f.blocks:
            b2 = ir.Block(b.name)
            f2.add_block(b2)
            bmap[b] = b2
        f2.entry = bmap[f.entry]
        order = _rpo(ir, f)
        order += [b for b in f.blocks if b not in set(order)]
        phis = []
        new_ins = {}
        for b in order:
            for ins in b.instructions:
                t = type(ins)
                g = lambda v: vmap[v]  # noqa
                if t is ir.Const:
                    n = ir.Const(ins.value, ins.name, ins.ty)
                elif t is ir.Binop:
                    n = ir.Binop(g(ins.a), ins.operation, g(ins.b), ins.name, ins.ty)
                elif t is ir.Unop:
                    n = ir.Unop(ins.operation, g(ins.a), ins.name, ins.ty)
                elif t is ir.Cast:
                    n = ir.Cast(g(ins.src), ins.name, ins.ty)
                elif t is ir.AddressOf:
                    n = ir.AddressOf(g(ins.src), ins.name)
                elif t is ir.Load:
                    n = ir.Load(g(ins.address), ins.name, ins.ty, volatile=ins.volatile)
                elif t is ir.Store:
                    n = ir.Store(g(ins.value), g(ins.address), volatile=ins.volatile)
                elif t is ir.Phi:
                    n = ir.Phi(ins.name, ins.ty)
                    phis.append((ins, n))
                elif t is ir.FunctionCall:
                    n = ir.FunctionCall(g(ins.callee), [g(a) for a in ins.arguments], ins.name, ins.ty)
                elif t is ir.ProcedureCall:
                    n = ir.ProcedureCall(g(ins.callee), [g(a) for a in ins.arguments])
                elif t is ir.Alloc:
                    n = ir.Alloc(ins.name, ins.amount, ins.alignment)
                elif t is ir.CopyBlob:
                    n = ir.CopyBlob(g(ins.dst), g(ins.src), ins.amount)
                elif t is ir.LiteralData:
                    n = ir.LiteralData(ins.data, ins.name)
                elif t is ir.Undefined:
                    n = ir.Undefined(ins.name, ins.ty)
                elif t is ir.Jump:
                    n = ir.Jump(bmap[ins.target])
                elif t is ir.CJump:
                    n = ir.CJump(g(ins.a), ins.cond, g(ins.b), bmap[ins.lab_yes], bmap[ins.lab_no])
                elif t is ir.Return:
                    n = ir.Return(g(ins.result))
                elif t is ir.Exit:
                    n = ir.Exit()
                else:
                    raise NotImplementedError("clone of %s" % t.__name__)
                if isinstance(ins, ir.Value):
                    vmap[ins] = n
                new_ins[ins] = n
        for b in f.blocks:
            b2 = bmap[b]
            for ins in b.instructions:
                n = new_ins[ins]
                n.block = b2
                b2.instructions.append(n)
                if isinstance(n, ir.Value):
                    f2.defined_names.add(n.name)
        for ins, n in phis:
            for pb, v in ins.inputs.items():
                n.set_incoming(bmap[pb], vmap[v])
        f2.unique_counter = f.unique_counter
    return m2


def wellformed(module, bookkeeping=True):
    """Checker W.  Returns [(clause, message)]; clauses named after the property statement:
    terminator, reachable, phi-incoming, dominance, types  (+ bookkeeping clauses ppci's own Verifier asserts)."""
    from ppci import ir
    problems = []

    def bad(clause, msg):
        problems.append((clause, msg))

    for f in module.functions:
        blocks = list(f.blocks)
        bset = set(blocks)
        if f.entry not in bset:
            bad("reachable", "%s: entry block not in function" % f.name)
            continue
        ok_struct = True
        for b in blocks:
            if not b.instructions:
                bad("terminator", "%s: block %s is empty" % (f.name, b.name))
                ok_struct = False
                continue
            terms = [i for i in b.instructions if isinstance(i, ir.FinalInstruction)]
            if len(terms) != 1 or terms[0] is not b.instructions[-1]:
                bad("terminator", "%s: block %s has %d terminators / not in last position" % (f.name, b.name, len(terms)))
                ok_struct = False
            for i in b.instructions:
                if bookkeeping and i.block is not b:
                    bad("bookkeeping-block", "%s: instruction %s in %s has block %s" % (f.name, i, b.name, getattr(i.block, "name", None)))
            if bookkeeping and b.function is not f:
                bad("bookkeeping-function", "%s: block %s has function %s" % (f.name, b.name, getattr(b.function, "name", None)))
        if not ok_struct:
            continue
        succ = {b: _terminator_targets(ir, b.instructions[-1]) for b in blocks}
        for b in blocks:
            for s in succ[b]:
                if s not in bset:
                    bad("terminator", "%s: block %s jumps to %s which is not in the function" % (f.name, b.name, getattr(s, "name", s)))
                    ok_struct = False
        if not ok_struct:
            continue
        order = _rpo(ir, f)
        reach = set(order)
        for b in blocks:
            if b not in reach:
                bad("reachable", "%s: block %s unreachable" % (f.name, b.name))
        preds = {b: [] for b in blocks}
        for b in blocks:
            for s in succ[b]:
                if b not in preds[s]:
                    preds[s].append(b)
        if bookkeeping:
            for b in blocks:
                if set(b.predecessors) != set(preds[b]):
                    bad("bookkeeping-predecessors", "%s: block %s references %s, real predecessors %s" % (
                        f.name, b.name, sorted(x.name for x in b.predecessors if x is not None), sorted(x.name for x in preds[b])))
        # dominators by iterative set intersection (independent of ppci.graph)
        rb = [b for b in order]
        dom = {b: set(rb) for b in rb}
        dom[f.entry] = {f.entry}
        changed = True
        while changed:
            changed = False
            for b in rb:
                if b is f.entry:
                    continue
                ps = [p for p in preds[b] if p in reach]
                new = set(rb)
                for p in ps:
                    new &= dom[p]
                new.add(b)
                if new != dom[b]:
                    dom[b] = new
                    changed = True
        pos = {}
        for b in blocks:
            for k, i in enumerate(b.instructions):
                pos[i] = (b, k)

        def dominates_point(v, b, k):
            """value v available just before instruction k of block b (k = len => end of block)"""
            if isinstance(v, (ir.Parameter, ir.GlobalValue)):
                if isinstance(v, ir.Parameter) and v not in f.arguments:
                    return False
                return True
            if v not in pos:
                return False
            vb, vk = pos[v]
            if vb is b:
                return vk < k
            return b in dom and vb in dom[b]

        for b in blocks:
            if b not in reach:
                continue
            seen_nonphi = False
            for k, ins in enumerate(b.instructions):
                t = type(ins)
                if t is ir.Phi:
                    if seen_nonphi:
                        bad("phi-position", "%s: phi %s after a non-phi instruction" % (f.name, ins.name))
                    keys = list(ins.inputs.keys())
                    if set(keys) != set(preds[b]):
                        bad("phi-incoming", "%s: phi %s in %s has inputs for %s, predecessors are %s" % (
                            f.name, ins.name, b.name, sorted(getattr(x, "name", str(x)) for x in keys), sorted(x.name for x in preds[b])))
                    for pb, v in ins.inputs.items():
                        if v.ty is not ins.ty:
                            bad("types", "%s: phi %s input %s has type %s, phi has %s" % (f.name, ins.name, v.name, v.ty, ins.ty))
                        if pb in reach and pb in bset and not dominates_point(v, pb, len(pb.instructions)):
                            bad("dominance", "%s: phi %s input %s is not available at the end of %s" % (f.name, ins.name, v.name, pb.name))
                        if bookkeeping and v not in ins.uses:
                            bad("bookkeeping-uses", "%s: phi %s input %s not in uses" % (f.name, ins.name, v.name))
                    continue
                seen_nonphi = True
                for v in operands(ir, ins):
                    if not dominates_point(v, b, k):
                        bad("dominance", "%s: %s uses %s which does not dominate it" % (f.name, ins, getattr(v, "name", v)))
                if t is ir.Binop:
                    if ins.a.ty is not ins.ty or ins.b.ty is not ins.ty:
                        bad("types", "%s: binop %s: %s %s %s" % (f.name, ins, ins.a.ty, ins.ty, ins.b.ty))
                elif t is ir.Unop:
                    if ins.a.ty is not ins.ty:
                        bad("types", "%s: unop %s operand type %s" % (f.name, ins, ins.a.ty))
                elif t is ir.CJump:
                    if ins.a.ty is not ins.b.ty:
                        bad("types", "%s: cjmp %s compares %s with %s" % (f.name, ins, ins.a.ty, ins.b.ty))
                elif t is ir.Load:
                    if ins.address.ty is not ir.ptr:
                        bad("types", "%s: load address type %s" % (f.name, ins.address.ty))
                elif t is ir.Store:
                    if ins.address.ty is not ir.ptr:
                        bad("types", "%s: store address type %s" % (f.name, ins.address.ty))
                elif t is ir.AddressOf:
                    if not ins.src.ty.is_blob:
                        bad("types", "%s: address-of non-blob %s" % (f.name, ins.src.ty))
                elif t is ir.Return:
                    if not isinstance(f, ir.Function) or ins.result.ty is not f.return_ty:
                        bad("types", "%s: return of %s in function returning %s" % (f.name, ins.result.ty, getattr(f, "return_ty", "void")))
                elif t is ir.Exit:
                    if not isinstance(f, ir.Procedure):
                        bad("types", "%s: exit in a function" % f.name)
                elif t in (ir.FunctionCall, ir.ProcedureCall):
                    c = ins.callee
                    if c.ty is not ir.ptr:
                        bad("types", "%s: callee type %s" % (f.name, c.ty))
                    want = None
                    if isinstance(c, ir.SubRoutine):
                        want = [a.ty for a in c.arguments]
                    elif isinstance(c, ir.ExternalSubRoutine):
                        want = list(c.argument_types)
                    if want is not None:
                        got = [a.ty for a in ins.arguments]
                        if len(got) != len(want) or any(x is not y for x, y in zip(got, want)):
                            bad("types", "%s: call %s passes %s, callee expects %s" % (f.name, ins, got, want))
                        if t is ir.FunctionCall:
                            rty = c.return_ty if isinstance(c, (ir.Function, ir.ExternalFunction)) else None
                            if rty is not ins.ty:
                                bad("types", "%s: call %s result type %s, callee returns %s" % (f.name, ins, ins.ty, rty))
                        elif isinstance(c, (ir.Function, ir.ExternalFunction)):
                            pass  # calling a function as a procedure discards the value; ppci's verifier rejects it, the property does not
    return problems
