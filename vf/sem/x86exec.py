"""Native executor for x86-64 code produced by ppci (DESIGN 2: "JIT via mmap + ctypes"; used by C05).

  page = CodePage(size)                      one anonymous RWX mapping; code, data and the external-call trampolines all live in it,
                                             so every rel32 reference stays within +-2 GiB
  linked = link_at(obj, page, externals)     ppci.api.link with a generated layout: `code` at page.addr, `data` behind it, every external
                                             function name bound to a 12-byte trampoline (movabs rax, imm64; jmp rax) inside the page
  page.install(linked)                       copy the section images into the mapping
  call(page, linked, name, ret, params, args)   ctypes call through the System V calling convention; types are IR type names
  forked_map(fn, items)                      run fn(item) for every item in a forked child: a crash (SIGSEGV/SIGILL/SIGBUS/...) or a run-away
                                             loop (RLIMIT_CPU -> SIGXCPU) is contained and attributed to the item that was running

ppci's own loader (ppci.utils.codepage) is not used: it needs debug info, has an incomplete type table and puts data in a second mapping.
"""
import os
import mmap
import ctypes
import pickle
import signal
import struct
import resource

CT = {"i8": ctypes.c_int8, "u8": ctypes.c_uint8, "i16": ctypes.c_int16, "u16": ctypes.c_uint16, "i32": ctypes.c_int32, "u32": ctypes.c_uint32,
      "i64": ctypes.c_int64, "u64": ctypes.c_uint64, "f32": ctypes.c_float, "f64": ctypes.c_double, "ptr": ctypes.c_uint64, None: None}

TRAMP_AREA = 0x400          # bytes reserved at the end of the page for trampolines (12 bytes each, 16-byte slots)


class CodePage:
    def __init__(self, size=1 << 16):
        self.size = size
        self.mm = mmap.mmap(-1, size, flags=mmap.MAP_PRIVATE | mmap.MAP_ANONYMOUS, prot=mmap.PROT_READ | mmap.PROT_WRITE | mmap.PROT_EXEC)
        self._anchor = ctypes.c_char.from_buffer(self.mm)
        self.addr = ctypes.addressof(self._anchor)
        self.tramp_base = self.addr + size - TRAMP_AREA
        self.ntramp = 0
        self._keep = []

    def write(self, addr, data):
        o = addr - self.addr
        if o < 0 or o + len(data) > self.size - TRAMP_AREA:
            raise ValueError("image [%#x, %#x) does not fit the code page" % (addr, addr + len(data)))
        self.mm[o:o + len(data)] = bytes(data)

    def read(self, addr, n):
        o = addr - self.addr
        return bytes(self.mm[o:o + n])

    def trampoline_slot(self):
        """address of the next free trampoline slot (the jump target is filled in later by set_trampoline)"""
        if (self.ntramp + 1) * 16 > TRAMP_AREA:
            raise ValueError("out of trampoline slots")
        a = self.tramp_base + 16 * self.ntramp
        self.ntramp += 1
        return a

    def set_trampoline(self, slot_addr, target):
        o = slot_addr - self.addr
        self.mm[o:o + 12] = b"\x48\xb8" + struct.pack("<Q", target) + b"\xff\xe0"

    def reset_trampolines(self):
        self.ntramp = 0
        self._keep = []

    def bind(self, slot_addr, pyfunc, ret, params):
        """make the trampoline at slot_addr call pyfunc(*args) (a ctypes callback; integer arguments arrive as 64-bit register images)"""
        argt = [ctypes.c_double if t == "f64" else ctypes.c_float if t == "f32" else ctypes.c_int64 for t in params]
        rest = None if ret is None else (ctypes.c_double if ret == "f64" else ctypes.c_float if ret == "f32" else ctypes.c_int64)
        cb = ctypes.CFUNCTYPE(rest, *argt)(pyfunc)
        self._keep.append(cb)
        self.set_trampoline(slot_addr, ctypes.cast(cb, ctypes.c_void_p).value)

    def install(self, linked):
        for s in linked.sections:
            if s.size:
                self.write(s.address, s.data)

    def close(self):
        self._keep = []
        self._anchor = None
        try:
            self.mm.close()
        except BufferError:
            pass


def make_layout(addr, size):
    from ppci.binutils.layout import Layout, Memory, Section, Align
    lay = Layout()
    mem = Memory("page")
    mem.location = addr
    mem.size = size - TRAMP_AREA
    mem.add_input(Section("code"))
    mem.add_input(Align(16))
    mem.add_input(Section("data"))
    lay.add_memory(mem)
    return lay


def link_at(obj, page, external_names=()):
    """-> (linked object, {external name: trampoline slot address})"""
    from ppci.api import link
    page.reset_trampolines()
    slots = {n: page.trampoline_slot() for n in external_names}
    linked = link([obj], layout=make_layout(page.addr, page.size), extra_symbols=dict(slots))
    return linked, slots


def call(page, linked, fname, ret, params, args):
    addr = linked.get_symbol_id_value(linked.get_symbol(fname).id)
    f = ctypes.CFUNCTYPE(CT[ret], *[CT[t] for t in params])(addr)
    return f(*args)


# ------------------------------------------------------------------------------------------------ crash containment

def _send(fd, obj):
    b = pickle.dumps(obj)
    os.write(fd, struct.pack("<I", len(b)))
    mv = memoryview(b)
    while mv:
        n = os.write(fd, mv)
        mv = mv[n:]


def _recv_all(fd):
    buf = b""
    out = []
    while True:
        chunk = os.read(fd, 1 << 16)
        if not chunk:
            break
        buf += chunk
        while len(buf) >= 4:
            n = struct.unpack("<I", buf[:4])[0]
            if len(buf) < 4 + n:
                break
            out.append(pickle.loads(buf[4:4 + n]))
            buf = buf[4 + n:]
    return out


def forked_map(fn, items, cpu_seconds=5):
    """[('ok', fn(item)) | ('exc', text) | ('signal', name) | ('timeout', cpu_seconds)] in item order.
    fn runs in a forked child (one child for as many items as survive); its result must be picklable."""
    items = list(items)
    res = [None] * len(items)
    start = 0
    while start < len(items):
        r, w = os.pipe()
        pid = os.fork()
        if pid == 0:
            code = 0
            try:
                os.close(r)
                signal.signal(signal.SIGVTALRM, signal.SIG_DFL)
                signal.setitimer(signal.ITIMER_VIRTUAL, 0)
                hard = resource.getrlimit(resource.RLIMIT_CPU)[1]
                for k in range(start, len(items)):
                    used = resource.getrusage(resource.RUSAGE_SELF)
                    lim = int(used.ru_utime + used.ru_stime) + 1 + cpu_seconds
                    if hard != resource.RLIM_INFINITY:
                        lim = min(lim, hard)
                    resource.setrlimit(resource.RLIMIT_CPU, (lim, hard))
                    try:
                        out = ("ok", fn(items[k]))
                    except Exception as e:  # noqa
                        out = ("exc", "%s: %s" % (type(e).__name__, e))
                    _send(w, (k, out))
            except BaseException:  # noqa
                code = 3
            finally:
                os._exit(code)
        os.close(w)
        got = _recv_all(r)
        os.close(r)
        _, status = os.waitpid(pid, 0)
        for k, out in got:
            res[k] = out
        done = start + len(got)
        if os.WIFSIGNALED(status):
            sig = os.WTERMSIG(status)
            if done < len(items):
                res[done] = ("timeout", cpu_seconds) if sig in (signal.SIGXCPU, signal.SIGKILL) else ("signal", signal.Signals(sig).name)
                done += 1
        elif os.WEXITSTATUS(status) != 0 and done < len(items):
            res[done] = ("exc", "child exited with status %d" % os.WEXITSTATUS(status))
            done += 1
        if done == start:       # no progress and no attributable failure: do not loop for ever
            res[start] = ("exc", "child made no progress")
            done = start + 1
        start = done
    return res
