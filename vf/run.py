"""./check <ID> [--tier quick|thorough] [--replay FILE]"""
import os
import sys
import json
import time
import argparse
import importlib
import traceback

from vf import core


def main():
    ap = argparse.ArgumentParser()
    ap.add_argument("pid")
    ap.add_argument("--tier", default=None)
    ap.add_argument("--replay", default=None)
    a = ap.parse_args()
    tier = a.tier or os.environ.get("VERIF_TIER") or "quick"
    if tier not in ("quick", "thorough"):
        tier = "quick"
    try:
        seed = int(os.environ.get("VERIF_SEED", "0"))
    except ValueError:
        seed = 0
    os.chdir(core.VERIF)
    import logging
    logging.disable(logging.CRITICAL)
    core.use_repo()
    mod = importlib.import_module("vf.checks." + a.pid.lower())
    if a.replay:
        rec = json.load(open(a.replay))
        violated, detail = mod.replay(rec["witness"])
        # replay twice: the same input must give the same verdict
        violated2, detail2 = mod.replay(rec["witness"])
        if violated != violated2:
            print("HARNESS-ERROR: replay not deterministic: %r / %r" % (detail, detail2))
            return 2
        print("replay %s: %s -- %s" % (a.replay, "VIOLATED" if violated else "holds", detail))
        if violated:
            print("VIOLATION property=%s replay=%s" % (a.pid, a.replay))
            return 1
        return 0
    t0 = time.time()
    ctx = core.Ctx(a.pid, tier, seed, mod.LEVEL)
    try:
        mod.run(ctx)
    except core.HarnessError as e:
        print("HARNESS-ERROR: %s" % e)
        return 2
    except Exception:
        traceback.print_exc()
        print("HARNESS-ERROR: check crashed")
        return 2
    return core.finish(mod, ctx, t0)


if __name__ == "__main__":
    sys.exit(main())
