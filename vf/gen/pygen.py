"""Enumerator of annotated Python functions in the subset ppci.lang.python compiles (DESIGN C36).

A program is a dict {"src": text, "ty": "int"|"float", "fam": family, "feat": (mechanism tags...)}; the text defines `f(a, b)`
(and, when called, a helper `g(p, q)` before it).  Everything is a deterministic list, simplest first.

Abstract syntax (plain tuples, rendered by `render_*`):
  expr :  "a" | "b" | "x" | ... (a name)  |  3 | 2.0 (a non-negative literal)  |  (op, l, r)  with op in + - * // /  |  ("call", name, e1, e2)
  cond :  (cmp, l, r) with cmp in < <= > >= == !=  |  ("and", c...) | ("or", c...) | ("not", c)
  stmt :  ("=", name, e) | ("aug", op, name, e) | ("tup", (n1, n2), (e1, e2)) | ("if", c, body, orelse) | ("while", c, body)
          | ("for", var, (args...), body) | ("break",) | ("continue",) | ("ret", e)
          | ("expr", e) an expression statement | ("pass",) | ("doc", text) a string statement | ("ret0",) a bare return
          | ("raw", line) a verbatim line (probes only)
  family X also uses the leaves ("ilit", n) / ("flit", x) (a literal of a fixed type) and ("str", text)

Families
  E   return <expression tree of depth <= 2>                    (leaves a, b, one literal)
  A   x = a; x OP= b; return x                                   (augmented assignment, every operator)
  C   if <condition of depth <= 2>: return 1 / return 0          (comparisons, and/or/not)
  S   statement skeletons of nesting depth <= 2 over {if, if/else, while, for-range(1|2 args), break, continue, augmented and tuple
      assignment, call of g} with bodies from a small menu of simple statements
  L   the loop variable read after the loop
  X   externals / procedures / statements (see fam_X): imported functions and procedures (EXTERNALS; compiled with
      python_to_ir(f, imports=...) in the "tuple" and the "callable" signature form), string constants as their arguments, procedures
      (no return annotation / `-> None`, bare `return`, falling off the end), modules whose functions call a procedure, expression
      statements, `pass`, docstrings, mixed int/float signatures, and probes of constructs outside the subset (tag "probe")
Programs of family X carry three more fields: "sig" (parameter types of f), "ret" ("int" | "float" | "none") and "imports"
(None | "tuple" | "callable").
Loops are bounded by construction: `while` loops advance their counter as the first statement of the body, and only x / y are assigned
inside loops, so `continue` can never skip the increment in CPython.

ppci's front end has no unary minus, no `%`, `&`, `not`: literals are non-negative and those operators appear only in a handful of
programs whose purpose is to record that ppci rejects them.
"""
import itertools

ARGS = [-7, -2, -1, 0, 1, 2, 3, 7]
CMPS = ["<", "<=", ">", ">=", "==", "!="]
INT_OPS = ["+", "-", "*", "//"]
FLOAT_OPS = ["+", "-", "*", "/"]
OPNAME = {"+": "add", "-": "sub", "*": "mul", "//": "floordiv", "/": "truediv", "%": "mod", "&": "bitand"}


# ------------------------------------------------------------------ rendering

def lit(v, ty):
    if ty == "float":
        return repr(float(v))
    return repr(int(v))


def render_expr(e, ty):
    if isinstance(e, str):
        return e
    if isinstance(e, (int, float)):
        return lit(e, ty)
    if e[0] == "call":
        return "%s(%s)" % (e[1], ", ".join(render_expr(x, ty) for x in e[2:]))
    if e[0] == "ilit":  # an int literal even inside a float function (range arguments)
        return repr(int(e[1]))
    if e[0] == "flit":
        return repr(float(e[1]))
    if e[0] == "str":
        return repr(e[1])
    op, l, r = e
    return "%s %s %s" % (paren(l, ty), op, paren(r, ty))


def paren(e, ty):
    s = render_expr(e, ty)
    if isinstance(e, tuple) and e[0] not in ("call", "ilit", "flit", "str"):
        return "(" + s + ")"
    return s


def render_cond(c, ty, top=True):
    if c[0] in ("and", "or"):
        s = (" %s " % c[0]).join(render_cond(x, ty, False) for x in c[1:])
        return s if top else "(" + s + ")"
    if c[0] == "not":
        return "not " + render_cond(c[1], ty, False)
    op, l, r = c
    return "%s %s %s" % (paren(l, ty), op, paren(r, ty))


def render_block(body, ty, ind):
    out = []
    pad = "    " * ind
    for s in body:
        k = s[0]
        if k == "=":
            out.append("%s%s = %s" % (pad, s[1], render_expr(s[2], ty)))
        elif k == "aug":
            out.append("%s%s %s= %s" % (pad, s[2], s[1], render_expr(s[3], ty)))
        elif k == "tup":
            out.append("%s%s = %s" % (pad, ", ".join(s[1]), ", ".join(render_expr(x, ty) for x in s[2])))
        elif k == "if":
            out.append("%sif %s:" % (pad, render_cond(s[1], ty)))
            out += render_block(s[2], ty, ind + 1)
            if s[3]:
                out.append("%selse:" % pad)
                out += render_block(s[3], ty, ind + 1)
        elif k == "while":
            out.append("%swhile %s:" % (pad, render_cond(s[1], ty)))
            out += render_block(s[2], ty, ind + 1)
        elif k == "for":
            out.append("%sfor %s in range(%s):" % (pad, s[1], ", ".join(render_expr(x, "int") for x in s[2])))
            out += render_block(s[3], ty, ind + 1)
        elif k in ("break", "continue", "pass"):
            out.append(pad + k)
        elif k == "ret":
            out.append("%sreturn %s" % (pad, render_expr(s[1], ty)))
        elif k == "ret0":
            out.append(pad + "return")
        elif k == "expr":
            out.append(pad + render_expr(s[1], ty))
        elif k == "doc":
            out.append(pad + repr(s[1]))
        elif k == "raw":
            out.append(pad + s[1])
        else:
            raise ValueError(k)
    return out


def render_func(name, params, ty, body, sig=None, ret="same"):
    """sig: one type per parameter (default: ty; None = no annotation); ret: "same" (= ty) | None (no annotation) | a type name / "None"."""
    sig = sig or [ty] * len(params)
    ann = " -> %s" % (ty if ret == "same" else ret) if ret is not None else ""
    head = "def %s(%s)%s:" % (name, ", ".join("%s: %s" % (p, t) if t else p for p, t in zip(params, sig)), ann)
    return "\n".join([head] + render_block(body, ty, 1)) + "\n"


def helper_g(ty):
    """A second function with its own locals named like f's, a branch, and a non-commutative result."""
    body = [("=", "x", ("-", "p", "q")), ("if", ("<", "x", "q"), [("=", "x", ("+", "x", 7))], []), ("ret", "x")]
    return render_func("g", ["p", "q"], ty, body)


def uses_call(body):
    return "'call'" in repr(body)


def program(fam, ty, body, feat):
    src = render_func("f", ["a", "b"], ty, body)
    if uses_call(body):
        src = helper_g(ty) + "\n" + src
    return {"src": src, "ty": ty, "fam": fam, "feat": tuple(feat)}


# ------------------------------------------------------------------ families

def ops_in(e, acc=None):
    acc = [] if acc is None else acc
    if isinstance(e, tuple):
        if e[0] == "call":
            acc.append("call")
            for x in e[2:]:
                ops_in(x, acc)
        elif e[0] != "ilit":
            acc.append(e[0])
            ops_in(e[1], acc)
            ops_in(e[2], acc)
    return acc


def fam_E(ty, thorough):
    """return <tree>: depth 1 all leaf pairs; depth 2 left-nested, right-nested and full binary trees."""
    ops = INT_OPS if ty == "int" else FLOAT_OPS + ["//"]
    leaves = ["a", "b", 3]
    out = []
    d1 = [(op, l, r) for op in ops for l in leaves for r in leaves if not (isinstance(l, int) and isinstance(r, int))]
    for e in d1:
        out.append(program("E", ty, [("ret", e)], ["expr"]))
    inner_leaves = leaves if thorough else ["a", "b"]
    inner = [(op, l, r) for op in ops for l in inner_leaves for r in inner_leaves if not (isinstance(l, int) and isinstance(r, int))]
    for op2 in ops:
        for e in inner:
            for m in leaves:
                out.append(program("E", ty, [("ret", (op2, e, m))], ["expr"]))
                out.append(program("E", ty, [("ret", (op2, m, e))], ["expr"]))
    pairs = [("a", "b"), ("b", "a")] if not thorough else [("a", "b"), ("b", "a"), ("a", "a"), ("b", "b"), ("b", 3), (3, "a"), ("a", 3), (3, "b")]
    for op2 in ops:
        for op1 in ops:
            for op3 in ops:
                for p1 in pairs:
                    for p2 in pairs:
                        if not thorough and p1 == p2:
                            continue
                        out.append(program("E", ty, [("ret", (op2, (op1,) + p1, (op3,) + p2))], ["expr"]))
    # calls as expression leaves
    for e in [("call", "g", "a", "b"), ("call", "g", "b", "a"), ("+", ("call", "g", "a", "b"), "a"), ("-", "b", ("call", "g", "a", 3)),
              ("call", "g", ("call", "g", "a", "b"), "b"), ("call", "g", ("*", "a", "b"), ("-", "a", "b")),
              ("*", ("call", "g", "a", "b"), ("call", "g", "b", "a"))]:
        out.append(program("E", ty, [("ret", e)], ["call"]))
    # operators the front end is expected to reject (recorded, not compared unless it accepts them)
    if ty == "int":
        for e in [("%", "a", "b"), ("&", "a", "b")]:
            out.append(program("E", ty, [("ret", e)], ["expr"]))
    return out


def fam_A(ty):
    """x = a; x OP= b; return x   and the same on a parameter."""
    ops = INT_OPS if ty == "int" else FLOAT_OPS + ["//"]
    out = []
    for op in ops:
        out.append(program("A", ty, [("=", "x", "a"), ("aug", op, "x", "b"), ("ret", "x")], ["aug"]))
        out.append(program("A", ty, [("aug", op, "a", "b"), ("ret", "a")], ["aug"]))
        out.append(program("A", ty, [("=", "x", "a"), ("aug", op, "x", ("+", "b", 1)), ("ret", "x")], ["aug"]))
        out.append(program("A", ty, [("=", "x", 3), ("aug", op, "x", "a"), ("aug", op, "x", "b"), ("ret", "x")], ["aug"]))
    out.append(program("A", ty, [("tup", ("x", "y"), ("a", "b")), ("tup", ("x", "y"), ("y", "x")), ("ret", ("-", "x", "y"))], ["tuple"]))
    out.append(program("A", ty, [("tup", ("a", "b"), ("b", "a")), ("ret", ("-", "a", "b"))], ["tuple"]))
    out.append(program("A", ty, [("tup", ("x", "y"), (("+", "a", "b"), ("*", "a", "b"))), ("tup", ("x", "y"), (("-", "y", "x"), "x")),
                                 ("ret", ("+", ("*", "x", 3), "y"))], ["tuple"]))
    return out


def atoms(ty, thorough):
    at = [("<", "a", "b"), ("==", "a", 1), (">=", "b", 0), ("!=", "a", "b")]
    if thorough:
        at += [(">", ("+", "a", "b"), 3), ("<=", ("*", "a", "b"), "a")]
    return at


def fam_C(ty, thorough):
    out = []

    def prog(c, feat):
        # two shapes: early return, and assignment joined after the if
        out.append(program("C", ty, [("if", c, [("ret", 1)], []), ("ret", 0)], feat))

    leaves = ["a", "b", 3, ("+", "a", "b")] if thorough else ["a", "b", 3]
    for op in CMPS:
        for l in leaves:
            for r in leaves:
                if isinstance(l, int) and isinstance(r, int):
                    continue
                prog((op, l, r), ["cmp"])
    at = atoms(ty, thorough)
    for bop in ("and", "or"):
        for c1 in at:
            for c2 in at:
                prog((bop, c1, c2), ["bool/" + bop])
    for c1, c2, c3 in itertools.product(at, repeat=3):
        if c1 == c2 or c2 == c3:
            continue
        for shape in (("or", ("and", c1, c2), c3), ("and", c1, ("or", c2, c3)), ("or", c1, ("and", c2, c3)), ("and", ("or", c1, c2), c3),
                      ("and", c1, c2, c3), ("or", c1, c2, c3)):
            prog(shape, ["bool/nested"])
    # if/else joining a value, with boolean conditions
    for c in [("and", at[0], at[1]), ("or", at[0], at[1]), ("or", ("and", at[0], at[2]), at[3])]:
        out.append(program("C", ty, [("=", "x", 0), ("if", c, [("=", "x", "a")], [("=", "x", "b")]), ("ret", "x")], ["bool/ifelse"]))
    # `not` (expected: rejected by the front end)
    out.append(program("C", ty, [("if", ("not", at[0]), [("ret", 1)], []), ("ret", 0)], ["bool/not"]))
    out.append(program("C", ty, [("if", ("and", ("not", at[0]), at[2]), [("ret", 1)], []), ("ret", 0)], ["bool/not"]))
    return out


# ---- statement skeletons

def simple_menu(ty, thorough, loopvar=None):
    m = [("aug", "+", "x", "a"), ("=", "x", ("+", ("*", "x", 2), "b")), ("aug", "-", "x", 1)]
    if thorough:
        m += [("tup", ("x", "y"), ("y", ("+", "x", 1))), ("=", "x", ("call", "g", "x", "b")), ("aug", "*", "x", 3), ("=", "x", ("-", "b", "x"))]
    if loopvar and ty == "int":
        m.insert(1, ("aug", "+", "x", loopvar))
    return m


def cond_menu(ty, thorough, loopvar=None):
    m = [("<", "a", "b"), (">", "x", 3)]
    if thorough:
        m += [("and", ("<", "a", "b"), ("<", "b", 3)), ("or", ("==", "a", 0), ("<", "x", "b")), ("!=", ("+", "a", "x"), "b"),
              ("or", ("and", (">=", "a", 0), ("<=", "b", 2)), ("==", "x", 0))]
    if loopvar and ty == "int":
        m.insert(0, ("==", loopvar, 1))
        if thorough:
            m.append(("<", loopvar, "b"))
    elif loopvar:
        m.insert(0, ("==", "x", "a"))
    return m


def loop_heads(ty, var, thorough):
    """-> [(tag, prologue statements, constructor(body) -> statement)]"""
    heads = []
    one = 1
    zero = 0

    def w_up(bound, extra=None):
        c = ("<", var, bound)
        if extra is not None:
            c = ("and", c, extra)
        return lambda body: ("while", c, [("aug", "+", var, one)] + body)

    heads.append(("while", [("=", var, zero)], w_up("a")))
    if thorough:
        heads.append(("while", [("=", var, zero)], w_up(3)))
        heads.append(("while/boolcond", [("=", var, zero)], w_up("a", ("<", "x", 20))))
        heads.append(("while/down", [("=", var, "a")], lambda body: ("while", (">", var, zero), [("aug", "-", var, one)] + body)))
    if ty == "int":
        heads.append(("for1", [], lambda body: ("for", var, ("a",), body)))
        heads.append(("for2", [], lambda body: ("for", var, ("b", "a"), body)))
        if thorough:
            heads.append(("for1", [], lambda body: ("for", var, (3,), body)))
            heads.append(("for1", [], lambda body: ("for", var, (("+", "a", "b"),), body)))
            heads.append(("for2", [], lambda body: ("for", var, (1, "a"), body)))
            heads.append(("for2", [], lambda body: ("for", var, ("a", 3), body)))
    else:
        heads.append(("for1", [], lambda body: ("for", var, (("ilit", 3),), body)))
        heads.append(("for2", [], lambda body: ("for", var, (("ilit", 1), ("ilit", 4)), body)))
    return heads


def uses_y(body):
    return "'y'" in repr(body)


def skeleton(ty, fam, pro, stmt, feat):
    body = [("=", "x", 0)]
    if uses_y([stmt]):
        body.append(("=", "y", 1))
    body += pro + [stmt]
    if uses_y([stmt]):
        body.append(("ret", ("+", ("*", "x", 16), "y")))
    else:
        body.append(("ret", "x"))
    return program(fam, ty, body, feat)


def fam_S(ty, thorough):
    out = []
    simple = simple_menu(ty, thorough)
    conds = cond_menu(ty, thorough)
    alt = ("aug", "-", "x", "b")

    # ---- depth 1
    for c in conds:
        for s in simple:
            out.append(skeleton(ty, "S", [], ("if", c, [s], []), ["if"]))
            out.append(skeleton(ty, "S", [], ("if", c, [s], [alt]), ["if", "else"]))
    for tag, pro, mk in loop_heads(ty, "i", thorough):
        ls = simple_menu(ty, thorough, "i" if tag.startswith("for") else None)
        for s in ls:
            out.append(skeleton(ty, "S", pro, mk([s]), [tag]))
        for s in ls[:2]:
            out.append(skeleton(ty, "S", pro, mk([s, ("break",)]), [tag, "break"]))
            out.append(skeleton(ty, "S", pro, mk([s, ("continue",)]), [tag, "continue"]))
            out.append(skeleton(ty, "S", pro, mk([s, ls[-1]]), [tag]))

    # ---- depth 2: loop containing a compound
    for tag, pro, mk in loop_heads(ty, "i", thorough):
        lv = "i" if tag.startswith("for") else None
        ls = simple_menu(ty, thorough, lv)[:5 if thorough else 2]
        lc = cond_menu(ty, thorough, lv or "x")[:6 if thorough else 2]
        inner = []
        for c in lc:
            for s in ls:
                inner.append((["if"], ("if", c, [s], [])))
                inner.append((["if", "else"], ("if", c, [s], [alt])))
            inner.append((["if", "break"], ("if", c, [("break",)], [])))
            inner.append((["if", "continue"], ("if", c, [("continue",)], [])))
            inner.append((["if", "else", "break"], ("if", c, [ls[0]], [("break",)])))
            inner.append((["if", "else", "continue"], ("if", c, [("continue",)], [ls[0]])))
        for tag2, pro2, mk2 in loop_heads(ty, "j", thorough):
            for s in ls[:3 if thorough else 2]:
                inner.append(([tag2.split("/")[0] + "-inner"], ("seq", pro2, mk2([s]))))
                if thorough:
                    inner.append(([tag2.split("/")[0] + "-inner", "inner-break"], ("seq", pro2, mk2([s, ("if", lc[0], [("break",)], [])]))))
                    inner.append(([tag2.split("/")[0] + "-inner", "inner-continue"], ("seq", pro2, mk2([("if", lc[0], [("continue",)], []), s]))))
        for feat, st in inner:
            if st[0] == "seq":
                pre, st = st[1], st[2]
            else:
                pre = []
            for layout in range(3):
                if layout == 0:
                    body = pre + [st]
                elif layout == 1:
                    body = [ls[0]] + pre + [st]
                else:
                    body = pre + [st, ls[0]]
                out.append(skeleton(ty, "S", pro, mk(body), [tag] + feat + ["nested"]))
            if any(f.endswith("-inner") for f in feat):
                # break / continue of the OUTER loop placed after the inner loop (the jump must go to the outer loop's blocks)
                out.append(skeleton(ty, "S", pro, mk(pre + [st, ("if", lc[0], [("break",)], []), ls[0]]), [tag] + feat + ["nested", "outer-break-after-inner"]))
                out.append(skeleton(ty, "S", pro, mk(pre + [st, ("if", lc[0], [("continue",)], []), ls[0]]), [tag] + feat + ["nested", "outer-continue-after-inner"]))

    # ---- depth 2: if containing a compound
    for c in conds[:4 if thorough else 1]:
        for tag, pro, mk in loop_heads(ty, "i", thorough):
            tag = tag.split("/")[0]
            ls = simple_menu(ty, False, "i" if tag.startswith("for") else None)
            for s in ls[:3 if thorough else 2]:
                out.append(skeleton(ty, "S", [], ("if", c, pro + [mk([s])], []), ["if", tag + "-inner", "nested"]))
                out.append(skeleton(ty, "S", [], ("if", c, [alt], pro + [mk([s])]), ["if", "else", tag + "-inner", "nested"]))
        for c2 in conds:
            for s in simple[:2]:
                out.append(skeleton(ty, "S", [], ("if", c, [("if", c2, [s], [])], [alt]), ["if", "else", "nested"]))
                out.append(skeleton(ty, "S", [], ("if", c, [s], [("if", c2, [alt], [simple[-1]])]), ["if", "else", "nested"]))

    # ---- calls inside control flow and recursion
    out.append(skeleton(ty, "S", [], ("if", ("<", ("call", "g", "a", "b"), 3), [("=", "x", ("call", "g", "b", "a"))], [("=", "x", "a")]),
                        ["if", "else", "call"]))
    for tag, pro, mk in loop_heads(ty, "i", False):
        out.append(skeleton(ty, "S", pro, mk([("=", "x", ("call", "g", "x", "b"))]), [tag, "call"]))
    rec = [("if", ("<=", "a", 0), [("ret", "b")], []), ("ret", ("call", "f", ("-", "a", 1), ("+", "b", "a")))]
    out.append({"src": render_func("f", ["a", "b"], ty, rec), "ty": ty, "fam": "S", "feat": ("if", "call", "recursion")})
    return out


def fam_L(ty):
    """the loop variable read after the loop (CPython: last value taken, or UnboundLocalError when the range was empty)."""
    out = []
    if ty != "int":
        return out
    for args in (("a",), ("b", "a"), (3,)):
        out.append(program("L", ty, [("=", "x", 0), ("for", "i", args, [("aug", "+", "x", 1)]), ("ret", "i")], ["for", "loopvar-after-loop"]))
        out.append(program("L", ty, [("=", "x", 0), ("for", "i", args, [("aug", "+", "x", "i")]), ("ret", ("+", ("*", "x", 16), "i"))],
                           ["for", "loopvar-after-loop"]))
    # range() is evaluated once at loop entry: assignments in the body to the operands of the bounds, or to the loop variable, do not change
    # the trip count
    out.append(program("L", ty, [("=", "x", 0), ("for", "i", ("a",), [("aug", "-", "a", 1), ("aug", "+", "x", 1)]), ("ret", ("+", ("*", "x", 16), "a"))],
                       ["for", "bound-assigned-in-body"]))
    out.append(program("L", ty, [("=", "x", 0), ("for", "i", ("b", ("+", "a", "b")), [("aug", "+", "b", 1), ("aug", "+", "x", "i")]), ("ret", ("+", ("*", "x", 16), "b"))],
                       ["for", "bound-assigned-in-body"]))
    out.append(program("L", ty, [("=", "x", 0), ("for", "i", ("b", "a"), [("aug", "-", "b", 2), ("aug", "+", "x", "i")]), ("ret", ("+", ("*", "x", 16), "b"))],
                       ["for", "start-assigned-in-body"]))
    out.append(program("L", ty, [("=", "x", 0), ("for", "i", ("a",), [("aug", "+", "i", 5), ("aug", "+", "x", "i")]), ("ret", "x")],
                       ["for", "loopvar-assigned-in-body"]))
    out.append(program("L", ty, [("=", "x", 0), ("for", "i", ("a",), [("for", "j", ("i",), [("aug", "+", "x", 1), ("aug", "+", "i", 1)])]), ("ret", "x")],
                       ["for", "for-inner", "bound-assigned-in-body"]))
    return out


# ---- family X: externals / procedures / statements

# The imported world: name -> (return type | None for a procedure, [parameter types]).  What the functions compute is defined by the check
# (vf/checks/c36.py: ext_value); here only the signatures.
EXTERNALS = {
    "ei": ("int", ["int", "int"]),
    "ef": ("float", ["float", "float"]),
    "e0": ("int", []),
    "es": ("int", ["str"]),
    "ni": (None, ["int"]),
    "n2": (None, ["int", "int"]),
    "nf": (None, ["float"]),
    "n2f": (None, ["float", "float"]),
    "ns": (None, ["str"]),
}
STRINGS = ["hi", "", "\u00b7\n"]
IMPORT_FORMS = ("tuple", "callable")


def externals_used(src):
    import re
    return [n for n in EXTERNALS if re.search(r"\b%s\(" % n, src)]


def xprog(ty, mech, body, tags=(), helpers="", sig=None, ret="same", probe=False, src=None):
    """-> the program in every import form it needs (one program when it uses no external)."""
    if src is None:
        src = render_func("f", ["a", "b"], ty, body, sig, ret)
        if "'g'" in repr(body) or "g(" in helpers:
            helpers = helper_g(ty) + "\n" + helpers
        src = helpers + src
    feat = (mech,) + tuple(tags) + (("probe",) if probe else ())
    rt = ty if ret == "same" else ("none" if ret in (None, "None") else ret)
    base = {"src": src, "ty": ty, "fam": "X", "feat": feat, "sig": tuple(sig or (ty, ty)), "ret": rt}
    if not externals_used(src):
        return [dict(base, imports=None)]
    return [dict(base, imports=form) for form in IMPORT_FORMS]


def call(name, *args):
    return ("call", name) + args


def fam_X(ty, thorough):
    """Externals, procedures and statements, for functions over one numeric type.

    EF / NP1 / NP2: the imported function and the one- and two-argument imported procedures of that type (int: ei, ni, n2; float: ef, nf, n2f)
      a  call sites: EF on every ordered pair of leaves {a, b, 3} (quick: 5 pairs) in every context {returned, left operand, right
         operand, assigned, augmented-assigned, compared, argument of g (1st, 2nd), discarded}; two calls in one expression (evaluation
         order); nested calls; the zero-argument e0; string arguments (es, ns) for every string of STRINGS; procedures NP1 / NP2 / ns as
         statements on every leaf / pair, with expression, external-call and internal-call arguments
      b  positions: every effect statement of a menu at every position of the skeletons {sequence of two (all ordered pairs), if, if/else,
         while, for-range(1|2 args), each loop with break after / continue before / conditional break} (thorough: + loops nested in loops/ifs)
      c  procedures as entry point: header {no annotation, -> None} x body menu {pass, docstring, call, call + bare return, early bare return
         in if, return in both branches, return inside while / for, dead code after return}
      d  internal procedures: procedure menu {one call, branch + early return, recursive, -> None twin, calls function g, chain f -> qr -> pr}
         x caller menu {one call, two calls with swapped arguments, call in for loop, call in if/else, caller itself a procedure}
      e  statements: every statement of {pass, docstring, name, constant, binop, call of g with result discarded} at every position of
         {first, between, inside if, inside else, inside while, inside for, last before return}
      f  first assignment of a local inside a compound statement: {both branches of if/else (plain, nested, tuple), the branch that does not
         return, used only inside the branch / loop body that assigns it, body of a for over a non-empty constant range, loop variable of loops
         in both branches}
    """
    EF, NP1, NP2 = ("ei", "ni", "n2") if ty == "int" else ("ef", "nf", "n2f")
    out = []
    leaves = ["a", "b", 3]
    pairs = [(l, r) for l in leaves for r in leaves] if thorough else [("a", "b"), ("b", "a"), ("a", 3), (3, "b"), ("a", "a")]

    def add(mech, body, tags=(), **kw):
        out.extend(xprog(ty, mech, body, tags, **kw))

    # ---- a: call sites
    for l, r in pairs:
        e = call(EF, l, r)
        add("extcall-function", [("ret", e)], ["returned"])
        add("extcall-function", [("ret", ("-", e, "a"))], ["operand"])
        add("extcall-function", [("ret", ("-", "b", e))], ["operand"])
        add("extcall-function", [("=", "x", e), ("ret", "x")], ["assigned"])
        add("extcall-function", [("=", "x", "a"), ("aug", "-", "x", e), ("ret", "x")], ["aug-assigned"])
        add("extcall-function", [("if", ("<", e, "b"), [("ret", 1)], []), ("ret", 0)], ["compared"])
        add("extcall-function", [("ret", call("g", e, "b"))], ["argument"])
        add("extcall-function", [("ret", call("g", "a", e))], ["argument"])
        add("extcall-function", [("expr", e), ("ret", "a")], ["discarded"])
        add("extcall-procedure", [("expr", call(NP2, l, r)), ("ret", "a")], ["statement"])
    for l in leaves:
        add("extcall-procedure", [("expr", call(NP1, l)), ("ret", "b")], ["statement"])
    two = pairs[:4]
    for p1 in two:
        for p2 in two:
            add("extcall-function", [("ret", ("-", call(EF, *p1), call(EF, *p2)))], ["two-calls"])
    for l, r in two:
        add("extcall-function", [("ret", call(EF, call(EF, l, r), "b"))], ["nested"])
        add("extcall-function", [("ret", call(EF, "a", call(EF, l, r)))], ["nested"])
        add("extcall-function", [("ret", call("g", call(EF, l, r), call(EF, r, l)))], ["nested"])
        add("extcall-procedure", [("expr", call(NP2, call(EF, l, r), "b")), ("ret", "a")], ["nested"])
        add("extcall-procedure", [("expr", call(NP1, call("g", l, r))), ("ret", "a")], ["internal-call-argument"])
        add("extcall-procedure", [("expr", call(NP2, ("-", l, r), ("*", l, r))), ("ret", "a")], ["expression-argument"])
        add("extcall-procedure", [("expr", call(NP2, call(EF, l, r), call(EF, r, l))), ("ret", "a")], ["nested"])
    if ty == "int":
        add("extcall-function", [("ret", call("e0"))], ["no-arguments"])
        add("extcall-function", [("ret", ("-", call("e0"), "a"))], ["no-arguments"])
        add("extcall-function", [("ret", call("ei", call("e0"), call("e0")))], ["no-arguments", "nested"])
        add("extcall-function", [("expr", call("e0")), ("expr", call("e0")), ("ret", "b")], ["no-arguments", "discarded"])
        for s in STRINGS:
            add("extcall-string", [("ret", call("es", ("str", s)))], ["returned"])
            add("extcall-string", [("expr", call("ns", ("str", s))), ("ret", "a")], ["statement"])
            add("extcall-string", [("=", "x", call("es", ("str", s))), ("expr", call("ns", ("str", s))), ("ret", ("+", "x", "b"))], ["assigned"])
        add("extcall-string", [("ret", ("-", call("es", ("str", "hi")), call("es", ("str", ""))))], ["two-calls"])
        add("extcall-string", [("expr", call("ns", ("str", "hi"))), ("expr", call("ns", ("str", "hi"))), ("expr", call("ns", ("str", ""))), ("ret", "a")],
            ["same-literal-twice"])
        add("extcall-string", [("for", "i", ("a",), [("expr", call("ns", ("str", "hi")))]), ("ret", "a")], ["in-loop"])
        add("extcall-string", [("if", ("<", "a", "b"), [("expr", call("ns", ("str", "hi")))], [("expr", call("ns", ("str", STRINGS[2])))]), ("ret", "a")], ["in-if"])

    # ---- b: positions of effect statements
    menu = [("expr", call(NP1, "x")), ("expr", call(NP2, "a", "x")), ("=", "x", call(EF, "x", "b")), ("expr", call(EF, "a", "b")),
            ("aug", "+", "x", call(EF, "a", "x"))]
    if ty == "int":
        menu.append(("expr", call("ns", ("str", "hi"))))
    if thorough:
        menu += [("expr", call(NP1, call(EF, "x", "a"))), ("=", "x", call("g", call(EF, "a", "b"), "x"))]
    tail = [("expr", call(NP1, "x")), ("ret", "x")]
    conds = cond_menu(ty, thorough)

    def pos(mech, stmts, tags):
        add(mech, [("=", "x", 0)] + stmts + tail, tags)

    for s1 in menu:
        for s2 in menu:
            pos("effects-sequence", [s1, s2], ["sequence"])
    alt = ("expr", call(NP2, "x", "b"))
    for c in conds:
        for s in menu:
            pos("effects-in-if", [("if", c, [s], [])], ["if"])
            pos("effects-in-if", [("if", c, [s], [alt])], ["if", "else"])
            pos("effects-in-if", [("if", c, [alt], [s])], ["if", "else"])
    for tag, pro, mk in loop_heads(ty, "i", thorough):
        lc = cond_menu(ty, thorough, "i" if tag.startswith("for") else "x")[:4 if thorough else 2]
        m2 = list(menu)
        if tag.startswith("for") and ty == "int":
            m2.insert(0, ("expr", call(NP2, "i", "x")))
        for s in m2:
            pos("effects-in-loop", pro + [mk([s])], [tag])
            pos("effects-in-loop", pro + [mk([s, ("break",)])], [tag, "break"])
            pos("effects-in-loop", pro + [mk([s, ("continue",), alt])], [tag, "continue"])
            for c in lc:
                pos("effects-in-loop", pro + [mk([("if", c, [("continue",)], []), s])], [tag, "if", "continue"])
                pos("effects-in-loop", pro + [mk([("if", c, [s], [("break",)])])], [tag, "if", "else", "break"])
                pos("effects-in-loop", pro + [mk([("if", c, [s], [alt])])], [tag, "if", "else"])
            if thorough:
                for tag2, pro2, mk2 in loop_heads(ty, "j", False):
                    pos("effects-in-loop", pro + [mk(pro2 + [mk2([s])])], [tag, tag2.split("/")[0] + "-inner", "nested"])
                    pos("effects-in-loop", pro + [mk(pro2 + [mk2([s, ("if", lc[0], [("break",)], [])]), alt])], [tag, tag2.split("/")[0] + "-inner", "nested", "inner-break"])
    if thorough:
        for c in conds[:3]:
            for tag, pro, mk in loop_heads(ty, "i", False):
                for s in menu:
                    pos("effects-in-if", [("if", c, pro + [mk([s])], [alt])], ["if", "else", tag + "-inner", "nested"])

    # ---- c: procedures as entry point
    n_a, n_b, n_ab = ("expr", call(NP1, "a")), ("expr", call(NP1, "b")), ("expr", call(NP2, "a", "b"))
    c0 = ("<", "a", "b")
    bodies = [
        ("pass-only", [("pass",)]),
        ("docstring-only", [("doc", "does nothing")]),
        ("fall-off-end", [n_a]),
        ("fall-off-end", [n_a, n_b]),
        ("fall-off-end", [("=", "x", ("-", "a", "b")), ("expr", call(NP1, "x"))]),
        ("bare-return-last", [n_a, ("ret0",)]),
        ("bare-return-only", [("ret0",)]),
        ("bare-return-in-if", [("if", c0, [("ret0",)], []), n_ab]),
        ("bare-return-in-if", [("if", c0, [n_a, ("ret0",)], []), n_b]),
        ("bare-return-in-if", [("if", c0, [n_a], [n_b, ("ret0",)]), n_ab]),
        ("bare-return-both-branches", [("if", c0, [n_a, ("ret0",)], [n_b, ("ret0",)])]),
        ("bare-return-both-branches", [("if", c0, [("ret0",)], [("ret0",)]), n_a]),
        ("fall-off-end-after-if", [("if", c0, [n_a], [])]),
        ("fall-off-end-after-if", [("if", c0, [n_a], [n_b])]),
        ("dead-code-after-return", [n_a, ("ret0",), n_b]),
        ("bare-return-in-while", [("=", "x", 0), ("while", ("<", "x", "a"), [("aug", "+", "x", 1), ("if", ("==", "x", "b"), [("ret0",)], []), ("expr", call(NP1, "x"))]), n_b]),
        ("fall-off-end-after-while", [("=", "x", 0), ("while", ("<", "x", "a"), [("aug", "+", "x", 1), ("expr", call(NP1, "x"))])]),
    ]
    if ty == "int":
        bodies += [
            ("bare-return-in-for", [("for", "i", ("a",), [("if", ("==", "i", "b"), [("ret0",)], []), ("expr", call("ni", "i"))]), n_b]),
            ("fall-off-end-after-for", [("for", "i", ("b", "a"), [("expr", call("n2", "i", "a"))])]),
            ("fall-off-end-after-for", [("for", "i", ("a",), [("if", ("==", "i", "b"), [("break",)], []), ("expr", call("ni", "i"))])]),
        ]
    for ret in (None, "None"):
        for tag, body in bodies:
            add("procedure-entry", body, [tag, "annotated-None" if ret else "no-annotation"], ret=ret)

    # ---- d: internal procedures
    def proc(name, body, ret=None, params=("u", "v")):
        return render_func(name, list(params), ty, body, ret=ret) + "\n"

    n_u, n_uv = ("expr", call(NP1, "u")), ("expr", call(NP2, "u", "v"))
    procs = [
        ("one-call", proc("pr", [n_uv])),
        ("one-call-annotated-None", proc("pr", [n_uv], ret="None")),
        ("early-return", proc("pr", [("if", ("<", "u", "v"), [n_uv, ("ret0",)], []), n_u])),
        ("locals-named-like-callers", proc("pr", [("=", "x", ("-", "u", "v")), ("=", "a", "x"), ("expr", call(NP2, "a", "x"))])),
        ("recursive", proc("pr", [("if", ("<=", "u", 0), [("ret0",)], []), n_uv, ("expr", call("pr", ("-", "u", 1), "v"))])),
        ("calls-function", proc("pr", [("expr", call(NP1, call("g", "u", "v")))])),
        ("chain", proc("pr", [n_uv]) + proc("qr", [("expr", call("pr", "v", "u")), n_u, ("expr", call("pr", "u", "u"))])),
    ]
    for ptag, helpers in procs:
        inner = "qr" if ptag == "chain" else "pr"
        k = lambda *args: ("expr", call(inner, *args))  # noqa
        callers = [
            ("one-call", [k("a", "b"), ("ret", "a")], "same"),
            ("swapped-calls", [k("a", "b"), k("b", "a"), ("ret", ("-", "a", "b"))], "same"),
            ("expression-arguments", [k(("-", "a", "b"), 3), ("ret", "b")], "same"),
            ("call-in-if", [("=", "x", "a"), ("if", ("<", "a", "b"), [k("a", 3)], [k(3, "b"), ("=", "x", "b")]), ("ret", "x")], "same"),
            ("call-in-while", [("=", "x", 0), ("while", ("<", "x", "a"), [("aug", "+", "x", 1), k("x", "b")]), ("ret", "x")], "same"),
            ("caller-is-procedure", [k("a", "b"), n_b], None),
            ("caller-is-procedure", [("if", ("<", "a", "b"), [k("b", "a"), ("ret0",)], []), k("a", "b")], None),
        ]
        if ty == "int":
            callers.append(("call-in-for", [("=", "x", 0), ("for", "i", ("a",), [k("i", "b"), ("aug", "+", "x", "i")]), ("ret", "x")], "same"))
        for ctag, body, ret in callers:
            add("procedure-internal", body, [ptag, ctag], helpers=helpers, ret=ret)

    # ---- e: plain statements
    plain = [("pass", ("pass",)), ("docstring", ("doc", "text")), ("name", ("expr", "a")), ("constant", ("expr", 3)),
             ("binop", ("expr", ("+", "a", "b"))), ("internal-call-discarded", ("expr", call("g", "a", "b")))]
    if ty == "int":
        plain.append(("string-constant", ("doc", STRINGS[2])))
    inc = ("aug", "+", "x", "b")
    for stag, st in plain:
        spots = [
            ("first", [st, ("=", "x", "a"), inc]),
            ("between", [("=", "x", "a"), st, inc]),
            ("last", [("=", "x", "a"), inc, st]),
            ("in-if", [("=", "x", "a"), ("if", c0, [st], []), inc]),
            ("only-statement-of-if", [("=", "x", "a"), ("if", c0, [st], [inc])]),
            ("in-else", [("=", "x", "a"), ("if", c0, [inc], [st])]),
            ("in-while", [("=", "x", 0), ("=", "y", 0), ("while", ("<", "y", "a"), [("aug", "+", "y", 1), st, inc])]),
            ("only-statement-of-while", [("=", "x", "a"), ("while", ("<", "x", "b"), [st, ("aug", "+", "x", 1)])]),
        ]
        if ty == "int":
            spots.append(("only-statement-of-for", [("=", "x", "a"), ("for", "i", ("b",), [st]), inc]))
            spots.append(("in-for", [("=", "x", "a"), ("for", "i", ("b",), [st, inc, st])]))
        for sp, body in spots:
            add("statement-" + stag, body + [("ret", "x")], [sp])

    # ---- f: the first assignment of a variable sits inside a compound statement (CPython: defined on every path that is taken)
    first = [
        ("both-branches", [("if", c0, [("=", "x", "a")], [("=", "x", "b")]), ("ret", "x")]),
        ("both-branches", [("if", c0, [("=", "x", "a")], [("=", "x", ("-", "b", "a"))]), ("aug", "+", "x", 1), ("ret", "x")]),
        ("both-branches-nested", [("if", c0, [("if", ("<", "a", 3), [("=", "x", 1)], [("=", "x", 3)])], [("=", "x", "b")]), ("ret", "x")]),
        ("both-branches-tuple", [("if", c0, [("tup", ("x", "y"), ("a", "b"))], [("tup", ("x", "y"), ("b", "a"))]), ("ret", ("-", "x", "y"))]),
        ("branch-that-returns-otherwise", [("if", c0, [("ret", "a")], [("=", "x", "b")]), ("ret", "x")]),
        ("used-only-inside", [("=", "y", "a"), ("if", c0, [("=", "x", "b"), ("aug", "+", "y", "x")], []), ("ret", "y")]),
        ("used-only-inside-twice", [("=", "y", "a"), ("if", c0, [("=", "x", "b"), ("aug", "+", "y", "x")], []),
                                    ("if", (">", "a", "b"), [("=", "x", 3), ("aug", "-", "y", "x")], []), ("ret", "y")]),
        ("while-body-used-inside", [("=", "y", 0), ("while", ("<", "y", "a"), [("aug", "+", "y", 1), ("=", "x", ("*", "y", 2)), ("aug", "+", "y", "x")]), ("ret", ("-", "y", "b"))]),
    ]
    if ty == "int":
        first += [
            ("for-body", [("for", "i", (3,), [("=", "x", ("+", "i", "a"))]), ("ret", "x")]),
            ("for-body-used-inside", [("=", "y", "b"), ("for", "i", ("a",), [("=", "x", ("*", "i", "b")), ("aug", "+", "y", "x")]), ("ret", "y")]),
            ("loop-variable-in-branch", [("=", "y", 0), ("if", c0, [("for", "i", ("b",), [("aug", "+", "y", "i")])], [("for", "i", ("a",), [("aug", "-", "y", "i")])]), ("ret", "y")]),
        ]
    else:
        first += [("for-body", [("for", "i", (("ilit", 3),), [("=", "x", ("+", "x0", "a")), ("=", "x0", "x")]), ("ret", "x")])]
        first[-1] = ("for-body", [("=", "x0", "b")] + first[-1][1])
    for ftag, body in first:
        add("first-assignment-in-compound", body, [ftag])
    return out


def fam_X_types(thorough):
    """Mixed int / float programs and probes of constructs outside the subset (each called on the same 64 vectors, converted per parameter type).

      t  every signature (ta, tb) -> tr over {int, float}^3 x body menu {return a, return b, return a OP b, compare a with b, literal of the other
         type, float value passed on to externals/internal functions of matching type}: the mixed ones must be diagnosed ('Type mismatch') or agree
      p  probes: one program per diagnostic of the front end and per construct known to lie outside the subset
    """
    out = []
    types = ("int", "float")
    for ta in types:
        for tb in types:
            for tr in types:
                def add(ok, mech, body, tags=(), **kw):
                    # ok: the program respects its own annotations (then it belongs to the subset; otherwise it is a probe)
                    out.extend(xprog(tr, mech, body, tags, sig=(ta, tb), ret=tr, probe=not ok, **kw))
                I, F = "int", "float"
                one = ("ilit", 1) if tr == I else ("flit", 1.0)
                zero = ("ilit", 0) if tr == I else ("flit", 0.0)
                same = ta == tb == tr
                add(ta == tr, "types-return-parameter", [("ret", "a")], ["a"])
                add(tb == tr, "types-return-parameter", [("ret", "b")], ["b"])
                for op in ("+", "*") + (("-",) if thorough else ()):
                    add(same, "types-binop", [("ret", (op, "a", "b"))], [OPNAME[op]])
                add(ta == tb, "types-compare", [("if", ("<", "a", "b"), [("ret", one)], []), ("ret", zero)], ["lt"])
                add(ta == I, "types-compare", [("if", ("==", "a", ("ilit", 1)), [("ret", one)], []), ("ret", zero)], ["int-literal"])
                add(tb == F, "types-compare", [("if", ("==", "b", ("flit", 1.0)), [("ret", one)], []), ("ret", zero)], ["float-literal"])
                add(ta == tr == I, "types-binop", [("ret", ("+", "a", ("ilit", 1)))], ["int-literal"])
                add(tb == tr == F, "types-binop", [("ret", ("+", "b", ("flit", 0.5)))], ["float-literal"])
                add(same, "types-assign", [("=", "x", "a"), ("=", "x", "b"), ("ret", "x")], ["variable-retyped"])
                add(same, "types-assign", [("=", "x", "a"), ("aug", "+", "x", "b"), ("ret", "x")], ["aug-assign"])
                add(same, "types-assign", [("tup", ("x", "y"), ("a", "b")), ("tup", ("x", "y"), ("y", "x")), ("ret", "x")], ["tuple-swap"])
                add(ta == I and tb == F, "types-call", [("expr", call("ni", "a")), ("expr", call("nf", "b")), ("ret", one)], ["external-procedures"])
                add(ta == tb == I, "types-call", [("expr", call("n2", "a", "b")), ("ret", one)], ["external-procedures"])
                add(ta == tb == F, "types-call", [("expr", call("n2f", "a", "b")), ("ret", one)], ["external-procedures"])
                add(same and tr == I, "types-call", [("ret", call("ei", "a", "b"))], ["external-function"])
                add(same and tr == F, "types-call", [("ret", call("ef", "a", "b"))], ["external-function"])
                hi = render_func("hi", ["u", "v"], I, [("ret", ("-", "u", "v"))]) + "\n"
                hf = render_func("hf", ["u", "v"], F, [("ret", ("-", "u", "v"))]) + "\n"
                hm = render_func("hm", ["u", "v"], F, [("ret", "v")], sig=[I, F]) + "\n"
                add(same and tr == I, "types-call", [("ret", call("hi", "a", "b"))], ["internal-function"], helpers=hi)
                add(same and tr == F, "types-call", [("ret", call("hf", "a", "b"))], ["internal-function"], helpers=hf)
                add((ta, tb, tr) == (I, F, F), "types-call", [("ret", call("hm", "a", "b"))], ["internal-function", "mixed-parameters"], helpers=hm)
                add((ta, tb, tr) == (F, I, F), "types-call", [("ret", call("hm", "b", "a"))], ["internal-function", "mixed-parameters"], helpers=hm)
    # well-typed mixed signatures: values of both types live side by side
    for ta, tb in (("int", "float"), ("float", "int")):
        i, f = ("a", "b") if ta == "int" else ("b", "a")
        for tr, body, tags in [
            ("float", [("=", "x", f), ("for", "k", (i,), [("aug", "+", "x", ("flit", 0.5))]), ("ret", "x")], ["int-bound-float-body"]),
            ("int", [("=", "x", 0), ("while", ("<", ("*", f, ("flit", 2.0)), ("flit", 3.0)), [("aug", "+", "x", i), ("aug", "+", f, ("flit", 1.0))]), ("ret", "x")], ["float-condition-int-body"]),
            ("float", [("expr", call("ni", i)), ("expr", call("nf", f)), ("ret", call("ef", f, ("flit", 2.0)))], ["externals-of-both-types"]),
            ("int", [("expr", call("nf", call("ef", f, f))), ("ret", call("ei", i, ("ilit", 2)))], ["externals-of-both-types"]),
            ("int", [("if", ("<", f, ("flit", 0.5)), [("ret", i)], []), ("ret", ("ilit", 3))], ["float-compare-int-result"]),
            ("none", [("expr", call("ni", i)), ("if", ("<", f, ("flit", 0.5)), [("ret0",)], []), ("expr", call("nf", f))], ["procedure"]),
        ]:
            out.extend(xprog("int" if tr == "none" else tr, "types-mixed-signature", body, tags, sig=(ta, tb), ret=None if tr == "none" else tr))

    # ---- p: probes
    def probe(mech, src, tags=(), ty="int", sig=("int", "int"), ret="same"):
        out.extend(xprog(ty, "probe-" + mech, None, tags, sig=sig, ret=ret, probe=True, src=src))

    H = "def f(a: int, b: int) -> int:\n"
    probe("function-falls-off-end", H + "    if a < b:\n        return 1\n", ["empty-last-block"])
    probe("function-falls-off-end", H + "    if a < b:\n        return 1\n    x = 0\n", ["non-empty-last-block"])
    probe("function-falls-off-end", H + "    if a < b:\n        return 1\n    else:\n        return 0\n", ["all-paths-return"])
    probe("function-falls-off-end", H + "    while a < b:\n        return 1\n    return 0\n", ["return-in-while"])
    probe("function-falls-off-end", H + "    x = 0\n", ["no-return"])
    probe("bare-return-in-function", H + "    if a < b:\n        return\n    return a\n")
    probe("value-returned-from-procedure", "def f(a: int, b: int):\n    ni(a)\n    return 3\n", ret=None)
    probe("value-returned-from-procedure", "def f(a: int, b: int) -> None:\n    return a\n", ret=None)
    probe("procedure-result-used", "def pr(u: int, v: int):\n    ni(u)\n\n" + H + "    x = pr(a, b)\n    return a\n", ["assigned"])
    probe("procedure-result-used", H + "    x = ni(a)\n    return a\n", ["assigned", "external"])
    probe("procedure-result-used", H + "    return ei(a, ni(b))\n", ["argument", "external"])
    probe("forward-call", H + "    return h(a, b)\n\ndef h(u: int, v: int) -> int:\n    return u - v\n")
    probe("forward-call", "def f(a: int, b: int):\n    h(a, b)\n\ndef h(u: int, v: int):\n    n2(u, v)\n", ["procedure"], ret=None)
    probe("unknown-function", H + "    return abs(a)\n")
    probe("wrong-argument-count", H + "    ni(a, b)\n    return a\n")
    probe("wrong-argument-count", H + "    return ei(a)\n")
    probe("wrong-argument-count", helper_g("int") + "\n" + H + "    return g(a)\n", ["internal"])
    probe("unannotated-parameter", "def f(a, b: int) -> int:\n    return b\n")
    probe("unhandled-type", "def f(a: bool, b: int) -> int:\n    return b\n")
    probe("unhandled-type", "def f(a: int, b: int) -> bool:\n    return b\n", ["return"])
    probe("str-typed-function", "def h(u: str) -> int:\n    return es(u)\n\n" + H + "    return h('hi') - a\n")
    probe("str-typed-function", "def h(u: int) -> str:\n    return 'hi'\n\n" + H + "    return es(h(a))\n", ["returns-str"])
    probe("str-variable", H + "    s = 'hi'\n    ns(s)\n    return es(s)\n")
    probe("str-compare", H + "    if 'hi' == 'hi':\n        return 1\n    return 0\n")
    probe("module-level-statement", "X = 3\n\n" + H + "    return b\n")
    probe("module-level-statement", "'''module docstring'''\n\n" + H + "    return b\n", ["docstring"])
    probe("module-level-statement", "import math\n\n" + H + "    return b\n", ["import"])
    probe("while-else", H + "    x = 0\n    while x < a:\n        x += 1\n    else:\n        x += b\n    return x\n")
    probe("for-else", H + "    x = 0\n    for i in range(a):\n        x += 1\n    else:\n        x += b\n    return x\n")
    probe("for-over-non-range", H + "    x = 0\n    for i in (1, 2):\n        x += i\n    return x\n", ["tuple"])
    probe("for-over-non-range", H + "    x = 0\n    for i in reversed(range(a)):\n        x += i\n    return x\n", ["call"])
    probe("range-three-arguments", H + "    x = 0\n    for i in range(0, a, 2):\n        x += i\n    return x\n")
    probe("range-no-arguments", H + "    x = 0\n    for i in range():\n        x += i\n    return x\n")
    probe("multiple-assignment-targets", H + "    x = y = a\n    return x + y\n")
    probe("tuple-assignment-shapes", H + "    x, y = ei(a, b), b\n    return x - y\n", ["call-element"])
    probe("tuple-assignment-shapes", H + "    x, y, z = a, b, 3\n    return x - y - z\n", ["three"])
    probe("undefined-variable", H + "    x += a\n    return x\n", ["aug-assign"])
    probe("undefined-variable", H + "    return x\n", ["read"])
    probe("undefined-variable", H + "    if a < b:\n        x = 1\n    return x\n", ["assigned-on-one-path"])
    probe("chained-comparison", H + "    if a < b < 3:\n        return 1\n    return 0\n")
    probe("truth-value-of-number", H + "    if a:\n        return 1\n    return 0\n")
    probe("truth-value-of-number", H + "    while ei(a, b):\n        return 1\n    return 0\n", ["call"])
    probe("unary-minus", H + "    ni(-a)\n    return -b\n")
    probe("conditional-expression", H + "    return a if a < b else b\n")
    probe("keyword-argument", H + "    return ei(a, q=b)\n")
    probe("default-argument", "def f(a: int, b: int = 3) -> int:\n    return a - b\n")
    probe("nested-function", H + "    def h(u: int) -> int:\n        return u\n    return h(a)\n")
    probe("global-statement", H + "    global X\n    return a\n")
    return out


def programs(tier):
    thorough = tier != "quick"
    out = []
    for ty in ("int", "float"):
        out += fam_E(ty, thorough)
        out += fam_A(ty)
        out += fam_C(ty, thorough)
        out += fam_L(ty)
        out += fam_S(ty, thorough)
    for ty in ("int", "float"):
        out += fam_X(ty, thorough)
    out += fam_X_types(thorough)
    # simplest first: by source length within (family order) -- families are already in increasing complexity
    seen = set()
    uniq = []
    for p in out:
        k = (p["src"], p.get("imports"))
        if k in seen:
            continue
        seen.add(k)
        uniq.append(p)
    return uniq
