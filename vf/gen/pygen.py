"""Enumerator of annotated Python functions in the subset ppci.lang.python compiles (DESIGN C36).

A program is a dict {"src": text, "ty": "int"|"float", "fam": family, "feat": (mechanism tags...)}; the text defines `f(a, b)`
(and, when called, a helper `g(p, q)` before it).  Everything is a deterministic list, simplest first.

Abstract syntax (plain tuples, rendered by `render_*`):
  expr :  "a" | "b" | "x" | ... (a name)  |  3 | 2.0 (a non-negative literal)  |  (op, l, r)  with op in + - * // /  |  ("call", name, e1, e2)
  cond :  (cmp, l, r) with cmp in < <= > >= == !=  |  ("and", c...) | ("or", c...) | ("not", c)
  stmt :  ("=", name, e) | ("aug", op, name, e) | ("tup", (n1, n2), (e1, e2)) | ("if", c, body, orelse) | ("while", c, body)
          | ("for", var, (args...), body) | ("break",) | ("continue",) | ("ret", e)

Families
  E   return <expression tree of depth <= 2>                    (leaves a, b, one literal)
  A   x = a; x OP= b; return x                                   (augmented assignment, every operator)
  C   if <condition of depth <= 2>: return 1 / return 0          (comparisons, and/or/not)
  S   statement skeletons of nesting depth <= 2 over {if, if/else, while, for-range(1|2 args), break, continue, augmented and tuple
      assignment, call of g} with bodies from a small menu of simple statements
  L   the loop variable read after the loop
Loops are bounded by construction: `while` loops advance their counter as the first statement of the body, and only x / y are assigned
inside loops, so `continue` can never skip the increment in CPython.

ppci's front end has no unary minus, no `%`, `&`, `not`: literals are non-negative and those operators appear only in a handful of
programs whose purpose is to record that ppci rejects them.
"""
import itertools

ARGS = [-7, -2, -1, 0, 1, 2, 3, 7]
CMPS = ["<", "<=", ">", ">=", "==", "!="]
INT_OPS = ["+", "-", "*", "//"]
FLOAT_OPS = ["+", "-", "*", "/"]
OPNAME = {"+": "add", "-": "sub", "*": "mul", "//": "floordiv", "/": "truediv", "%": "mod", "&": "bitand"}


# ------------------------------------------------------------------ rendering

def lit(v, ty):
    if ty == "float":
        return repr(float(v))
    return repr(int(v))


def render_expr(e, ty):
    if isinstance(e, str):
        return e
    if isinstance(e, (int, float)):
        return lit(e, ty)
    if e[0] == "call":
        return "%s(%s)" % (e[1], ", ".join(render_expr(x, ty) for x in e[2:]))
    if e[0] == "ilit":  # an int literal even inside a float function (range arguments)
        return repr(int(e[1]))
    op, l, r = e
    return "%s %s %s" % (paren(l, ty), op, paren(r, ty))


def paren(e, ty):
    s = render_expr(e, ty)
    if isinstance(e, tuple) and e[0] not in ("call", "ilit"):
        return "(" + s + ")"
    return s


def render_cond(c, ty, top=True):
    if c[0] in ("and", "or"):
        s = (" %s " % c[0]).join(render_cond(x, ty, False) for x in c[1:])
        return s if top else "(" + s + ")"
    if c[0] == "not":
        return "not " + render_cond(c[1], ty, False)
    op, l, r = c
    return "%s %s %s" % (paren(l, ty), op, paren(r, ty))


def render_block(body, ty, ind):
    out = []
    pad = "    " * ind
    for s in body:
        k = s[0]
        if k == "=":
            out.append("%s%s = %s" % (pad, s[1], render_expr(s[2], ty)))
        elif k == "aug":
            out.append("%s%s %s= %s" % (pad, s[2], s[1], render_expr(s[3], ty)))
        elif k == "tup":
            out.append("%s%s = %s" % (pad, ", ".join(s[1]), ", ".join(render_expr(x, ty) for x in s[2])))
        elif k == "if":
            out.append("%sif %s:" % (pad, render_cond(s[1], ty)))
            out += render_block(s[2], ty, ind + 1)
            if s[3]:
                out.append("%selse:" % pad)
                out += render_block(s[3], ty, ind + 1)
        elif k == "while":
            out.append("%swhile %s:" % (pad, render_cond(s[1], ty)))
            out += render_block(s[2], ty, ind + 1)
        elif k == "for":
            out.append("%sfor %s in range(%s):" % (pad, s[1], ", ".join(render_expr(x, "int") for x in s[2])))
            out += render_block(s[3], ty, ind + 1)
        elif k in ("break", "continue", "pass"):
            out.append(pad + k)
        elif k == "ret":
            out.append("%sreturn %s" % (pad, render_expr(s[1], ty)))
        else:
            raise ValueError(k)
    return out


def render_func(name, params, ty, body):
    head = "def %s(%s) -> %s:" % (name, ", ".join("%s: %s" % (p, ty) for p in params), ty)
    return "\n".join([head] + render_block(body, ty, 1)) + "\n"


def helper_g(ty):
    """A second function with its own locals named like f's, a branch, and a non-commutative result."""
    body = [("=", "x", ("-", "p", "q")), ("if", ("<", "x", "q"), [("=", "x", ("+", "x", 7))], []), ("ret", "x")]
    return render_func("g", ["p", "q"], ty, body)


def uses_call(body):
    return "'call'" in repr(body)


def program(fam, ty, body, feat):
    src = render_func("f", ["a", "b"], ty, body)
    if uses_call(body):
        src = helper_g(ty) + "\n" + src
    return {"src": src, "ty": ty, "fam": fam, "feat": tuple(feat)}


# ------------------------------------------------------------------ families

def ops_in(e, acc=None):
    acc = [] if acc is None else acc
    if isinstance(e, tuple):
        if e[0] == "call":
            acc.append("call")
            for x in e[2:]:
                ops_in(x, acc)
        elif e[0] != "ilit":
            acc.append(e[0])
            ops_in(e[1], acc)
            ops_in(e[2], acc)
    return acc


def fam_E(ty, thorough):
    """return <tree>: depth 1 all leaf pairs; depth 2 left-nested, right-nested and full binary trees."""
    ops = INT_OPS if ty == "int" else FLOAT_OPS + ["//"]
    leaves = ["a", "b", 3]
    out = []
    d1 = [(op, l, r) for op in ops for l in leaves for r in leaves if not (isinstance(l, int) and isinstance(r, int))]
    for e in d1:
        out.append(program("E", ty, [("ret", e)], ["expr"]))
    inner_leaves = leaves if thorough else ["a", "b"]
    inner = [(op, l, r) for op in ops for l in inner_leaves for r in inner_leaves if not (isinstance(l, int) and isinstance(r, int))]
    for op2 in ops:
        for e in inner:
            for m in leaves:
                out.append(program("E", ty, [("ret", (op2, e, m))], ["expr"]))
                out.append(program("E", ty, [("ret", (op2, m, e))], ["expr"]))
    pairs = [("a", "b"), ("b", "a")] if not thorough else [("a", "b"), ("b", "a"), ("a", "a"), ("b", "b"), ("b", 3), (3, "a"), ("a", 3), (3, "b")]
    for op2 in ops:
        for op1 in ops:
            for op3 in ops:
                for p1 in pairs:
                    for p2 in pairs:
                        if not thorough and p1 == p2:
                            continue
                        out.append(program("E", ty, [("ret", (op2, (op1,) + p1, (op3,) + p2))], ["expr"]))
    # calls as expression leaves
    for e in [("call", "g", "a", "b"), ("call", "g", "b", "a"), ("+", ("call", "g", "a", "b"), "a"), ("-", "b", ("call", "g", "a", 3)),
              ("call", "g", ("call", "g", "a", "b"), "b"), ("call", "g", ("*", "a", "b"), ("-", "a", "b")),
              ("*", ("call", "g", "a", "b"), ("call", "g", "b", "a"))]:
        out.append(program("E", ty, [("ret", e)], ["call"]))
    # operators the front end is expected to reject (recorded, not compared unless it accepts them)
    if ty == "int":
        for e in [("%", "a", "b"), ("&", "a", "b")]:
            out.append(program("E", ty, [("ret", e)], ["expr"]))
    return out


def fam_A(ty):
    """x = a; x OP= b; return x   and the same on a parameter."""
    ops = INT_OPS if ty == "int" else FLOAT_OPS + ["//"]
    out = []
    for op in ops:
        out.append(program("A", ty, [("=", "x", "a"), ("aug", op, "x", "b"), ("ret", "x")], ["aug"]))
        out.append(program("A", ty, [("aug", op, "a", "b"), ("ret", "a")], ["aug"]))
        out.append(program("A", ty, [("=", "x", "a"), ("aug", op, "x", ("+", "b", 1)), ("ret", "x")], ["aug"]))
        out.append(program("A", ty, [("=", "x", 3), ("aug", op, "x", "a"), ("aug", op, "x", "b"), ("ret", "x")], ["aug"]))
    out.append(program("A", ty, [("tup", ("x", "y"), ("a", "b")), ("tup", ("x", "y"), ("y", "x")), ("ret", ("-", "x", "y"))], ["tuple"]))
    out.append(program("A", ty, [("tup", ("a", "b"), ("b", "a")), ("ret", ("-", "a", "b"))], ["tuple"]))
    out.append(program("A", ty, [("tup", ("x", "y"), (("+", "a", "b"), ("*", "a", "b"))), ("tup", ("x", "y"), (("-", "y", "x"), "x")),
                                 ("ret", ("+", ("*", "x", 3), "y"))], ["tuple"]))
    return out


def atoms(ty, thorough):
    at = [("<", "a", "b"), ("==", "a", 1), (">=", "b", 0), ("!=", "a", "b")]
    if thorough:
        at += [(">", ("+", "a", "b"), 3), ("<=", ("*", "a", "b"), "a")]
    return at


def fam_C(ty, thorough):
    out = []

    def prog(c, feat):
        # two shapes: early return, and assignment joined after the if
        out.append(program("C", ty, [("if", c, [("ret", 1)], []), ("ret", 0)], feat))

    leaves = ["a", "b", 3, ("+", "a", "b")] if thorough else ["a", "b", 3]
    for op in CMPS:
        for l in leaves:
            for r in leaves:
                if isinstance(l, int) and isinstance(r, int):
                    continue
                prog((op, l, r), ["cmp"])
    at = atoms(ty, thorough)
    for bop in ("and", "or"):
        for c1 in at:
            for c2 in at:
                prog((bop, c1, c2), ["bool/" + bop])
    for c1, c2, c3 in itertools.product(at, repeat=3):
        if c1 == c2 or c2 == c3:
            continue
        for shape in (("or", ("and", c1, c2), c3), ("and", c1, ("or", c2, c3)), ("or", c1, ("and", c2, c3)), ("and", ("or", c1, c2), c3),
                      ("and", c1, c2, c3), ("or", c1, c2, c3)):
            prog(shape, ["bool/nested"])
    # if/else joining a value, with boolean conditions
    for c in [("and", at[0], at[1]), ("or", at[0], at[1]), ("or", ("and", at[0], at[2]), at[3])]:
        out.append(program("C", ty, [("=", "x", 0), ("if", c, [("=", "x", "a")], [("=", "x", "b")]), ("ret", "x")], ["bool/ifelse"]))
    # `not` (expected: rejected by the front end)
    out.append(program("C", ty, [("if", ("not", at[0]), [("ret", 1)], []), ("ret", 0)], ["bool/not"]))
    out.append(program("C", ty, [("if", ("and", ("not", at[0]), at[2]), [("ret", 1)], []), ("ret", 0)], ["bool/not"]))
    return out


# ---- statement skeletons

def simple_menu(ty, thorough, loopvar=None):
    m = [("aug", "+", "x", "a"), ("=", "x", ("+", ("*", "x", 2), "b")), ("aug", "-", "x", 1)]
    if thorough:
        m += [("tup", ("x", "y"), ("y", ("+", "x", 1))), ("=", "x", ("call", "g", "x", "b")), ("aug", "*", "x", 3), ("=", "x", ("-", "b", "x"))]
    if loopvar and ty == "int":
        m.insert(1, ("aug", "+", "x", loopvar))
    return m


def cond_menu(ty, thorough, loopvar=None):
    m = [("<", "a", "b"), (">", "x", 3)]
    if thorough:
        m += [("and", ("<", "a", "b"), ("<", "b", 3)), ("or", ("==", "a", 0), ("<", "x", "b")), ("!=", ("+", "a", "x"), "b"),
              ("or", ("and", (">=", "a", 0), ("<=", "b", 2)), ("==", "x", 0))]
    if loopvar and ty == "int":
        m.insert(0, ("==", loopvar, 1))
        if thorough:
            m.append(("<", loopvar, "b"))
    elif loopvar:
        m.insert(0, ("==", "x", "a"))
    return m


def loop_heads(ty, var, thorough):
    """-> [(tag, prologue statements, constructor(body) -> statement)]"""
    heads = []
    one = 1
    zero = 0

    def w_up(bound, extra=None):
        c = ("<", var, bound)
        if extra is not None:
            c = ("and", c, extra)
        return lambda body: ("while", c, [("aug", "+", var, one)] + body)

    heads.append(("while", [("=", var, zero)], w_up("a")))
    if thorough:
        heads.append(("while", [("=", var, zero)], w_up(3)))
        heads.append(("while/boolcond", [("=", var, zero)], w_up("a", ("<", "x", 20))))
        heads.append(("while/down", [("=", var, "a")], lambda body: ("while", (">", var, zero), [("aug", "-", var, one)] + body)))
    if ty == "int":
        heads.append(("for1", [], lambda body: ("for", var, ("a",), body)))
        heads.append(("for2", [], lambda body: ("for", var, ("b", "a"), body)))
        if thorough:
            heads.append(("for1", [], lambda body: ("for", var, (3,), body)))
            heads.append(("for1", [], lambda body: ("for", var, (("+", "a", "b"),), body)))
            heads.append(("for2", [], lambda body: ("for", var, (1, "a"), body)))
            heads.append(("for2", [], lambda body: ("for", var, ("a", 3), body)))
    else:
        heads.append(("for1", [], lambda body: ("for", var, (("ilit", 3),), body)))
        heads.append(("for2", [], lambda body: ("for", var, (("ilit", 1), ("ilit", 4)), body)))
    return heads


def uses_y(body):
    return "'y'" in repr(body)


def skeleton(ty, fam, pro, stmt, feat):
    body = [("=", "x", 0)]
    if uses_y([stmt]):
        body.append(("=", "y", 1))
    body += pro + [stmt]
    if uses_y([stmt]):
        body.append(("ret", ("+", ("*", "x", 16), "y")))
    else:
        body.append(("ret", "x"))
    return program(fam, ty, body, feat)


def fam_S(ty, thorough):
    out = []
    simple = simple_menu(ty, thorough)
    conds = cond_menu(ty, thorough)
    alt = ("aug", "-", "x", "b")

    # ---- depth 1
    for c in conds:
        for s in simple:
            out.append(skeleton(ty, "S", [], ("if", c, [s], []), ["if"]))
            out.append(skeleton(ty, "S", [], ("if", c, [s], [alt]), ["if", "else"]))
    for tag, pro, mk in loop_heads(ty, "i", thorough):
        ls = simple_menu(ty, thorough, "i" if tag.startswith("for") else None)
        for s in ls:
            out.append(skeleton(ty, "S", pro, mk([s]), [tag]))
        for s in ls[:2]:
            out.append(skeleton(ty, "S", pro, mk([s, ("break",)]), [tag, "break"]))
            out.append(skeleton(ty, "S", pro, mk([s, ("continue",)]), [tag, "continue"]))
            out.append(skeleton(ty, "S", pro, mk([s, ls[-1]]), [tag]))

    # ---- depth 2: loop containing a compound
    for tag, pro, mk in loop_heads(ty, "i", thorough):
        lv = "i" if tag.startswith("for") else None
        ls = simple_menu(ty, thorough, lv)[:5 if thorough else 2]
        lc = cond_menu(ty, thorough, lv or "x")[:6 if thorough else 2]
        inner = []
        for c in lc:
            for s in ls:
                inner.append((["if"], ("if", c, [s], [])))
                inner.append((["if", "else"], ("if", c, [s], [alt])))
            inner.append((["if", "break"], ("if", c, [("break",)], [])))
            inner.append((["if", "continue"], ("if", c, [("continue",)], [])))
            inner.append((["if", "else", "break"], ("if", c, [ls[0]], [("break",)])))
            inner.append((["if", "else", "continue"], ("if", c, [("continue",)], [ls[0]])))
        for tag2, pro2, mk2 in loop_heads(ty, "j", thorough):
            for s in ls[:3 if thorough else 2]:
                inner.append(([tag2.split("/")[0] + "-inner"], ("seq", pro2, mk2([s]))))
                if thorough:
                    inner.append(([tag2.split("/")[0] + "-inner", "inner-break"], ("seq", pro2, mk2([s, ("if", lc[0], [("break",)], [])]))))
                    inner.append(([tag2.split("/")[0] + "-inner", "inner-continue"], ("seq", pro2, mk2([("if", lc[0], [("continue",)], []), s]))))
        for feat, st in inner:
            if st[0] == "seq":
                pre, st = st[1], st[2]
            else:
                pre = []
            for layout in range(3):
                if layout == 0:
                    body = pre + [st]
                elif layout == 1:
                    body = [ls[0]] + pre + [st]
                else:
                    body = pre + [st, ls[0]]
                out.append(skeleton(ty, "S", pro, mk(body), [tag] + feat + ["nested"]))

    # ---- depth 2: if containing a compound
    for c in conds[:4 if thorough else 1]:
        for tag, pro, mk in loop_heads(ty, "i", thorough):
            tag = tag.split("/")[0]
            ls = simple_menu(ty, False, "i" if tag.startswith("for") else None)
            for s in ls[:3 if thorough else 2]:
                out.append(skeleton(ty, "S", [], ("if", c, pro + [mk([s])], []), ["if", tag + "-inner", "nested"]))
                out.append(skeleton(ty, "S", [], ("if", c, [alt], pro + [mk([s])]), ["if", "else", tag + "-inner", "nested"]))
        for c2 in conds:
            for s in simple[:2]:
                out.append(skeleton(ty, "S", [], ("if", c, [("if", c2, [s], [])], [alt]), ["if", "else", "nested"]))
                out.append(skeleton(ty, "S", [], ("if", c, [s], [("if", c2, [alt], [simple[-1]])]), ["if", "else", "nested"]))

    # ---- calls inside control flow and recursion
    out.append(skeleton(ty, "S", [], ("if", ("<", ("call", "g", "a", "b"), 3), [("=", "x", ("call", "g", "b", "a"))], [("=", "x", "a")]),
                        ["if", "else", "call"]))
    for tag, pro, mk in loop_heads(ty, "i", False):
        out.append(skeleton(ty, "S", pro, mk([("=", "x", ("call", "g", "x", "b"))]), [tag, "call"]))
    rec = [("if", ("<=", "a", 0), [("ret", "b")], []), ("ret", ("call", "f", ("-", "a", 1), ("+", "b", "a")))]
    out.append({"src": render_func("f", ["a", "b"], ty, rec), "ty": ty, "fam": "S", "feat": ("if", "call", "recursion")})
    return out


def fam_L(ty):
    """the loop variable read after the loop (CPython: last value taken, or UnboundLocalError when the range was empty)."""
    out = []
    if ty != "int":
        return out
    for args in (("a",), ("b", "a"), (3,)):
        out.append(program("L", ty, [("=", "x", 0), ("for", "i", args, [("aug", "+", "x", 1)]), ("ret", "i")], ["for", "loopvar-after-loop"]))
        out.append(program("L", ty, [("=", "x", 0), ("for", "i", args, [("aug", "+", "x", "i")]), ("ret", ("+", ("*", "x", 16), "i"))],
                           ["for", "loopvar-after-loop"]))
    # range() is evaluated once at loop entry: assignments in the body to the operands of the bounds, or to the loop variable, do not change
    # the trip count
    out.append(program("L", ty, [("=", "x", 0), ("for", "i", ("a",), [("aug", "-", "a", 1), ("aug", "+", "x", 1)]), ("ret", ("+", ("*", "x", 16), "a"))],
                       ["for", "bound-assigned-in-body"]))
    out.append(program("L", ty, [("=", "x", 0), ("for", "i", ("b", ("+", "a", "b")), [("aug", "+", "b", 1), ("aug", "+", "x", "i")]), ("ret", ("+", ("*", "x", 16), "b"))],
                       ["for", "bound-assigned-in-body"]))
    out.append(program("L", ty, [("=", "x", 0), ("for", "i", ("b", "a"), [("aug", "-", "b", 2), ("aug", "+", "x", "i")]), ("ret", ("+", ("*", "x", 16), "b"))],
                       ["for", "start-assigned-in-body"]))
    out.append(program("L", ty, [("=", "x", 0), ("for", "i", ("a",), [("aug", "+", "i", 5), ("aug", "+", "x", "i")]), ("ret", "x")],
                       ["for", "loopvar-assigned-in-body"]))
    out.append(program("L", ty, [("=", "x", 0), ("for", "i", ("a",), [("for", "j", ("i",), [("aug", "+", "x", 1), ("aug", "+", "i", 1)])]), ("ret", "x")],
                       ["for", "for-inner", "bound-assigned-in-body"]))
    return out


def programs(tier):
    thorough = tier != "quick"
    out = []
    for ty in ("int", "float"):
        out += fam_E(ty, thorough)
        out += fam_A(ty)
        out += fam_C(ty, thorough)
        out += fam_L(ty)
        out += fam_S(ty, thorough)
    # simplest first: by source length within (family order) -- families are already in increasing complexity
    seen = set()
    uniq = []
    for p in out:
        if p["src"] in seen:
            continue
        seen.add(p["src"])
        uniq.append(p)
    return uniq
