"""Extra IR program families for C24 (IR -> Python backend), in the description format of vf/gen/irgen.py.

Every generator yields *cases*:  {"kind", "info", "feat", "desc", "args", "steps"}

  desc   a module description with exactly the functions of one case (the function under test is desc["functions"][0])
  args   list of argument vectors to run it on
  kind   vocabulary for classification of a mismatch: binop | unop | cast | const | cmp | mem | cfg | l1k2
  info   small dict used for the locus key (operator, types, how the operands arrive)
  feat   short human label
  steps  block-step budget for the reference interpreter (loops that do not end inside it are 'horizon', never compared)

Simplest-first inside every family.
"""
import struct
import itertools

from . import irgen

INT_TYPES = irgen.INT_TYPES
FLOAT_TYPES = irgen.FLOAT_TYPES
ALL_TYPES = INT_TYPES + FLOAT_TYPES
ALL_BINOPS = irgen.BINOPS + ["rol", "ror"]
FLOAT_BINOPS = ["+", "-", "*", "/"]


def f32r(x):
    try:
        return struct.unpack("<f", struct.pack("<f", x))[0]
    except OverflowError:
        return float("inf") if x > 0 else float("-inf")


def alphabet(ty, k=13):
    """irgen.V with f32 members made representable in f32 (an f32 argument/constant that is not an f32 value is not a valid input)."""
    vs = irgen.V(ty, k)
    if ty == "f32":
        vs = irgen._dedup([f32r(v) for v in vs])
    return vs


# values that separate rounding from truncation, and the edges of every integer range
FLOAT_CAST_EXTRA = [1.5, 2.5, 3.5, -0.5, -2.5, 0.75, -0.75, 2.75, -2.75, 0.25, 126.5, 127.5, -128.5, 255.5, 254.5, 32767.5, -32768.5, 65535.5,
                    2147483647.5, -2147483648.5, 4294967295.5, 1e9 + 0.5, 1e15 + 0.5, 4503599627370495.5, 9.223372036854775e18, -9.223372036854775e18,
                    1.8446744073709550e19, 127.0, 128.0, -129.0, 256.0, 1e-300, -1e-300]


def cast_alphabet(src, dst):
    vs = list(alphabet(src, 13))
    if src in FLOAT_TYPES and dst in INT_TYPES:
        extra = FLOAT_CAST_EXTRA if src == "f64" else [f32r(v) for v in FLOAT_CAST_EXTRA]
        vs = irgen._dedup(vs + extra)
    return vs


def zero(ty):
    return 0.0 if ty in FLOAT_TYPES else 0


# --------------------------------------------------------------------------- renaming (batching many cases in one module)

def _ren_ref(r, suffix):
    if isinstance(r, str) and r.startswith("@"):
        return r + suffix
    return r


def rename(desc, suffix):
    """Copy of `desc` with every function, global and external renamed name -> name+suffix (and every @reference)."""
    out = {"name": desc.get("name", "m")}
    out["globals"] = [[g[0] + suffix] + list(g[1:]) for g in desc.get("globals", [])]
    out["externals"] = [[e[0] + suffix] + list(e[1:]) for e in desc.get("externals", [])]
    fns = []
    for fd in desc["functions"]:
        blocks = []
        for body in fd["blocks"]:
            nb = []
            for ins in body:
                k = ins[0]
                if k == "call":
                    nb.append(["call", _ren_ref(ins[1], suffix), [_ren_ref(a, suffix) for a in ins[2]], ins[3]])
                elif k == "phi":
                    nb.append(["phi", ins[1], [[b, _ren_ref(v, suffix)] for b, v in ins[2]]])
                else:
                    nb.append([_ren_ref(x, suffix) if i else x for i, x in enumerate(ins)])
            blocks.append(nb)
        fns.append({"name": fd["name"] + suffix, "ret": fd.get("ret"), "params": list(fd["params"]), "blocks": blocks})
    out["functions"] = fns
    return out


def merge(descs):
    out = {"name": "batch", "globals": [], "externals": [], "functions": []}
    for d in descs:
        out["globals"] += d.get("globals", [])
        out["externals"] += d.get("externals", [])
        out["functions"] += d["functions"]
    return out


VALUE_KINDS = ("const", "bin", "un", "cast", "alloc", "addr", "load", "phi", "undef", "lit")


def phi_features(fd):
    """Structural features of a function description that matter to phi lowering:
    'phi-reads-phi'  some phi takes, along some edge, the value of another phi of its own block (parallel copy needed)
    'branch-into-phi-block'  a two-way branch has a successor with phis (the copy belongs to one edge only)"""
    n = 0
    phis_of = {}
    val_block = {}
    for bi, body in enumerate(fd["blocks"]):
        for ins in body:
            k = ins[0]
            if k in VALUE_KINDS or (k == "call" and ins[3] is not None):
                if k == "phi":
                    phis_of.setdefault(bi, []).append(("%%%d" % n, ins))
                val_block["%%%d" % n] = bi
                n += 1
    feats = set()
    for bi, ps in phis_of.items():
        names = {nm for nm, _ in ps}
        for nm, ins in ps:
            for pb, v in ins[2]:
                if v in names and v != nm:
                    feats.add("phi-reads-phi")
    for bi, body in enumerate(fd["blocks"]):
        t = body[-1]
        if t[0] == "cjmp" and (t[4] in phis_of or t[5] in phis_of):
            feats.add("branch-into-phi-block")
    return "+".join(sorted(feats)) or "plain"


# --------------------------------------------------------------------------- L1 families

def fn(name, ret, params, blocks, **kw):
    d = {"name": name, "functions": [{"name": "f", "ret": ret, "params": params, "blocks": blocks}]}
    d.update(kw)
    return d


def pairs_sorted(va, vb):
    """All pairs, simplest first (small magnitudes first)."""
    def mag(x):
        if isinstance(x, float):
            if x != x:
                return 1e308
            return abs(x) if abs(x) != float("inf") else 1e307
        return abs(x)
    return sorted(itertools.product(va, vb), key=lambda ab: (mag(ab[0]) + mag(ab[1]),))


def binop_ops(ty):
    return FLOAT_BINOPS if ty in FLOAT_TYPES else ALL_BINOPS


def binop_arg_cases(types=ALL_TYPES, k=13):
    for ty in types:
        vs = alphabet(ty, k)
        pr = [list(ab) for ab in pairs_sorted(vs, vs)]
        for op in binop_ops(ty):
            yield {"kind": "binop", "info": {"op": op, "ty": ty, "form": "args"}, "feat": "%s %s args" % (ty, op),
                   "desc": irgen.l1_binop(ty, op, "pp"), "args": pr, "steps": 10, "pure": True}
            yield {"kind": "binop", "info": {"op": op, "ty": ty, "form": "same-arg"}, "feat": "%s %s same operand" % (ty, op),
                   "desc": irgen.l1_binop(ty, op, "aa"), "args": [[v, v] for v in vs], "steps": 10, "pure": True}


def binop_const_cases(types=ALL_TYPES, k=13):
    for ty in types:
        vs = alphabet(ty, k)
        z = zero(ty)
        for op in binop_ops(ty):
            for a, b in pairs_sorted(vs, vs):
                yield {"kind": "binop", "info": {"op": op, "ty": ty, "form": "const", "operands": [a, b]}, "feat": "%s %s consts" % (ty, op),
                       "desc": irgen.l1_binop_const(ty, op, a, b), "args": [[z, z]], "steps": 10, "pure": True}


def binop_mixed_cases(types=ALL_TYPES, k=7):
    """p0 op const  and  const op p0  (one operand printed, one passed)."""
    for ty in types:
        vs = alphabet(ty, k)
        for op in binop_ops(ty):
            for c in vs:
                yield {"kind": "binop", "info": {"op": op, "ty": ty, "form": "arg,const", "const": c, "const_pos": 1}, "feat": "%s p0 %s const" % (ty, op),
                       "desc": fn("l1pc", ty, [ty], [[["const", ty, c], ["bin", op, "p0", "%0", ty], ["ret", "%1"]]]), "args": [[v] for v in vs], "steps": 10, "pure": True}
                yield {"kind": "binop", "info": {"op": op, "ty": ty, "form": "const,arg", "const": c, "const_pos": 0}, "feat": "%s const %s p0" % (ty, op),
                       "desc": fn("l1cp", ty, [ty], [[["const", ty, c], ["bin", op, "%0", "p0", ty], ["ret", "%1"]]]), "args": [[v] for v in vs], "steps": 10, "pure": True}


def binop8_cases(ty, op, rows):
    """Every operand pair of an 8-bit type (exhaustive): one case per left operand in `rows`, all 256 right operands."""
    lo, hi = (-128, 127) if ty == "i8" else (0, 255)
    allv = sorted(range(lo, hi + 1), key=abs)
    for a in rows:
        yield {"kind": "binop", "info": {"op": op, "ty": ty, "form": "args"}, "feat": "%s %s all pairs" % (ty, op),
               "desc": irgen.l1_binop(ty, op, "pp"), "args": [[a, b] for b in allv], "steps": 10, "pure": True}


def unop_cases(k=13):
    for ty in ALL_TYPES:
        vs = alphabet(ty, k)
        for op in (["-"] if ty in FLOAT_TYPES else ["-", "~"]):
            yield {"kind": "unop", "info": {"op": op, "ty": ty, "form": "args"}, "feat": "%s unary %s arg" % (ty, op),
                   "desc": fn("un", ty, [ty], [[["un", op, "p0", ty], ["ret", "%0"]]]), "args": [[v] for v in vs], "steps": 10, "pure": True}
            for v in vs:
                yield {"kind": "unop", "info": {"op": op, "ty": ty, "form": "const", "operands": [v]}, "feat": "%s unary %s const" % (ty, op),
                       "desc": fn("unc", ty, [ty], [[["const", ty, v], ["un", op, "%0", ty], ["ret", "%1"]]]), "args": [[zero(ty)]], "steps": 10, "pure": True}


def const_cases(k=13):
    for ty in ALL_TYPES:
        for v in alphabet(ty, k):
            yield {"kind": "const", "info": {"ty": ty, "operands": [v]}, "feat": "%s constant" % ty,
                   "desc": fn("c", ty, [], [[["const", ty, v], ["ret", "%0"]]]), "args": [[]], "steps": 10, "pure": True}


def cast_cases():
    for src in ALL_TYPES:
        for dst in ALL_TYPES:
            vs = cast_alphabet(src, dst)
            yield {"kind": "cast", "info": {"src": src, "dst": dst, "form": "args"}, "feat": "cast %s->%s arg" % (src, dst),
                   "desc": irgen.cast_program(src, dst), "args": [[v] for v in vs], "steps": 10, "pure": True}
            for v in vs:
                yield {"kind": "cast", "info": {"src": src, "dst": dst, "form": "const", "operands": [v]}, "feat": "cast %s->%s const" % (src, dst),
                       "desc": fn("castc", dst, [], [[["const", src, v], ["cast", dst, "%0"], ["ret", "%1"]]]), "args": [[]], "steps": 10, "pure": True}


def cmp_cases(k=13):
    for ty in ALL_TYPES:
        vs = alphabet(ty, k)
        pr = [list(ab) for ab in pairs_sorted(vs, vs)]
        for cond in irgen.CONDS:
            yield {"kind": "cmp", "info": {"op": cond, "ty": ty, "form": "args"}, "feat": "%s cjmp %s" % (ty, cond),
                   "desc": fn("cmp", "i32", [ty, ty], [[["cjmp", "p0", cond, "p1", 1, 2]], [["const", "i32", 1], ["ret", "%0"]], [["const", "i32", 0], ["ret", "%1"]]]),
                   "args": pr, "steps": 10, "pure": True}


def l1k2_cases(types, argk=7, part=0, nparts=1):
    for ty in types:
        vs = alphabet(ty, argk)
        pr = [list(ab) for ab in pairs_sorted(vs, vs)]
        for idx, d in enumerate(irgen.l1_programs([ty], 2)):
            if idx % nparts != part:
                continue
            body = d["functions"][0]["blocks"][0]
            last = [i for i in body if i[0] != "ret"][-1]
            # k = 1 is explored exhaustively, so a mismatch first seen here belongs to the instruction producing the returned value
            yield {"kind": "l1k2", "info": {"ty": ty, "last": ("binop/" + last[1]) if last[0] == "bin" else ("unop/" + last[1]) if last[0] == "un" else "const"},
                   "feat": "%s two-instruction program" % ty, "desc": d, "args": pr, "steps": 10, "pure": True}


# --------------------------------------------------------------------------- L2: memory

def pattern(n, which=0):
    if which == 0:
        return bytes((i * 37 + 0x81) & 0xFF for i in range(n)).hex()
    if which == 1:
        return (b"\xff" * n).hex()
    return bytes((0x7F - i * 29) & 0xFF for i in range(n)).hex()


GSIZE = 24
OFFSETS = [0, 1, 2, 3, 4, 5, 8, 13]


def size_of(ty):
    return int(ty[1:]) // 8


def align_class(ty, off):
    return "aligned" if off % size_of(ty) == 0 else "unaligned"


def mem_cases(k=13):
    G = [["g", GSIZE, 8, pattern(GSIZE)]]
    # 1. store p0 at g+off, load it back with the same type; memory of g observed
    for ty in ALL_TYPES:
        vs = alphabet(ty, k)
        for off in OFFSETS:
            yield {"kind": "mem", "info": {"what": "store-load", "ty": ty, "al": align_class(ty, off)}, "feat": "store/load %s at g+%d" % (ty, off),
                   "desc": fn("sl", ty, [ty], [[["const", "ptr", off], ["bin", "+", "@g", "%0", "ptr"], ["store", "p0", "%1"], ["load", ty, "%1"], ["ret", "%2"]]], globals=G),
                   "args": [[v] for v in vs], "steps": 10}
    # 2. load from an initialised image
    for ty in ALL_TYPES:
        for which in (0, 1, 2):
            for off in OFFSETS:
                yield {"kind": "mem", "info": {"what": "load", "ty": ty, "al": align_class(ty, off)}, "feat": "load %s at g+%d image %d" % (ty, off, which),
                       "desc": fn("ld", ty, [], [[["const", "ptr", off], ["bin", "+", "@g", "%0", "ptr"], ["load", ty, "%1"], ["ret", "%2"]]],
                                  globals=[["g", GSIZE, 8, pattern(GSIZE, which)]]),
                       "args": [[]], "steps": 10}
    # 3. store as one type, load as another
    for t1 in ALL_TYPES:
        for t2 in ALL_TYPES:
            if t1 == t2:
                continue
            for off in (0, 3):
                yield {"kind": "mem", "info": {"what": "store-%s-load-%s" % (tclass(t1), tclass(t2)), "ty": t1, "al": align_class(t1, off)},
                       "feat": "store %s load %s at g+%d" % (t1, t2, off),
                       "desc": fn("x", t2, [t1], [[["const", "ptr", off], ["bin", "+", "@g", "%0", "ptr"], ["store", "p0", "%1"], ["load", t2, "%1"], ["ret", "%2"]]], globals=G),
                       "args": [[v] for v in alphabet(t1, 7)], "steps": 10}
    # 4. stack slots: store at slot+off, read back the value and its last byte
    for ty in ALL_TYPES:
        n = size_of(ty)
        for off in (0, 1, 5):
            pre = [["alloc", 16, 8], ["addr", "%0"], ["const", "ptr", off], ["bin", "+", "%1", "%2", "ptr"], ["store", "p0", "%3"]]
            yield {"kind": "mem", "info": {"what": "stack-store-load", "ty": ty, "al": align_class(ty, off)}, "feat": "stack store/load %s at slot+%d" % (ty, off),
                   "desc": fn("ss", ty, [ty], [pre + [["load", ty, "%3"], ["ret", "%4"]]]), "args": [[v] for v in alphabet(ty, 7)], "steps": 10}
            yield {"kind": "mem", "info": {"what": "stack-store-lastbyte", "ty": ty, "al": align_class(ty, off)}, "feat": "stack store %s at slot+%d, load last byte" % (ty, off),
                   "desc": fn("sb", "u8", [ty], [pre + [["const", "ptr", off + n - 1], ["bin", "+", "%1", "%4", "ptr"], ["load", "u8", "%5"], ["ret", "%6"]]]),
                   "args": [[v] for v in alphabet(ty, 7)], "steps": 10}
    # 5. a pointer stored in memory and loaded back, then used (pointer round trip through load_ptr/store_ptr)
    for off in (0, 1, 4, 13):
        yield {"kind": "mem", "info": {"what": "ptr-roundtrip", "ty": "ptr", "al": "aligned"}, "feat": "pointer to g+%d through a stack slot" % off,
               "desc": fn("pr", "i32", ["i32"], [[["alloc", 8, 8], ["addr", "%0"], ["const", "ptr", off], ["bin", "+", "@g", "%2", "ptr"], ["store", "%3", "%1"],
                                                  ["load", "ptr", "%1"], ["store", "p0", "%4"], ["load", "i32", "%3"], ["ret", "%5"]]], globals=G),
               "args": [[v] for v in alphabet("i32", 7)], "steps": 10}
        yield {"kind": "mem", "info": {"what": "ptr-roundtrip-global", "ty": "ptr", "al": "aligned"}, "feat": "pointer to g+%d through a global slot" % off,
               "desc": fn("pg", "i32", ["i32"], [[["const", "ptr", off], ["bin", "+", "@g", "%0", "ptr"], ["store", "%1", "@h"],
                                                  ["load", "ptr", "@h"], ["store", "p0", "%2"], ["load", "i32", "%1"], ["ret", "%3"]]],
                          globals=G + [["h", 8, 8, None]]),
               "args": [[v] for v in alphabet("i32", 3)], "steps": 10, "skip_globals": ["h"]}
    # 6. pointer differences
    for a in (0, 1, 8):
        for b in (0, 1, 8):
            yield {"kind": "mem", "info": {"what": "ptr-diff", "ty": "ptr", "al": "aligned"}, "feat": "(g+%d)-(g+%d) as i32" % (a, b),
                   "desc": fn("pd", "i32", [], [[["const", "ptr", a], ["const", "ptr", b], ["bin", "+", "@g", "%0", "ptr"], ["bin", "+", "@g", "%1", "ptr"],
                                                  ["bin", "-", "%2", "%3", "ptr"], ["cast", "i32", "%4"], ["ret", "%5"]]], globals=G),
                   "args": [[]], "steps": 10}
    # 7. two globals: stores to one must not touch the other; initial images honoured
    for ty in ("u8", "i16", "u32", "i64", "f32", "f64"):
        yield {"kind": "mem", "info": {"what": "two-globals", "ty": ty, "al": "aligned"}, "feat": "store %s to h, load g" % ty,
               "desc": fn("tg", "u8", [ty], [[["store", "p0", "@h"], ["load", "u8", "@g"], ["ret", "%0"]]], globals=G + [["h", 8, 8, pattern(8, 2)]]),
               "args": [[v] for v in alphabet(ty, 7)], "steps": 10}


def tclass(ty):
    if ty in FLOAT_TYPES:
        return ty
    return ("signed" if ty[0] == "i" else "unsigned") + ("64" if ty.endswith("64") else "")


def l2_cases(nops, types, argk=7):
    for ty in types:
        vs = alphabet(ty, argk)
        pr = [list(ab) for ab in itertools.product(vs, vs)]
        for d in irgen.l2_programs(nops, ty):
            yield {"kind": "cfg", "info": {"fam": "l2", "features": "memory-ops"}, "feat": d["name"] + " " + ty, "desc": d, "args": pr, "steps": 20}


# --------------------------------------------------------------------------- L3 / L4 / SSA CFG programs

CFG_ARGS = [0, 1, 2, 3, -1, 5]


def cfg_args(ty, quick):
    bits = int(ty[1:])
    vals = CFG_ARGS if not quick else CFG_ARGS[:5]
    out = []
    for v in vals:
        if ty[0] == "u" and v < 0:
            v += 1 << bits
        out.append(v)
    return [list(ab) for ab in itertools.product(out, out)]


def l3_cases(nblocks, variants, quick, ty="i32", sk=None):
    """irgen.l3_programs restricted to the skeleton slice sk=(i, j)."""
    skels = irgen.cfg_skeletons(nblocks)
    if sk is not None:
        skels = skels[sk[0]:sk[1]]
    nb, nc = len(irgen.L3_BODIES), len(irgen.L3_CONDS)
    progs = []
    for skel in skels:
        for v in range(variants):
            bodies = [(k + v) % nb for k in range(nblocks)]
            if v % 2:
                bodies = [(2 * k + v) % nb for k in range(nblocks)]
            conds = [(k + v) % nc for k in range(nblocks)]
            progs.append(irgen.l3_program(skel, bodies, conds, ty))
    for d in progs:
        yield {"kind": "cfg", "info": {"fam": "l3", "features": "memory-variables"}, "feat": "l3 %d blocks" % nblocks, "desc": d, "args": cfg_args(ty, quick), "steps": 64}


def l4_cases(types, quick):
    for ty in types:
        for d in irgen.l4_programs(ty):
            yield {"kind": "cfg", "info": {"fam": "l4", "features": phi_features(d["functions"][0])}, "feat": d["name"] + " " + ty, "desc": d,
                   "args": cfg_args(ty, quick), "steps": 200}


SSA_BODIES = ["nop", "incx", "addy", "swap", "prev", "mulsub", "gacc"]
SSA_CONDS = [("x", "<", "three"), ("y", "!=", "a"), ("x", "<", "y"), ("y", ">", "one")]


def ssa_program(skel, bodies, conds, ty="i32", prune=True):
    """SSA-form CFG program over two variables x, y (initially p0, p1).  Phis for x and y are placed at every skeleton block with
    >= 2 predecessors; a block with a single predecessor continues with its predecessor's values, so a value may stay live
    across many blocks.  Bodies 'swap' and 'prev' only rename (no instruction): swap exchanges x and y (phis that read each
    other around a loop), prev is  y = x; x = x + 1  (the old value of a loop variable stays live after the loop).
    Every 'ret' returns x*3 + y; body 'gacc' accumulates x in the global g (observable memory)."""
    n = len(skel)
    preds = {k: [] for k in range(n)}
    preds[0].append(-1)
    for k, t in enumerate(skel):
        for s in t[1:]:
            if k not in preds[s]:
                preds[s].append(k)
    # IR block order = reverse post-order of the skeleton (dominators first: irgen.build resolves non-phi operands in block order)
    seen, post = set(), []

    def dfs(k):
        seen.add(k)
        for t in skel[k][1:]:
            if t not in seen:
                dfs(t)
        post.append(k)

    dfs(0)
    rpo = post[::-1]
    pos = {k: i + 1 for i, k in enumerate(rpo)}
    pos[-1] = 0
    counter = [0]

    def new():
        counter[0] += 1
        return ("s", counter[0])

    ONE, THREE = new(), new()
    blocks = [[(ONE, ["const", ty, 1]), (THREE, ["const", ty, 3]), (None, ["jmp", 1])]]
    phis = {k: (new(), new()) for k in range(n) if len(preds[k]) >= 2}
    outs = {-1: ("p0", "p1")}
    bodies_ins = {}

    def out_of(k):
        if k in outs:
            return outs[k]
        if k in phis:
            x, y = phis[k]
        else:
            x, y = out_of(preds[k][0])
        ins = []
        b = SSA_BODIES[bodies[k]]
        if b == "incx":
            v = new()
            ins.append((v, ["bin", "+", x, ONE, ty]))
            x = v
        elif b == "addy":
            v = new()
            ins.append((v, ["bin", "+", y, x, ty]))
            y = v
        elif b == "swap":
            x, y = y, x
        elif b == "prev":
            v = new()
            ins.append((v, ["bin", "+", x, ONE, ty]))
            x, y = v, x
        elif b == "mulsub":
            v, w = new(), new()
            ins.append((v, ["bin", "*", x, THREE, ty]))
            ins.append((w, ["bin", "-", y, ONE, ty]))
            x, y = v, w
        elif b == "gacc":
            v, w = new(), new()
            ins.append((v, ["load", ty, "@g"]))
            ins.append((w, ["bin", "+", v, x, ty]))
            ins.append((None, ["store", w, "@g"]))
        bodies_ins[k] = (ins, x, y)
        outs[k] = (x, y)
        return outs[k]

    # blocks whose input comes from a phi first (their outputs do not depend on others), then the rest by need
    for k in range(n):
        out_of(k)
    for k in rpo:
        body = []
        if k in phis:
            px, py = phis[k]
            body.append((px, ["phi", ty, [[pos[p], outs[p][0]] for p in preds[k]]]))
            body.append((py, ["phi", ty, [[pos[p], outs[p][1]] for p in preds[k]]]))
        ins, x, y = bodies_ins[k]
        body += ins
        t = skel[k]
        if t[0] == "ret":
            v, w = new(), new()
            body.append((v, ["bin", "*", x, THREE, ty]))
            body.append((w, ["bin", "+", v, y, ty]))
            body.append((None, ["ret", w]))
        elif t[0] == "jmp":
            body.append((None, ["jmp", pos[t[1]]]))
        else:
            c = SSA_CONDS[conds[k] % len(SSA_CONDS)]
            env = {"x": x, "y": y, "a": "p0", "one": ONE, "three": THREE}
            body.append((None, ["cjmp", env[c[0]], c[1], env[c[2]], pos[t[1]], pos[t[2]]]))
        blocks.append(body)
    if prune:
        # pruned SSA: drop phis no instruction (transitively through live phis) reads -- what a liveness-aware SSA builder emits
        phi_ins = {sym: ins for body in blocks for sym, ins in body if ins[0] == "phi"}
        live, todo = set(), []

        def mark(x):
            if isinstance(x, tuple) and x in phi_ins and x not in live:
                live.add(x)
                todo.append(x)

        for body in blocks:
            for sym, ins in body:
                if ins[0] != "phi":
                    for x in ins:
                        mark(x)
        while todo:
            for pb, v in phi_ins[todo.pop()][2]:
                mark(v)
        blocks = [[(sym, ins) for sym, ins in body if ins[0] != "phi" or sym in live] for body in blocks]
    # number the values in creation order of irgen.build (block order, instruction order)
    num = {}
    for body in blocks:
        for sym, ins in body:
            if sym is not None:
                num[sym] = "%%%d" % len(num)

    def res(x):
        if isinstance(x, tuple):
            return num[x]
        if isinstance(x, list):
            return [res(y) for y in x]
        return x

    out_blocks = [[[res(x) for x in ins] for _, ins in body] for body in blocks]
    return {"name": "ssa", "globals": [["g", 4, 4, None]],
            "functions": [{"name": "f", "ret": ty, "params": [ty, ty], "blocks": out_blocks}]}


def ssa_cases(nblocks, quick, ty="i32", full=False, sk=None, unpruned=True):
    """nblocks <= 2 (or full): every body assignment x every condition assignment; otherwise Latin rotations of the menus."""
    nb, nc = len(SSA_BODIES), len(SSA_CONDS)
    skels = irgen.cfg_skeletons(nblocks)
    if sk is not None:
        skels = skels[sk[0]:sk[1]]
    for skel in skels:
        ncj = [k for k in range(nblocks) if skel[k][0] == "cjmp"]
        if full or nblocks <= 2:
            combos = []
            for bodies in itertools.product(range(nb), repeat=nblocks):
                for cs in itertools.product(range(nc), repeat=len(ncj)):
                    conds = [0] * nblocks
                    for k, c in zip(ncj, cs):
                        conds[k] = c
                    combos.append((list(bodies), conds))
        else:
            combos = []
            for v in range(nb):
                for stride in (1, 2, 3):
                    bodies = [(stride * k + v) % nb for k in range(nblocks)]
                    conds = [(k + v + stride) % nc for k in range(nblocks)]
                    if (bodies, conds) not in combos:
                        combos.append((bodies, conds))
        for bodies, conds in combos:
            d = ssa_program(skel, bodies, conds, ty, prune=True)
            yield {"kind": "cfg", "info": {"fam": "ssa", "features": phi_features(d["functions"][0])}, "feat": "pruned ssa %d blocks" % nblocks, "desc": d,
                   "args": cfg_args(ty, quick), "steps": 64}
            if unpruned:
                d2 = ssa_program(skel, bodies, conds, ty, prune=False)
                if d2 != d:
                    yield {"kind": "cfg", "info": {"fam": "ssa", "features": phi_features(d2["functions"][0])}, "feat": "ssa %d blocks" % nblocks, "desc": d2,
                           "args": cfg_args(ty, quick), "steps": 64}


# --------------------------------------------------------------------------- stack frames and function pointers (hand-shaped)

def frame_cases(types=("i32",), quick=True):
    """Stack-slot discipline of the generated runtime (rt.alloca / rt.free): slots of a caller must survive calls whatever path the
    callee takes; every activation of a recursive function has its own slot."""
    for ty in types:
        args = cfg_args(ty, quick)
        one = ["const", ty, 1]
        zero_ = ["const", ty, 0]
        # callee h: the slot is allocated on one path only, single return block
        h_cond = {"name": "h", "ret": ty, "params": [ty], "blocks": [
            [zero_, ["cjmp", "p0", ">", "%0", 1, 2]],
            [["alloc", 4 if ty != "i64" else 8, 4], ["addr", "%1"], ["store", "p0", "%2"], ["load", ty, "%2"], one, ["bin", "+", "%3", "%4", ty], ["jmp", 2]],
            [["phi", ty, [[0, "p0"], [1, "%5"]]], ["ret", "%6"]]]}
        # callee h: two return blocks, slot allocated in the entry
        h_two = {"name": "h", "ret": ty, "params": [ty], "blocks": [
            [["alloc", 8, 8], ["addr", "%0"], ["store", "p0", "%1"], zero_, ["cjmp", "p0", ">", "%2", 1, 2]],
            [["load", ty, "%1"], ["ret", "%3"]],
            [["load", ty, "%1"], one, ["bin", "+", "%4", "%5", ty], ["ret", "%6"]]]}
        # callee h: slot allocated inside a loop body (p0 times, at most 3)
        h_loop = {"name": "h", "ret": ty, "params": [ty], "blocks": [
            [zero_, one, ["const", ty, 3], ["jmp", 1]],
            [["phi", ty, [[0, "%0"], [2, "%7"]]], ["cjmp", "%3", "<", "%2", 4, 3]],
            [["alloc", 8, 8], ["addr", "%4"], ["store", "%3", "%5"], ["load", ty, "%5"], ["bin", "+", "%6", "%1", ty], ["jmp", 1]],
            [["ret", "%3"]],
            [["cjmp", "%3", "<", "p0", 2, 3]]]}
        sz = 8
        caller = {"name": "f", "ret": ty, "params": [ty, ty], "blocks": [
            [["alloc", sz, 8], ["addr", "%0"], ["store", "p1", "%1"], ["call", "@h", ["p0"], ty], ["load", ty, "%1"], ["bin", "+", "%2", "%3", ty],
             ["call", "@h", ["p1"], ty], ["load", ty, "%1"], ["bin", "+", "%5", "%6", ty], ["bin", "+", "%4", "%7", ty], ["ret", "%8"]]]}
        for nm, h in (("alloc-outside-entry-block", h_cond), ("two-returns", h_two), ("alloc-outside-entry-block", h_loop)):
            yield {"kind": "cfg", "info": {"fam": "frame", "features": nm}, "feat": "callee with %s, called directly, %s" % (nm, ty),
                   "desc": {"name": "fr", "functions": [dict(h, name="f")]}, "args": [[a] for a in sorted({x[0] for x in args}, key=abs)], "steps": 60}
            yield {"kind": "cfg", "info": {"fam": "frame", "features": nm}, "feat": "caller slot live across call of callee with %s, %s" % (nm, ty),
                   "desc": {"name": "fr", "functions": [caller, h]}, "args": args, "steps": 60}
        # recursion: every activation keeps its argument in its own slot across the recursive call
        rec = {"name": "f", "ret": ty, "params": [ty, ty], "blocks": [
            [["alloc", sz, 8], ["addr", "%0"], ["store", "p0", "%1"], zero_, one, ["const", ty, 4], ["cjmp", "p0", "<=", "%2", 1, 2]],
            [["ret", "p1"]],
            [["cjmp", "p0", ">", "%4", 1, 3]],
            [["bin", "-", "p0", "%3", ty], ["call", "@f", ["%5", "p1"], ty], ["load", ty, "%1"], ["bin", "*", "%6", "%4", ty], ["bin", "+", "%8", "%7", ty], ["ret", "%9"]]]}
        yield {"kind": "cfg", "info": {"fam": "frame", "features": "recursion-slots"}, "feat": "recursive function with a slot per activation, %s" % ty,
               "desc": {"name": "fr", "functions": [rec]}, "args": args, "steps": 200}


def fptr_cases(quick=True):
    """Function addresses as values: through a phi, through memory, as an argument."""
    ty = "i32"
    args = cfg_args(ty, quick)
    h1 = {"name": "h1", "ret": ty, "params": [ty], "blocks": [[["const", ty, 1], ["bin", "+", "p0", "%0", ty], ["ret", "%1"]]]}
    h2 = {"name": "h2", "ret": ty, "params": [ty], "blocks": [[["const", ty, 3], ["bin", "*", "p0", "%0", ty], ["ret", "%1"]]]}
    via_phi = {"name": "f", "ret": ty, "params": [ty, ty], "blocks": [
        [["cjmp", "p0", "<", "p1", 1, 2]], [["jmp", 3]], [["jmp", 3]],
        [["phi", "ptr", [[1, "@h1"], [2, "@h2"]]], ["call", "%0", ["p1"], ty], ["ret", "%1"]]]}
    via_mem = {"name": "f", "ret": ty, "params": [ty, ty], "blocks": [
        [["alloc", 8, 8], ["addr", "%0"], ["cjmp", "p0", "<", "p1", 1, 2]],
        [["store", "@h1", "%1"], ["jmp", 3]], [["store", "@h2", "%1"], ["jmp", 3]],
        [["load", "ptr", "%1"], ["call", "%2", ["p1"], ty], ["ret", "%3"]]]}
    app = {"name": "app", "ret": ty, "params": ["ptr", ty], "blocks": [[["call", "p0", ["p1"], ty], ["ret", "%0"]]]}
    via_arg = {"name": "f", "ret": ty, "params": [ty, ty], "blocks": [
        [["call", "@app", ["@h1", "p0"], ty], ["call", "@app", ["@h2", "p1"], ty], ["bin", "-", "%0", "%1", ty], ["ret", "%2"]]]}
    via_global = {"name": "f", "ret": ty, "params": [ty, ty], "blocks": [
        [["store", "@h2", "@fp"], ["load", "ptr", "@fp"], ["call", "%0", ["p0"], ty], ["ret", "%1"]]]}
    for nm, f, extra in (("through-phi", via_phi, [h1, h2]), ("through-stack-slot", via_mem, [h1, h2]), ("as-argument", via_arg, [app, h1, h2]),
                         ("through-global", via_global, [h2])):
        d = {"name": "fp", "functions": [f] + extra}
        c = {"kind": "cfg", "info": {"fam": "fptr", "features": nm}, "feat": "function pointer " + nm, "desc": d, "args": args, "steps": 60}
        if nm == "through-global":
            d["globals"] = [["fp", 8, 8, None]]
            c["skip_globals"] = ["fp"]
        yield c
