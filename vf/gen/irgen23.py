"""IR program families for C23 (IR -> WebAssembly), in the description format of vf/gen/irgen.py.

Values are restricted to the types WebAssembly has (i32/u32/i64/u64/f32/f64; pointers are i32); the narrow integer types occur only
as load/store types, reached through `cast wide->narrow; store` and `load narrow; cast narrow->wide`.

Description extension (handled by `build`): the initialiser of a global may be a list of parts, each a hex string or
["ptr", label] (address of another global or of a function), instead of one hex string.

Every generator yields *cases*:
  {"fam", "mech", "label", "desc", "fn", "args", "steps", "skip_globals", "info", "pure"}
  fam     op | mem | cfg | phi | globals | call          (c: built by the check from vf/gen/ccorpus.py)
  mech    locus-key prefix of a mismatch seen on this case (refined by the check from `info`)
  desc    module description; the function under test is `fn`
  args    argument vectors, run in this order on ONE instance (state of globals carries over, on both sides)
  steps   block-step horizon for the reference interpreter
  pure    no memory / calls: may share a wasm module with other pure cases
Simplest first inside every family.
"""
import itertools

from . import irgen
from . import irgen24

VALUE_TYPES = ["i32", "u32", "i64", "u64", "f32", "f64"]
INT_VALUE_TYPES = ["i32", "u32", "i64", "u64"]
NARROW = ["i8", "u8", "i16", "u16"]
FLOATS = ["f32", "f64"]
ALL_MEM_TYPES = NARROW + VALUE_TYPES


def alphabet(ty, k=7):
    return irgen24.alphabet(ty, k)


def wide_of(ty):
    """Value type that carries a narrow memory type."""
    return "i32" if ty in NARROW else ty


def size_of(ty):
    return 4 if ty == "ptr" else int(ty[1:]) // 8


def build(desc):
    """irgen.build plus pointer initialisers."""
    from ppci import ir
    plain = dict(desc)
    special = {}
    gl = []
    for g in desc.get("globals", []):
        g = list(g) + [None] * (4 - len(g))
        if isinstance(g[3], list):
            special[g[0]] = g[3]
            g = g[:3] + [None]
        gl.append(g)
    plain["globals"] = gl
    m = irgen.build(plain)
    for v in m.variables:
        if v.name in special:
            parts = []
            for p in special[v.name]:
                if isinstance(p, str):
                    parts.append(bytes.fromhex(p))
                else:
                    parts.append((ir.ptr, p[1]))
            v.value = tuple(parts)
    return m


def case(fam, mech, label, desc, args, fn="f", steps=20, pure=False, info=None, skip_globals=()):
    return {"fam": fam, "mech": mech, "label": label, "desc": desc, "fn": fn, "args": args, "steps": steps, "pure": pure,
            "info": info or {}, "skip_globals": list(skip_globals)}


def fn(name, ret, params, blocks, **kw):
    d = {"name": name, "functions": [{"name": "f", "ret": ret, "params": params, "blocks": blocks}]}
    d.update(kw)
    return d


def pairs(ty, k):
    vs = alphabet(ty, k)
    return [list(ab) for ab in irgen24.pairs_sorted(vs, vs)]


def zero(ty):
    return 0.0 if ty in FLOATS else 0


def binops(ty):
    return ["+", "-", "*", "/"] if ty in FLOATS else list(irgen.BINOPS)


# --------------------------------------------------------------------------- L1: operators, casts, comparisons, constants

def op_cases(k=7, types=VALUE_TYPES):
    for ty in types:
        vs = alphabet(ty, k)
        pr = pairs(ty, k)
        z = zero(ty)
        for op in binops(ty):
            mech = "op/%s/%s" % (op, ty)
            info = {"op": op, "ty": ty}
            yield case("op", mech, "%s %s, operands as parameters" % (ty, op), irgen.l1_binop(ty, op, "pp"), pr, pure=True, info=info)
            yield case("op", mech, "%s %s, same parameter twice" % (ty, op), irgen.l1_binop(ty, op, "aa"), [[v, v] for v in vs], pure=True, info=info)
            for a, b in pr:
                yield case("op", mech, "%s %r %s %r, operands as constants" % (ty, a, op, b), irgen.l1_binop_const(ty, op, a, b), [[z, z]], pure=True,
                           info=dict(info, consts=True))
            for c in vs:
                yield case("op", mech, "%s p0 %s %r" % (ty, op, c), fn("l1pc", ty, [ty], [[["const", ty, c], ["bin", op, "p0", "%0", ty], ["ret", "%1"]]]),
                           [[v] for v in vs], pure=True, info=info)
                yield case("op", mech, "%s %r %s p0" % (ty, c, op), fn("l1cp", ty, [ty], [[["const", ty, c], ["bin", op, "%0", "p0", ty], ["ret", "%1"]]]),
                           [[v] for v in vs], pure=True, info=info)


def unop_cases(k=7, types=VALUE_TYPES):
    for ty in types:
        vs = alphabet(ty, k)
        for op in (["-"] if ty in FLOATS else ["-", "~"]):
            mech = "op/unary%s/%s" % (op, ty)
            info = {"op": "unary" + op, "ty": ty}
            yield case("op", mech, "%s unary %s, operand as parameter" % (ty, op), fn("un", ty, [ty], [[["un", op, "p0", ty], ["ret", "%0"]]]),
                       [[v] for v in vs], pure=True, info=info)
            for v in vs:
                yield case("op", mech, "%s unary %s of constant %r" % (ty, op, v), fn("unc", ty, [ty], [[["const", ty, v], ["un", op, "%0", ty], ["ret", "%1"]]]),
                           [[zero(ty)]], pure=True, info=dict(info, consts=True))


def const_cases(k=13, types=VALUE_TYPES):
    for ty in types:
        for v in alphabet(ty, k):
            yield case("op", "const/%s" % ty, "%s constant %r" % (ty, v), fn("c", ty, [], [[["const", ty, v], ["ret", "%0"]]]), [[]], pure=True,
                       info={"op": "const", "ty": ty, "consts": True})


def cast_class(src, dst):
    s = "float" if src in FLOATS else "int"
    d = "float" if dst in FLOATS else "int"
    return "%s-to-%s" % (s, d)


def cast_cases(types=VALUE_TYPES, quick=True):
    for src in types:
        for dst in types:
            if src == dst:
                continue
            vs = irgen24.cast_alphabet(src, dst)
            if src in INT_VALUE_TYPES and quick:
                vs = alphabet(src, 13)
            mech = "cast/%s/%s" % (src, dst)
            info = {"op": "cast", "src": src, "dst": dst, "ty": dst}
            yield case("op", mech, "cast %s -> %s of a parameter" % (src, dst), irgen.cast_program(src, dst), [[v] for v in vs], pure=True, info=info)
            for v in vs:
                yield case("op", mech, "cast %s -> %s of constant %r" % (src, dst, v), fn("castc", dst, [], [[["const", src, v], ["cast", dst, "%0"], ["ret", "%1"]]]),
                           [[]], pure=True, info=dict(info, consts=True))
    # pointer <-> integer (pointer arithmetic on integers is what the C front end emits)
    for ity in ("i32", "u32", "i64"):
        vs = [0, 1, 4, 1000, 65535]
        yield case("op", "cast/%s/ptr" % ity, "cast %s -> ptr -> i32" % ity,
                   fn("castp", "i32", [ity], [[["cast", "ptr", "p0"], ["cast", "i32", "%0"], ["ret", "%1"]]]), [[v] for v in vs], pure=True,
                   info={"op": "cast", "src": ity, "dst": "ptr", "ty": "i32"})


def cmp_cases(k=7, types=VALUE_TYPES):
    for ty in types:
        pr = pairs(ty, k)
        for cond in irgen.CONDS:
            yield case("op", "cmp/%s/%s" % (cond, ty), "%s cjmp %s" % (ty, cond),
                       fn("cmp", "i32", [ty, ty], [[["cjmp", "p0", cond, "p1", 1, 2]], [["const", "i32", 1], ["ret", "%0"]], [["const", "i32", 0], ["ret", "%1"]]]),
                       pr, pure=True, info={"op": "cmp" + cond, "ty": ty})


def l1k2_cases(types, k=7, part=0, nparts=1):
    for ty in types:
        pr = pairs(ty, k)
        for idx, d in enumerate(irgen.l1_programs([ty], 2)):
            if idx % nparts != part:
                continue
            body = d["functions"][0]["blocks"][0]
            last = [i for i in body if i[0] != "ret"][-1]
            op = last[1] if last[0] == "bin" else ("unary" + last[1]) if last[0] == "un" else "const"
            yield case("op", "op/%s/%s" % (op, ty), "%s two-instruction program" % ty, d, pr, pure=True, info={"op": op, "ty": ty, "k2": True})


# --------------------------------------------------------------------------- L2: memory

GSIZE = 24
OFFSETS = [0, 1, 2, 3, 4, 5, 8, 13]
G = [["g", GSIZE, 8, None]]


def mem_args(ty):
    """Arguments for a store of memory type `ty` (narrow types: i32 values that need truncation)."""
    if ty in NARROW:
        return [0, 1, -1, 127, 128, 255, 256, 300, -129, 32767, 32768, 65535, 65536, 0x12345678, -2 ** 31]
    return alphabet(ty, 7) + ([0x12345678] if ty in ("i32", "u32") else [0x123456789ABCDEF0 if ty == "u64" else 0x123456789ABCDEF] if ty in ("i64", "u64") else [])


def _store(ty, addr, n0):
    """Instructions storing p0 (of wide_of(ty)) as `ty` at `addr`; n0 = number of values defined so far.  Returns (instrs, n)."""
    if ty in NARROW:
        return [["cast", ty, "p0"], ["store", "%%%d" % n0, addr]], n0 + 1
    return [["store", "p0", addr]], n0


def _load(ty, addr, n0):
    """Instructions loading `ty` from addr and widening; returns (instrs, ref of the wide value, n)."""
    if ty in NARROW:
        return [["load", ty, addr], ["cast", "i32", "%%%d" % n0]], "%%%d" % (n0 + 1), n0 + 2
    return [["load", ty, addr]], "%%%d" % n0, n0 + 1


def mem_cases(quick=True):
    # 1. store p0 at g+off as T, load it back as T; g observed
    for ty in ALL_MEM_TYPES:
        w = wide_of(ty)
        for off in OFFSETS:
            body = [["const", "ptr", off], ["bin", "+", "@g", "%0", "ptr"]]
            st, n = _store(ty, "%1", 2)
            ld, ref, n = _load(ty, "%1", n)
            body += st + ld + [["ret", ref]]
            yield case("mem", "memory", "store/load %s at g+%d" % (ty, off), fn("sl", w, [w], [body], globals=G), [[v] for v in mem_args(ty)],
                       info={"store": ty, "load": ty, "off": off})
    # 2. store as T1, load as T2
    for t1 in ALL_MEM_TYPES:
        for t2 in ALL_MEM_TYPES:
            if t1 == t2:
                continue
            for off in (0, 3):
                body = [["const", "ptr", off], ["bin", "+", "@g", "%0", "ptr"]]
                st, n = _store(t1, "%1", 2)
                ld, ref, n = _load(t2, "%1", n)
                body += st + ld + [["ret", ref]]
                yield case("mem", "memory", "store %s, load %s at g+%d" % (t1, t2, off), fn("x", wide_of(t2), [wide_of(t1)], [body], globals=G),
                           [[v] for v in mem_args(t1)[:9]], info={"store": t1, "load": t2, "off": off})
    # 3. stack slots
    for ty in ALL_MEM_TYPES:
        w = wide_of(ty)
        nb = size_of(ty)
        for off in (0, 1, 5):
            pre = [["alloc", 16, 8], ["addr", "%0"], ["const", "ptr", off], ["bin", "+", "%1", "%2", "ptr"]]
            st, n = _store(ty, "%3", 4)
            ld, ref, n2 = _load(ty, "%3", n)
            yield case("mem", "memory", "stack store/load %s at slot+%d" % (ty, off), fn("ss", w, [w], [pre + st + ld + [["ret", ref]]]),
                       [[v] for v in mem_args(ty)[:9]], info={"store": ty, "load": ty, "off": off, "stack": True})
            tail = [["const", "ptr", off + nb - 1], ["bin", "+", "%1", "%%%d" % n, "ptr"], ["load", "u8", "%%%d" % (n + 1)], ["cast", "i32", "%%%d" % (n + 2)],
                    ["ret", "%%%d" % (n + 3)]]
            yield case("mem", "memory", "stack store %s at slot+%d, load its last byte" % (ty, off), fn("sb", "i32", [w], [pre + st + tail]),
                       [[v] for v in mem_args(ty)[:9]], info={"store": ty, "load": "u8", "off": off, "stack": True})
    # 4. pointers stored and reloaded
    for off in (0, 1, 4, 13):
        yield case("mem", "memory/pointer", "pointer to g+%d through a stack slot" % off,
                   fn("pr", "i32", ["i32"], [[["alloc", 8, 8], ["addr", "%0"], ["const", "ptr", off], ["bin", "+", "@g", "%2", "ptr"], ["store", "%3", "%1"],
                                              ["load", "ptr", "%1"], ["store", "p0", "%4"], ["load", "i32", "%3"], ["ret", "%5"]]], globals=G),
                   [[v] for v in alphabet("i32", 7)], info={"store": "ptr", "load": "ptr"})
        yield case("mem", "memory/pointer", "pointer to g+%d through a global slot" % off,
                   fn("pg", "i32", ["i32"], [[["const", "ptr", off], ["bin", "+", "@g", "%0", "ptr"], ["store", "%1", "@h"],
                                              ["load", "ptr", "@h"], ["store", "p0", "%2"], ["load", "i32", "%1"], ["ret", "%3"]]],
                      globals=G + [["h", 8, 8, None]]),
                   [[v] for v in alphabet("i32", 3)], info={"store": "ptr", "load": "ptr"}, skip_globals=["h"])
    # 5. pointer differences and comparisons
    for a in (0, 1, 8):
        for b in (0, 1, 8):
            yield case("mem", "memory/pointer", "(g+%d)-(g+%d) as i32" % (a, b),
                       fn("pd", "i32", [], [[["const", "ptr", a], ["const", "ptr", b], ["bin", "+", "@g", "%0", "ptr"], ["bin", "+", "@g", "%1", "ptr"],
                                             ["bin", "-", "%2", "%3", "ptr"], ["cast", "i32", "%4"], ["ret", "%5"]]], globals=G), [[]],
                       info={"store": "ptr", "load": "ptr"})
    # 6. neighbouring globals of odd sizes: a store to one must not touch the others
    sizes = [1, 4, 3, 8, 2, 8]
    gl = [["n%d" % i, s, 1 if s in (1, 3) else min(s, 4), None] for i, s in enumerate(sizes)]
    for i, s in enumerate(sizes):
        ty = {1: "u8", 2: "u16", 3: "u16", 4: "i32", 8: "i64"}[s]
        w = wide_of(ty)
        st, n = _store(ty, "@n%d" % i, 0)
        ld, ref, n = _load(ty, "@n%d" % i, n)
        yield case("mem", "globals/layout", "store %s to global %d of %d neighbours (sizes %s)" % (ty, i, len(sizes), sizes),
                   fn("nb", w, [w], [st + ld + [["ret", ref]]], globals=gl), [[v] for v in ([-1, 0x12345678] if w == "i32" else [-1, 0x123456789ABCDEF])],
                   info={"store": ty, "load": ty, "layout": True})
    # 7. irgen L2 programs (stack slots, an aliasing address, a global, an external call, memcpy, volatile)
    for ty, nops in (("i32", 1), ("i32", 2), ("i64", 1), ("f64", 1)) + ((("i32", 3),) if not quick else ()):
        vs = alphabet(ty, 3) + ([5] if ty != "f64" else [2.5])
        pr = [list(ab) for ab in itertools.product(vs, vs)]
        for d in irgen.l2_programs(nops, ty):
            yield case("mem", "memory/sequence", d["name"] + " " + ty, d, pr, info={"l2": True, "ty": ty, "memcpy": "memcpy" in d["name"]})


# --------------------------------------------------------------------------- CFG skeleton analysis (own, independent of ppci.graph)

def skel_analysis(skel):
    """Returns dict(reducible, cls, loops) for a skeleton (tuple of ('ret',)|('jmp',t)|('cjmp',t1,t2)).

    Shape classes: straight | if (acyclic with a branch) | self-loop | loop-single-exit | loop-multi-exit | loop-no-exit |
    loops-nested | loops-sequential | irreducible."""
    n = len(skel)
    succ = [list(dict.fromkeys(t[1:])) for t in skel]
    allset = set(range(n))
    dom = [set(allset) for _ in range(n)]
    dom[0] = {0}
    preds = [[u for u in range(n) if v in succ[u]] for v in range(n)]
    changed = True
    while changed:
        changed = False
        for v in range(1, n):
            ps = [dom[u] for u in preds[v]]
            new = set.intersection(*ps) | {v} if ps else {v}
            if new != dom[v]:
                dom[v] = new
                changed = True
    back = [(u, v) for u in range(n) for v in succ[u] if v in dom[u]]
    fwd = [[v for v in succ[u] if (u, v) not in back] for u in range(n)]
    # acyclic after removing back edges?
    state = [0] * n
    cyc = [False]

    def dfs(u):
        state[u] = 1
        for v in fwd[u]:
            if state[v] == 1:
                cyc[0] = True
            elif state[v] == 0:
                dfs(v)
        state[u] = 2

    dfs(0)
    if cyc[0]:
        return {"reducible": False, "cls": "irreducible", "loops": []}
    headers = sorted({v for _, v in back})
    loops = []
    for h in headers:
        body = {h}
        todo = [u for u, v in back if v == h]
        while todo:
            u = todo.pop()
            if u not in body:
                body.add(u)
                todo += preds[u]
        exits = set()
        for u in body:
            if skel[u][0] == "ret":
                exits.add("ret%d" % u)
            for v in succ[u]:
                if v not in body:
                    exits.add(v)
        loops.append({"header": h, "body": sorted(body), "exits": sorted(map(str, exits))})
    if not loops:
        cls = "if" if any(t[0] == "cjmp" for t in skel) else "straight"
    elif len(loops) >= 2:
        nested = any(a is not b and a["header"] in b["body"] and set(a["body"]) <= set(b["body"]) for a in loops for b in loops)
        cls = "loops-nested" if nested else "loops-sequential"
    else:
        lp = loops[0]
        if not lp["exits"]:
            cls = "loop-no-exit"
        elif len(lp["body"]) == 1:
            cls = "self-loop"
        elif len(lp["exits"]) == 1:
            cls = "loop-single-exit"
        else:
            cls = "loop-multi-exit"
    return {"reducible": True, "cls": cls, "loops": loops}


def desc_skeleton(fd):
    """Skeleton (in irgen.cfg_skeletons form) of a function description's CFG, restricted to blocks reachable from the entry."""
    blocks = fd["blocks"]
    seen, order = {0: 0}, [0]
    i = 0
    while i < len(order):
        t = blocks[order[i]][-1]
        ts = [t[1]] if t[0] == "jmp" else [t[4], t[5]] if t[0] == "cjmp" else []
        for x in ts:
            if x not in seen:
                seen[x] = len(order)
                order.append(x)
        i += 1
    sk = []
    for b in order:
        t = blocks[b][-1]
        if t[0] == "jmp":
            sk.append(("jmp", seen[t[1]]))
        elif t[0] == "cjmp":
            if t[4] == t[5]:
                sk.append(("jmp", seen[t[4]]))
            else:
                sk.append(("cjmp", seen[t[4]], seen[t[5]]))
        else:
            sk.append(("ret",))
    return tuple(sk)


# --------------------------------------------------------------------------- L3: CFG programs

CFG_VARIANTS_Q = 12
CFG_STEPS = 64


def l3_variants(nblocks, nvariants):
    nb, nc = len(irgen.L3_BODIES), len(irgen.L3_CONDS)
    out = []
    for v in range(nvariants):
        stride = 1 + (v // nb) % 3
        bodies = [(stride * k + v) % nb for k in range(nblocks)]
        conds = [(k + v + v // nc) % nc for k in range(nblocks)]
        if (bodies, conds) not in out:
            out.append((bodies, conds))
    return out


def cfg_cases(nblocks, quick=True, nvariants=CFG_VARIANTS_Q, ssa=True, sk=None, types=("i32",), pick=None):
    """pick=k: only rotation k (mod the number of rotations) of every skeleton."""
    skels = irgen.cfg_skeletons(nblocks)
    if sk is not None:
        skels = skels[sk[0]:sk[1]]
    for skel in skels:
        an = skel_analysis(skel)
        info = {"skel": [list(t) for t in skel], "cls": an["cls"], "reducible": an["reducible"]}
        mech = "relooper/" + an["cls"]
        for ty in types:
            args = irgen24.cfg_args(ty, quick)
            variants = l3_variants(nblocks, nvariants)
            if pick is not None:
                variants = [variants[pick % len(variants)]]
            for bodies, conds in variants:
                d = irgen.l3_program(skel, bodies, conds, ty)
                yield case("cfg", mech, "l3 %s bodies %s conds %s %s" % (skel, bodies, conds, ty), d, args, steps=CFG_STEPS, info=dict(info, form="memory-variables"))
            if ssa:
                nb, nc = len(irgen24.SSA_BODIES), len(irgen24.SSA_CONDS)
                combos = []
                for v in range(nb if nblocks <= 3 else 2):
                    for stride in ((1, 2, 3) if nblocks <= 3 else (1 + v,)):
                        bodies = [(stride * k + v) % nb for k in range(nblocks)]
                        conds = [(k + v + stride) % nc for k in range(nblocks)]
                        if (bodies, conds) not in combos:
                            combos.append((bodies, conds))
                for bodies, conds in combos:
                    d = irgen24.ssa_program(skel, bodies, conds, ty, prune=True)
                    feat = irgen24.phi_features(d["functions"][0])
                    yield case("cfg", mech, "ssa %s bodies %s conds %s %s" % (skel, bodies, conds, ty), d, args, steps=CFG_STEPS, info=dict(info, form="ssa", phi=feat))
                    if nblocks <= 3:
                        d2 = irgen24.ssa_program(skel, bodies, conds, ty, prune=False)
                        if d2 != d:
                            feat = irgen24.phi_features(d2["functions"][0])
                            yield case("cfg", mech, "unpruned ssa %s bodies %s conds %s %s" % (skel, bodies, conds, ty), d2, args, steps=CFG_STEPS,
                                       info=dict(info, form="ssa", phi=feat))


def phi_cases(quick=True, types=("i32", "i64")):
    for ty in types:
        for d in irgen.l4_programs(ty):
            fd = d["functions"][0]
            an = skel_analysis(desc_skeleton(fd))
            name = d["name"][3:]
            yield case("phi", "phi/" + name, d["name"] + " " + ty, d, irgen24.cfg_args(ty, quick), steps=300,
                       info={"cls": an["cls"], "reducible": an["reducible"], "phi": irgen24.phi_features(fd), "recursive": "tailrec" in name})


# --------------------------------------------------------------------------- globals with initial data, literals

def pattern(n, which=0):
    return irgen24.pattern(n, which)


def global_cases(quick=True):
    # zero-initialised global read with every type
    for ty in ALL_MEM_TYPES:
        ld, ref, n = _load(ty, "@g", 0)
        yield case("globals", "globals/zero-init", "load %s from a global without initialiser" % ty, fn("z", wide_of(ty), [], [ld + [["ret", ref]]], globals=G), [[]],
                   info={"load": ty})
    # initial byte image read with every type at several offsets
    for which in (0, 1, 2):
        for ty in ALL_MEM_TYPES:
            for off in (OFFSETS if which == 0 else (0, 5)):
                body = [["const", "ptr", off], ["bin", "+", "@g", "%0", "ptr"]]
                ld, ref, n = _load(ty, "%1", 2)
                yield case("globals", "globals/initial-data", "load %s at g+%d from initial image %d" % (ty, off, which),
                           fn("ld", wide_of(ty), [], [body + ld + [["ret", ref]]], globals=[["g", GSIZE, 8, pattern(GSIZE, which)]]), [[]],
                           info={"load": ty, "initial": True})
    # several initialised globals: each must get its own image (segment offsets), written and read back
    gl = [["a", 1, 1, "7f"], ["b", 4, 4, "01020304"], ["c", 3, 1, "a1b2c3"], ["d", 8, 8, "1112131415161718"], ["e", 5, 1, None], ["f2", 2, 2, "e1e2"]]
    for name, size, al, init in gl:
        body = []
        n = 0
        acc = None
        for i in range(size):
            body += [["const", "ptr", i], ["bin", "+", "@" + name, "%%%d" % n, "ptr"], ["load", "u8", "%%%d" % (n + 1)], ["cast", "i32", "%%%d" % (n + 2)]]
            cur = "%%%d" % (n + 3)
            n += 4
            if acc is not None:
                body += [["const", "i32", 256], ["bin", "*", acc, "%%%d" % n, "i32"], ["bin", "+", "%%%d" % (n + 1), cur, "i32"]]
                cur = "%%%d" % (n + 2)
                n += 3
            acc = cur
        yield case("globals", "globals/initial-data", "bytes of global %s among 6 initialised globals" % name, fn("gs", "i32", [], [body + [["ret", acc]]], globals=gl), [[]],
                   info={"initial": True, "layout": True})
    yield case("globals", "globals/initial-data", "store to an initialised global, neighbours keep their images",
               fn("gw", "i32", ["i32"], [[["store", "p0", "@b"], ["load", "i32", "@b"], ["ret", "%0"]]], globals=gl), [[-1], [0x12345678]], info={"initial": True})
    # pointer initialisers
    gp = [["g", 8, 4, "0102030405060708"], ["p", 4, 4, [["ptr", "g"]]], ["q", 12, 4, ["aabbccdd", ["ptr", "g"], "11223344"]]]
    yield case("globals", "globals/initial-pointer", "global p = &g; return *p",
               fn("ip", "i32", [], [[["load", "ptr", "@p"], ["load", "i32", "%0"], ["ret", "%1"]]], globals=gp), [[]], skip_globals=["p", "q"], info={"initial": True})
    yield case("globals", "globals/initial-pointer", "global q = {bytes, &g, bytes}; *q[1] = p0; return g",
               fn("iq", "i32", ["i32"], [[["const", "ptr", 4], ["bin", "+", "@q", "%0", "ptr"], ["load", "ptr", "%1"], ["store", "p0", "%2"], ["load", "i32", "@g"],
                                          ["load", "i32", "@q"], ["bin", "^", "%3", "%4", "i32"], ["ret", "%5"]]], globals=gp), [[5], [-1]],
               skip_globals=["p", "q"], info={"initial": True})
    # function-pointer initialisers (a dispatch table)
    h1 = {"name": "h1", "ret": "i32", "params": ["i32"], "blocks": [[["const", "i32", 1], ["bin", "+", "p0", "%0", "i32"], ["ret", "%1"]]]}
    h2 = {"name": "h2", "ret": "i32", "params": ["i32"], "blocks": [[["const", "i32", 3], ["bin", "*", "p0", "%0", "i32"], ["ret", "%1"]]]}
    f = {"name": "f", "ret": "i32", "params": ["i32", "i32"], "blocks": [
        [["const", "i32", 1], ["bin", "&", "p0", "%0", "i32"], ["const", "i32", 4], ["bin", "*", "%1", "%2", "i32"], ["cast", "ptr", "%3"],
         ["bin", "+", "@tab", "%4", "ptr"], ["load", "ptr", "%5"], ["call", "%6", ["p1"], "i32"], ["ret", "%7"]]]}
    yield case("globals", "globals/initial-function-pointer", "table = {&h1, &h2}; return table[p0 & 1](p1)",
               {"name": "ft", "globals": [["tab", 8, 4, [["ptr", "h1"], ["ptr", "h2"]]]], "functions": [f, h1, h2]},
               [[0, 5], [1, 5], [2, -7], [3, -7]], skip_globals=["tab"], info={"initial": True, "indirect": True})
    # literal data
    for hexs in ("2a000000", "0102030405060708090a", "ff"):
        nbytes = len(hexs) // 2
        ty = "i32" if nbytes >= 4 else "u8"
        ld, ref, n = _load(ty, "%1", 2)
        yield case("globals", "globals/literal", "literal data %s read as %s" % (hexs, ty), fn("lit", "i32", [], [[["lit", hexs], ["addr", "%0"]] + ld + [["ret", ref]]]), [[]],
                   info={"literal": True})
    yield case("globals", "globals/literal", "two literals and a global",
               fn("lit2", "i32", [], [[["lit", "01000000"], ["addr", "%0"], ["lit", "00020000"], ["addr", "%2"], ["load", "i32", "%1"], ["load", "i32", "%3"],
                                       ["load", "i32", "@g"], ["bin", "+", "%4", "%5", "i32"], ["bin", "+", "%7", "%6", "i32"], ["ret", "%8"]]], globals=G), [[]],
               info={"literal": True})


# --------------------------------------------------------------------------- calls

def call_cases(quick=True):
    # direct calls: argument order and mixed types
    for ty in VALUE_TYPES:
        vs = alphabet(ty, 3) + ([7] if ty not in FLOATS else [2.5])
        pr = [list(ab) for ab in itertools.product(vs, vs)]
        callee = {"name": "h", "ret": ty, "params": [ty, ty], "blocks": [[["bin", "-", "p0", "p1", ty], ["ret", "%0"]]]}
        for nm, order in (("same order", ["p0", "p1"]), ("swapped", ["p1", "p0"])):
            f = {"name": "f", "ret": ty, "params": [ty, ty], "blocks": [[["call", "@h", order, ty], ["ret", "%0"]]]}
            yield case("call", "call/direct", "direct call h(%s) of %s" % (nm, ty), {"name": "dc", "functions": [f, callee]}, pr, info={"ty": ty})
    ptypes = ["i32", "i64", "f32", "f64", "i32", "f64", "i64", "f32", "u32", "i32"]
    vals = [101, 2 ** 35 + 1, 0.5, -1.25, -3, 4.75, -2 ** 40, 8.5, 0xFFFFFFFE, 9]
    for k, ty in enumerate(ptypes):
        pick = {"name": "h", "ret": ty, "params": ptypes, "blocks": [[["ret", "p%d" % k]]]}
        f = {"name": "f", "ret": ty, "params": ptypes, "blocks": [[["call", "@h", ["p%d" % i for i in range(len(ptypes))], ty], ["ret", "%0"]]]}
        yield case("call", "call/direct", "parameter %d (%s) of 10 mixed parameters through a call" % (k, ty), {"name": "mp", "functions": [f, pick]}, [vals],
                   info={"ty": ty})
    # procedures with a side effect, result-less calls
    setg = {"name": "setg", "ret": None, "params": ["i32"], "blocks": [[["load", "i32", "@g"], ["bin", "+", "%0", "p0", "i32"], ["store", "%1", "@g"], ["exit"]]]}
    f = {"name": "f", "ret": "i32", "params": ["i32", "i32"], "blocks": [[["call", "@setg", ["p0"], None], ["call", "@setg", ["p1"], None], ["call", "@setg", ["p0"], None],
                                                                           ["load", "i32", "@g"], ["ret", "%0"]]]}
    yield case("call", "call/procedure", "procedure called three times accumulating in a global", {"name": "pc", "globals": [["g", 4, 4, None]], "functions": [f, setg]},
               irgen24.cfg_args("i32", True)[:9])
    yield case("call", "call/procedure", "exported procedure (no result) storing to a global",
               {"name": "pe", "globals": [["g", 4, 4, None]], "functions": [dict(setg, name="f")]}, [[1], [2], [-5]])
    # recursion
    fact = {"name": "f", "ret": "i32", "params": ["i32", "i32"], "blocks": [
        [["const", "i32", 1], ["const", "i32", 7], ["bin", "&", "p0", "%1", "i32"], ["cjmp", "%2", "<=", "%0", 1, 2]],
        [["ret", "p1"]],
        [["bin", "-", "%2", "%0", "i32"], ["bin", "*", "p1", "%2", "i32"], ["call", "@f", ["%3", "%4"], "i32"], ["ret", "%5"]]]}
    yield case("call", "call/recursion", "factorial by recursion with accumulator", {"name": "rc", "functions": [fact]}, irgen24.cfg_args("i32", quick), steps=100)
    fib = {"name": "f", "ret": "i32", "params": ["i32"], "blocks": [
        [["const", "i32", 2], ["const", "i32", 1], ["cjmp", "p0", "<", "%0", 1, 2]],
        [["ret", "p0"]],
        [["bin", "-", "p0", "%1", "i32"], ["call", "@f", ["%2"], "i32"], ["bin", "-", "p0", "%0", "i32"], ["call", "@f", ["%4"], "i32"], ["bin", "+", "%3", "%5", "i32"], ["ret", "%6"]]]}
    yield case("call", "call/recursion", "fibonacci by double recursion", {"name": "fb", "functions": [fib]}, [[0], [1], [2], [5], [9], [-1]], steps=400)
    even = {"name": "f", "ret": "i32", "params": ["i32"], "blocks": [
        [["const", "i32", 0], ["const", "i32", 1], ["cjmp", "p0", "==", "%0", 1, 2]], [["ret", "%1"]],
        [["bin", "-", "p0", "%1", "i32"], ["call", "@odd", ["%2"], "i32"], ["ret", "%3"]]]}
    odd = {"name": "odd", "ret": "i32", "params": ["i32"], "blocks": [
        [["const", "i32", 0], ["const", "i32", 1], ["cjmp", "p0", "==", "%0", 1, 2]], [["ret", "%0"]],
        [["bin", "-", "p0", "%1", "i32"], ["call", "@f", ["%2"], "i32"], ["ret", "%3"]]]}
    yield case("call", "call/recursion", "mutual recursion even/odd (callee defined after the caller)", {"name": "mr", "functions": [even, odd]}, [[0], [1], [2], [7], [10]], steps=100)
    # stack frames across calls (irgen24)
    for c in irgen24.frame_cases(("i32",), quick):
        yield case("call", "call/frame", c["feat"], c["desc"], c["args"], steps=c["steps"], info={"frame": c["info"]["features"]})
    # indirect calls
    for c in irgen24.fptr_cases(quick):
        yield case("call", "call/indirect", c["feat"], c["desc"], c["args"], steps=c["steps"], skip_globals=c.get("skip_globals", ()), info={"indirect": c["info"]["features"]})
    # two signatures through the table
    h1 = {"name": "h1", "ret": "i32", "params": ["i32"], "blocks": [[["const", "i32", 1], ["bin", "+", "p0", "%0", "i32"], ["ret", "%1"]]]}
    h3 = {"name": "h3", "ret": "i64", "params": ["i64", "i64"], "blocks": [[["bin", "-", "p0", "p1", "i64"], ["ret", "%0"]]]}
    f = {"name": "f", "ret": "i32", "params": ["i32", "i32"], "blocks": [
        [["alloc", 8, 4], ["addr", "%0"], ["store", "@h3", "%1"], ["load", "ptr", "%1"], ["cast", "i64", "p0"], ["cast", "i64", "p1"], ["call", "%2", ["%3", "%4"], "i64"],
         ["cast", "i32", "%5"], ["store", "@h1", "%1"], ["load", "ptr", "%1"], ["call", "%7", ["%6"], "i32"], ["ret", "%8"]]]}
    yield case("call", "call/indirect", "function pointers of two signatures through one stack slot", {"name": "f2", "functions": [f, h1, h3]}, irgen24.cfg_args("i32", True)[:9],
               info={"indirect": "two-signatures"})
    # external (imported) functions
    for ty in VALUE_TYPES:
        vs = alphabet(ty, 7)
        f = {"name": "f", "ret": ty, "params": [ty], "blocks": [[["call", "@ext", ["p0"], ty], ["ret", "%0"]]]}
        yield case("call", "call/external", "external %s -> %s" % (ty, ty), {"name": "ex", "externals": [["ext", [ty], ty]], "functions": [f]}, [[v] for v in vs], info={"ty": ty})
    f = {"name": "f", "ret": "i32", "params": ["i32", "i32"], "blocks": [
        [["call", "@e2", ["p1", "p0"], "i32"], ["call", "@ev", ["%0"], None], ["call", "@e2", ["%0", "p1"], "i32"], ["call", "@e0", [], "i32"], ["bin", "+", "%1", "%2", "i32"], ["ret", "%3"]]]}
    yield case("call", "call/external", "externals of arity 0/1/2, one without result; order and arguments of the calls",
               {"name": "ex3", "externals": [["e2", ["i32", "i32"], "i32"], ["ev", ["i32"], None], ["e0", [], "i32"], ["unused", ["i32"], "i32"]], "functions": [f]},
               irgen24.cfg_args("i32", True)[:9])
    f = {"name": "f", "ret": "f64", "params": ["f64", "i64"], "blocks": [[["call", "@ed", ["p0", "p0"], "f64"], ["call", "@el", ["p1"], "i64"], ["cast", "f64", "%1"],
                                                                         ["bin", "+", "%0", "%2", "f64"], ["ret", "%3"]]]}
    yield case("call", "call/external", "externals (f64,f64)->f64 and i64->i64", {"name": "ex4", "externals": [["ed", ["f64", "f64"], "f64"], ["el", ["i64"], "i64"]], "functions": [f]},
               [[0.5, 3], [-1.5, -2 ** 40], [2.5, 2 ** 62]])
    # external called in a loop / on one arm only
    f = {"name": "f", "ret": "i32", "params": ["i32", "i32"], "blocks": [
        [["const", "i32", 0], ["const", "i32", 1], ["const", "i32", 3], ["bin", "&", "p0", "%2", "i32"], ["jmp", 1]],
        [["phi", "i32", [[0, "%0"], [2, "%8"]]], ["phi", "i32", [[0, "p1"], [2, "%7"]]], ["cjmp", "%4", "<", "%3", 2, 3]],
        [["bin", "+", "%5", "%4", "i32"], ["call", "@ext", ["%6"], "i32"], ["bin", "+", "%4", "%1", "i32"], ["jmp", 1]],
        [["ret", "%5"]]]}
    yield case("call", "call/external", "external called in a loop (trace length depends on p0)", {"name": "ex5", "externals": [["ext", ["i32"], "i32"]], "functions": [f]},
               irgen24.cfg_args("i32", True), steps=100)
