"""C program enumerator (DESIGN 3.1 `cgen`): families of tiny C functions as `cases` for vf.oracles.gccrun.

Every file-scope identifier carries '@' (per-case suffix).  Families are deterministic lists, simplest first.
  E1  a op b            every binary operator x every ordered pair of the 10 integer types, returned as long long
  E2  op a / (T)a       unary operators and every cast pair
  E3  a op= b, ++/--    compound assignment (result in T1) and pre/post increment
  E4  depth 2           ((a op1 b) op2 c) and (a op1 (b op2 c)) over a 6-type sub-alphabet (slice by root operator)
  S   statements        control-flow skeletons (the vf.gen.ccorpus corpus + templates x body menu)
  A   aggregates        struct fields of every type, struct copy/by value, arrays, pointer arithmetic, sizeof, bit-fields
  F   floating point    float/double arithmetic and int<->float conversions
"""
import itertools
from vf.oracles.gccrun import INT_TYPES, V, is_float

BINOPS = ["+", "-", "*", "/", "%", "&", "|", "^", "<<", ">>", "<", ">", "<=", ">=", "==", "!=", "&&", "||"]
ASSIGNOPS = ["+=", "-=", "*=", "/=", "%=", "&=", "|=", "^=", "<<=", ">>="]
SIX = ["signed char", "unsigned short", "int", "unsigned", "long", "unsigned long"]


def vectors(params, k=7, cap=49):
    cols = [V(t, k) for t in params]
    vs = [list(v) for v in itertools.product(*cols)]
    if len(vs) > cap:
        step = len(vs) / cap
        vs = [vs[int(i * step)] for i in range(cap)]
    return vs


def case(src, ret, params, fam, feat, globals_=(), k=7, cap=49, restore=()):
    return {"src": src, "fname": "f@", "ret": ret, "params": list(params), "vectors": vectors(params, k, cap), "globals": list(globals_),
            "restore": list(restore), "fam": fam, "feat": feat}


def e1(types=INT_TYPES, ops=BINOPS):
    for op in ops:
        for t1 in types:
            for t2 in types:
                yield case("long long f@(%s a, %s b){ return a %s b; }" % (t1, t2, op), "long long", [t1, t2], "E1", "%s/%s/%s" % (op, t1, t2))


def e2(types=INT_TYPES):
    for op in ["-", "~", "!", "+"]:
        for t in types:
            yield case("long long f@(%s a){ return %sa; }" % (t, op), "long long", [t], "E2", "unary%s/%s" % (op, t))
    for t1 in types:
        for t2 in types:
            yield case("%s f@(%s a){ return (%s)a; }" % (t2, t1, t2), t2, [t1], "E2", "cast/%s->%s" % (t1, t2), k=7)
            if t1 != t2:
                yield case("%s f@(%s a){ %s r = a; return r; }" % (t2, t1, t2), t2, [t1], "E2", "assign-conv/%s->%s" % (t1, t2))


def e3(types=INT_TYPES):
    for op in ASSIGNOPS:
        for t1 in types:
            for t2 in types:
                yield case("%s f@(%s a, %s b){ a %s b; return a; }" % (t1, t1, t2, op), t1, [t1, t2], "E3", "%s/%s/%s" % (op, t1, t2))
    for t in types:
        yield case("long long f@(%s a){ %s r = a++; return (long long)r * 3 + a; }" % (t, t), "long long", [t], "E3", "post++/" + t)
        yield case("long long f@(%s a){ %s r = ++a; return (long long)r * 3 + a; }" % (t, t), "long long", [t], "E3", "pre++/" + t)
        yield case("long long f@(%s a){ %s r = a--; return (long long)r * 3 + a; }" % (t, t), "long long", [t], "E3", "post--/" + t)
        yield case("long long f@(%s a){ %s r = --a; return (long long)r * 3 + a; }" % (t, t), "long long", [t], "E3", "pre--/" + t)
    for t in types:
        yield case("long long f@(%s a, %s b){ return a ? b : -b; }" % (t, t), "long long", [t, t], "E3", "ternary/" + t)
        yield case("long long f@(%s a, int b){ return (a, b); }" % t, "long long", [t, "int"], "E3", "comma/" + t)
        yield case("long long f@(%s a, int b){ return b ? a : 1u; }" % t, "long long", [t, "int"], "E3", "ternary-mixed/" + t)


def e4(root_ops, types=SIX, inner_ops=("+", "-", "*", "/", "%", "&", "|", "^", "<<", ">>", "<", "==")):
    for op2 in root_ops:
        for op1 in inner_ops:
            for t1, t2, t3 in itertools.product(types, repeat=3):
                yield case("long long f@(%s a, %s b, %s c){ return (a %s b) %s c; }" % (t1, t2, t3, op1, op2), "long long", [t1, t2, t3],
                           "E4", "(%s)%s/%s/%s/%s" % (op1, op2, t1, t2, t3), k=3, cap=27)
                yield case("long long f@(%s a, %s b, %s c){ return a %s (b %s c); }" % (t1, t2, t3, op2, op1), "long long", [t1, t2, t3],
                           "E4", "%s(%s)/%s/%s/%s" % (op2, op1, t1, t2, t3), k=3, cap=27)


def s_corpus():
    from vf.gen import ccorpus
    import re
    for name, src in ccorpus.CORPUS:
        # suffix every file-scope identifier: functions and globals
        idents = set(re.findall(r"\b(?:int|void|struct S)\s*\*?\s*([A-Za-z_]\w*)\s*(?=\(|=|;|\[)", src.split("{")[0] + ";")) if False else set()
        # simple and robust: collect names declared at file scope by a tiny scan
        depth = 0
        tokens = re.findall(r"[A-Za-z_]\w*|\S", src)
        names = set()
        prev = None
        for i, tk in enumerate(tokens):
            if tk == "{":
                depth += 1
            elif tk == "}":
                depth -= 1
            elif depth == 0 and re.match(r"[A-Za-z_]\w*$", tk) and i + 1 < len(tokens) and tokens[i + 1] in ("(", "=", ";", "[") \
                    and tk not in ("int", "void", "struct", "unsigned", "char", "long", "short", "S", "ext", "extl") and prev not in ("struct",):
                names.add(tk)
            prev = tk
        s2 = src
        for n in sorted(names, key=len, reverse=True):
            s2 = re.sub(r"\b%s\b" % n, n + "@", s2)
        s2 = s2.replace("struct S", "struct S@")
        nparams = src.split("int f(")[1].split(")")[0].count("int")
        gl = [n + "@" for n in names if re.search(r"\bint\s+%s\s*(=|;|\[)" % n, src.split("int f(")[0])]
        yield case(s2, "int", ["int"] * nparams, "S", "corpus/" + name, globals_=gl, k=7, cap=49)


S_TEMPLATES = [
    ("if", "int g@; int f@(int a,int b){ int x=0,y=1; if(a<b){ %B } return x*7+y+g@; }"),
    ("if-else", "int g@; int f@(int a,int b){ int x=0,y=1; if(a==b){ %B } else { %C } return x*7+y+g@; }"),
    ("while", "int g@; int f@(int a,int b){ int x=0,y=1; int n=a&3; while(n>0){ %B n--; } return x*7+y+g@; }"),
    ("do", "int g@; int f@(int a,int b){ int x=0,y=1; int n=a&3; do { %B n--; } while(n>0); return x*7+y+g@; }"),
    ("for", "int g@; int f@(int a,int b){ int x=0,y=1; for(int i=0;i<(b&3);i++){ %B } return x*7+y+g@; }"),
    ("for-break", "int g@; int f@(int a,int b){ int x=0,y=1; for(int i=0;i<5;i++){ if(i==(a&7)) break; %B } return x*7+y+g@; }"),
    ("for-continue", "int g@; int f@(int a,int b){ int x=0,y=1; for(int i=0;i<5;i++){ if(i==(a&3)) continue; %B } return x*7+y+g@; }"),
    ("while-continue", "int g@; int f@(int a,int b){ int x=0,y=1; int n=4; while(n-->0){ if(n==(a&3)) continue; %B } return x*7+y+g@; }"),
    ("do-continue", "int g@; int f@(int a,int b){ int x=0,y=1; int n=(a&3)+1; do { n--; if(n==(b&3)) continue; %B } while(n>0); return x*7+y+g@; }"),
    ("do-continue-once", "int g@; int f@(int a,int b){ int x=0,y=1; do { x++; if(x<(a&7)) continue; %B } while(0); return x*7+y+g@; }"),
    ("while-break-nested", "int g@; int f@(int a,int b){ int x=0,y=1; int n=4; while(n>0){ int m=3; n--; while(m>0){ m--; if(m==(a&3)) break; if(n==(b&3)) continue; %B } } return x*7+y+g@; }"),
    ("switch-in-loop-continue", "int g@; int f@(int a,int b){ int x=0,y=1; for(int i=0;i<4;i++){ switch((a+i)&3){ case 0: continue; case 1: %B break; default: y+=i; } x+=3; } return x*7+y+g@; }"),
    ("switch", "int g@; int f@(int a,int b){ int x=0,y=1; switch(a&3){ case 0: %B break; case 1: %C case 2: x+=100; break; default: y=-y; } return x*7+y+g@; }"),
    ("switch-nodefault", "int g@; int f@(int a,int b){ int x=0,y=1; switch(a){ case -1: %B break; case 2147483647: %C break; case 0: x=9; } return x*7+y+g@; }"),
    ("goto-fwd", "int g@; int f@(int a,int b){ int x=0,y=1; if(a>b) goto skip; %B skip: %C return x*7+y+g@; }"),
    ("goto-back", "int g@; int f@(int a,int b){ int x=0,y=1; int n=a&3; again: %B if(n-->0) goto again; return x*7+y+g@; }"),
    ("and", "int g@; int f@(int a,int b){ int x=0,y=1; if(a>0 && ext(b)>0){ %B } return x*7+y+g@; }"),
    ("or", "int g@; int f@(int a,int b){ int x=0,y=1; if(a>0 || ext(b)>0){ %B } return x*7+y+g@; }"),
    ("and-value", "int g@; int f@(int a,int b){ int x=0,y=1; x = (a!=0) && (ext(b)!=1); %B return x*7+y+g@; }"),
    ("ternary-side", "int g@; int f@(int a,int b){ int x=0,y=1; y = a<b ? ext(a) : ext(b)+1; %B return x*7+y+g@; }"),
    ("nested-if", "int g@; int f@(int a,int b){ int x=0,y=1; if(a>0){ if(b>0){ %B } else { %C } } else { x=5; } return x*7+y+g@; }"),
    ("loop-in-if", "int g@; int f@(int a,int b){ int x=0,y=1; if(a&1){ for(int i=0;i<(b&3);i++){ %B } } else { %C } return x*7+y+g@; }"),
    ("if-in-loop", "int g@; int f@(int a,int b){ int x=0,y=1; for(int i=0;i<3;i++){ if((a>>i)&1){ %B } else { %C } } return x*7+y+g@; }"),
    ("call-local", "int g@; int h@(int p,int q){ g@+=p; return p*2-q; } int f@(int a,int b){ int x=0,y=1; x=h@(a&15,b&15); %B y=h@(y&15,x&15); return x*7+y+g@; }"),
    ("recursion", "int g@; int r@(int n,int acc){ if(n<=0) return acc; g@++; return r@(n-1, acc+n); } int f@(int a,int b){ int x=0,y=1; x=r@(a&7,b&7); %B return x*7+y+g@; }"),
]
S_BODIES = ["x=x+a;", "y=x; x=x+1+(a&1);", "y=y*3+b;", "g@=g@+x+1;", "x=ext(y&7); y++;", "x^=b; y-=a&3;"]


def s_templates(depth2=False):
    for name, tpl in S_TEMPLATES:
        two = "%C" in tpl
        for bi, B in enumerate(S_BODIES):
            cs = [S_BODIES[(bi + 1) % len(S_BODIES)]] if not depth2 else S_BODIES
            for C in (cs if two else [""]):
                src = tpl.replace("%B", B).replace("%C", C)
                yield case(src, "int", ["int", "int"], "S", "tpl/" + name, globals_=["g@"])


def aggregates(types=INT_TYPES, extra=True):
    """extra: also yield the sources of the extended families at a reduced grammar bound (for consumers that only want sources and call
    aggregates() without arguments, i.e. C28); C01 / C04 pass extra=False and enumerate the extended families themselves."""
    if extra:
        for c in _aggregates(types):
            yield c
        for c in extended(maxlen={"struct": 1, "array": 2, "array-unsized": 1, "array-2d": 1, "array-of-struct": 1}):
            yield dict(c, feat=c["fam"] + "/" + c["feat"])
        return
    for c in _aggregates(types):
        yield c


def _aggregates(types=INT_TYPES):
    for t in types:
        yield case("struct S@ { char c; %s v; short s; }; long long f@(%s a, int b){ struct S@ s; s.c=1; s.v=a; s.s=(short)b; return (long long)s.v + s.c + s.s; }" % (t, t),
                   "long long", [t, "int"], "A", "struct-field/" + t)
        yield case("struct S@ { %s v; char c; }; struct S@ gs@[2]; long long f@(%s a, int b){ gs@[b&1].v=a; gs@[b&1].c=7; return (long long)gs@[b&1].v + gs@[1-(b&1)].c; }" % (t, t),
                   "long long", [t, "int"], "A", "struct-array-global/" + t, restore=["gs@"])
        yield case("%s t@[4]; long long f@(%s a, int b){ t@[b&3]=a; t@[(b+1)&3]=(%s)(a+1); return (long long)t@[0]+t@[1]+t@[2]+t@[3]; }" % (t, t, t),
                   "long long", [t, "int"], "A", "array-global/" + t, globals_=["t@"])
        yield case("long long f@(%s a, int b){ %s t[3]; %s *p=t; p[0]=a; *(p+1)=(%s)b; p+=2; *p=(%s)(a-b); return (long long)t[0]+t[1]+t[2]+(p-t); }" % (t, t, t, t, t),
                   "long long", [t, "int"], "A", "pointer-arith/" + t)
        yield case("long long f@(%s a, int b){ %s x=a; %s *p=&x; *p=(%s)(*p+1); return x; }" % (t, t, t, t), "long long", [t, "int"], "A", "pointer-deref/" + t)
        yield case("unsigned long f@(%s a){ return sizeof(a) + 100*sizeof(%s[3]); }" % (t, t), "unsigned long", [t], "A", "sizeof/" + t)
    yield case("struct P@ {int x; int y;}; struct P@ mk@(int a,int b){ struct P@ p; p.x=a; p.y=b; return p; } int f@(int a,int b){ struct P@ q = mk@(a,b); struct P@ r = q; r.x++; return q.x*3+q.y+r.x; }",
               "int", ["int", "int"], "A", "struct-by-value")
    yield case("struct P@ {int x; long y; char z;}; long sum@(struct P@ p){ return p.x+p.y+p.z; } long f@(int a,int b){ struct P@ p; p.x=a; p.y=b; p.z=3; return sum@(p); }",
               "long", ["int", "int"], "A", "struct-arg")
    yield case("struct B@ {unsigned a:3; unsigned b:5; int c:4;}; struct B@ bs@; int f@(int a,int b){ bs@.a=a; bs@.b=b; bs@.c=a; return bs@.a + bs@.b*10 + bs@.c*1000; }",
               "int", ["int", "int"], "A", "bitfield", restore=["bs@"])
    yield case("union U@ {int i; unsigned char c[4];}; int f@(int a,int b){ union U@ u; u.i=a; u.c[1]=(unsigned char)b; return u.i; }", "int", ["int", "int"], "A", "union")
    yield case("struct S@ {char a; int b; short c;}; unsigned long f@(int a){ return sizeof(struct S@); }", "unsigned long", ["int"], "A", "sizeof-struct-tail-padding")
    yield case("struct S@ {char a; long b;}; unsigned long f@(int a){ struct S@ t[2]; return (char*)&t[1]-(char*)&t[0]; }", "unsigned long", ["int"], "A", "struct-stride")
    yield case("int m@[3][4]; int f@(int a,int b){ m@[a&1][b&3]=a; m@[2][3]=b; return m@[a&1][b&3]+m@[2][3]+(int)sizeof(m@[0]); }", "int", ["int", "int"], "A", "array-2d", globals_=["m@"])
    yield case("enum E@ {A@, B@=5, C@}; int f@(int a,int b){ enum E@ e = a&1 ? B@ : C@; return e + A@; }", "int", ["int", "int"], "A", "enum")
    yield case("int f@(int a,int b){ const char *s=\"hello\"; return s[a&3] + s[5]; }", "int", ["int", "int"], "A", "string-literal")
    yield case("static int cnt@; int f@(int a,int b){ static int k=3; k+=a&1; cnt@++; return k+cnt@; }", "int", ["int", "int"], "A", "static-local-once", k=1, cap=1)
    yield case("int f@(int a,int b){ int t[4]={1,2}; int u[]={a,b,a+b}; return t[0]+t[1]+t[2]+t[3]+u[2]+(int)(sizeof(u)/sizeof(u[0])); }", "int", ["int", "int"], "A", "array-init")
    yield case("struct S@ {int a; char b; long c;}; int f@(int a,int b){ struct S@ s = {5}; int u[5] = {[3]=7}; return s.a+s.b+(int)s.c+u[0]+u[3]+u[4]+a; }", "int", ["int", "int"], "A", "partial-init")
    yield case("union U@ {char c[5]; int i;}; unsigned long f@(int a){ return sizeof(union U@); }", "unsigned long", ["int"], "A", "sizeof-union-tail-padding")
    yield case("int t@[4]; int k@; int nx@(void){ return k@++ & 3; } int f@(int a,int b){ k@=a&3; t@[nx@()]++; t@[nx@()]--; ++t@[nx@()]; t@[k@++ & 3] += 5; return t@[0]+2*t@[1]+3*t@[2]+4*t@[3]+100*k@; }", "int", ["int", "int"], "A", "incdec-side-effect-lvalue", globals_=["t@"], restore=["k@"])
    yield case("int f@(int a,int b){ int t[4]={0,0,0,0}; int i=a&1; t[i++]++; t[i++]+=2; return t[0]+10*t[1]+100*t[2]+1000*t[3]+10000*i; }", "int", ["int", "int"], "A", "incdec-nested")
    yield case("long long f@(int a,int b){ return (a < 2147483647) + 2*(a / 2147483647) + 4*((-2147483647 - 1) < a) + 8*(a % 0x7fffffff == a) + 16*(long long)(-2147483647 - 1); }", "long long", ["int", "int"], "A", "literal-int-max")
    yield case("long long f@(int a,int b){ return (a < 4294967295) + 2*(a < 2147483648) + 4*(a < 0xffffffff) + 8*(a < 0x80000000) + 16*(a < 9223372036854775807) + 32*(sizeof(2147483648) == 8) + 64*(sizeof(0x80000000) == 4); }", "long long", ["int", "int"], "A", "literal-types")
    yield case("typedef int (*fp@)(int); int inc@(int x){return x+1;} int dbl@(int x){return x*2;} int f@(int a,int b){ fp@ t[2]={inc@,dbl@}; return t[a&1](b&255); }",
               "int", ["int", "int"], "A", "function-pointer-table")


def floats():
    for t in ("float", "double"):
        for op in ["+", "-", "*", "/"]:
            yield case("%s f@(%s a, %s b){ return a %s b; }" % (t, t, t, op), t, [t, t], "F", "%s/%s" % (op, t))
        for op in ["<", "<=", "==", "!=", ">", ">="]:
            yield case("int f@(%s a, %s b){ return a %s b; }" % (t, t, op), "int", [t, t], "F", "%s/%s" % (op, t))
        for it in INT_TYPES:
            yield case("%s f@(%s a){ return (%s)a; }" % (t, it, t), t, [it], "F", "int->float/%s->%s" % (it, t))
            yield case("%s f@(%s a){ return (%s)a; }" % (it, t, it), it, [t], "F", "float->int/%s->%s" % (t, it))
        yield case("%s f@(%s a, int b){ return a * b + 0.5; }" % (t, t), t, [t, "int"], "F", "mixed/" + t)
        yield case("%s f@(%s a){ return -a; }" % (t, t), t, [t], "F", "neg/" + t)
    for t in ("float", "double"):
        yield case("int f@(%s a, int b){ if (a) return 1; return 2; }" % t, "int", [t, "int"], "F", "cond-if/" + t)
        yield case("int f@(%s a, int b){ return (a ? 5 : 7) + (!a) * 10 + (a && b) * 100 + (a || b) * 1000; }" % t, "int", [t, "int"], "F", "cond-ops/" + t)
        yield case("int f@(%s a, int b){ int n = 0; while (a) { a = a - a; n++; } return n; }" % t, "int", [t, "int"], "F", "cond-while/" + t)
    # the converted operand is used again afterwards (a conversion sequence must not change its source)
    for it in INT_TYPES:
        for t in ("float", "double"):
            yield case("%s f@(%s a, int b){ %s d = (%s)a; %s r = (%s)(a >> 1); return d + r + (%s)(a & 7); }" % (t, it, t, t, t, t, t), t, [it, "int"], "F",
                       "int->float/source-used-again/%s->%s" % (it, t))
            yield case("long long f@(%s a, int b){ long long n = (long long)a; %s h = a / 2; return n + (long long)h + (long long)(a + h); }" % (t, t), "long long", [t, "int"], "F",
                       "float->int/source-used-again/%s" % t)
    # initialised arrays of structs whose last member leaves tail padding, and nested ones
    yield case("struct S@ { int i; char c; }; struct S@ ga@[3] = { {1, 2}, {3, 4}, {5} }; int f@(int a, int b){ return ga@[a & 1].i * 100 + ga@[b & 1].c * 10 + ga@[2].i + ga@[2].c + (int)sizeof(ga@); }",
               "int", ["int", "int"], "A", "struct-array-initialised/tail-padding", globals_=["ga@"])
    yield case("struct S@ { unsigned x : 3; char c; }; struct O@ { struct S@ s[2]; short t; }; struct O@ go@[2] = { { { {5, 6}, {7, 8} }, 9 }, { { {1, 2} }, 3 } }; "
               "int f@(int a, int b){ return go@[a & 1].s[b & 1].x * 1000 + go@[a & 1].s[b & 1].c * 10 + go@[b & 1].t; }", "int", ["int", "int"], "A",
               "struct-array-initialised/nested-bitfield", globals_=["go@"])
    # memory operands at displacements around the 8 bit limit (base + 127 / 128 / 129, base - 128 / - 129)
    yield case("struct S@ { char pad[124]; int w; int x; int y; }; struct S@ gb@; int f@(int a, int b){ struct S@ *p = &gb@; p->pad[123] = (char)a; p->w = a - b; p->x = b; p->y = a + b; "
               "return p->x * 3 + p->y + p->pad[123] + p->w * 7; }", "int", ["int", "int"], "A", "struct-field-offset-124-128-132", restore=["gb@"])
    yield case("int arr@[80]; int f@(int a, int b){ int *q = arr@ + 40; q[32] = a; q[31] = b; q[-32] = a - b; q[-33] = a + b; return q[32] - q[-32] * 3 + q[31] * 5 + q[-33] * 7 + arr@[8]; }",
               "int", ["int", "int"], "A", "pointer-index-plus-minus-128", restore=["arr@"])
    yield case("double f@(float a){ return a; }", "double", ["float"], "F", "float->double")
    yield case("float f@(double a){ return (float)a; }", "float", ["double"], "F", "double->float")
    yield case("int f@(double a){ return (int)(a*100.7); }", "int", ["double"], "F", "float->int/truncation")


# =====================================================================================================================
# Extended families (added after a coverage review of C01: parts of C no family above reaches).  The generators above are
# unchanged.  Every case carries "strict": True -> the oracle compiles it with -pedantic-errors and without -w, and any gcc
# error *or warning* excludes the case (gcc is the only judge of validity).  Family codes:
#   GI  initialised objects with static storage (file scope and static locals)      LI  the same for automatic objects
#   CH  character constants and string literals                                     CL  compound literals
#   VA  variadic functions defined and called in the same translation unit          XA  calls across the gcc/ppci ABI boundary
#   SZ  sizeof / __builtin_offsetof / _Alignof                                      ST  statements
#   SV  structures by value (assignment, parameter, return) by size and layout      PT  pointers and function pointers
#   DQ  declarations: typedef chains, enums, qualifiers, storage classes, prototypes
# Bounds are stated at each generator; inside a bound every combination is generated, simplest first.
# Initialiser values are written '#n#'; they render as the constant n, or as the run-time expression (a+n) / (b+n).
# =====================================================================================================================
import re as _re

ULL = "unsigned long long"
VA_PRE = ("#ifdef __GNUC__\n#define VA_START(a,f) __builtin_va_start(a,f)\n#define VA_END(a) __builtin_va_end(a)\n#else\n"
          "#define VA_START(a,f) __builtin_va_start(a)\n#define VA_END(a)\n#endif\n")
RT_VECTORS = [[0, 0], [1, 2], [-7, 100], [2147483647, -2147483647 - 1], [-1, -1]]


def xcase(src, ret, params, fam, feat, globals_=(), restore=(), k=5, cap=9, vecs=None, split=None):
    c = case(src, ret, params, fam, feat, globals_, k, cap, restore)
    if vecs is not None:
        c["vectors"] = [list(v) for v in vecs]
    c["strict"] = True
    if split:
        c["split"] = split
    loc = _locus(fam, feat)
    if loc != feat:
        c["locus"] = loc
    return c


def _char_class(c):
    if not c.startswith("\\"):
        return "plain"
    if c[1] == "x":
        return "hex-high" if int(c[2:], 16) >= 128 else "hex"
    if c[1] in "01234567":
        return "octal-high" if int(c[1:], 8) >= 128 else "octal"
    return "simple-escape"


def _va_class(seq):
    sizes = {"i": 4, "u": 4, "l": 8, "d": 8, "p": 8, "s": 8, "c": 4, "h": 4, "f": 8}
    if not seq or seq == "none":
        return "no-arguments"
    if set(seq) - set(sizes):
        return seq
    cls = []
    if set(seq) & set("ch"):
        cls.append("char-short-promoted")
    if "f" in seq:
        cls.append("float-promoted")
    ss = {sizes[k] for k in seq}
    cls.append("all-4-byte" if ss == {4} else "all-8-byte" if ss == {8} else ("4-byte-first-then-8" if sizes[seq[0]] == 4 else "8-byte-first-then-4"))
    if "d" in seq or "f" in seq:
        cls.append("with-double")
    return "+".join(cls) + ("/more-than-6" if len(seq) > 6 else "")


def _locus(fam, feat):
    """The part of a violation key that names the feature: coarse enough that one defect gives few keys."""
    parts = feat.split("/")
    if fam == "CH" and parts[0] == "char-constant":
        return "/".join(parts[:2]) + "/" + _char_class("/".join(parts[2:]))
    if fam in ("GI", "LI") and len(parts) == 3 and parts[1] in SHAPES:
        return "/".join(parts[:2]) + "/{" + ",".join(sorted(set(_re.split(r",(?![^{]*\})", parts[2])))) + "}"
    if fam in ("GI", "LI") and parts[1] in ("member", "member-implicit-zero", "array-implicit-zero"):
        return "/".join(parts[:3])
    if fam == "VA" and parts[0] in ("fixed", "promoted", "run", "mixed", "format-driven"):
        return parts[0] + "/" + _va_class(parts[-1] if parts[0] != "run" else parts[1] * int(parts[2]))
    if fam == "VA" and parts[0] == "named-prefix":
        return "/".join(parts[:2]) + "/" + _va_class(parts[2])
    if fam == "XA" and parts[0] == "variadic":
        return "/".join(parts[:2]) + "/" + _va_class(parts[2])
    if fam == "SZ" and parts[0] == "sizeof-expression" and parts[1] == "binary":
        def cls(t):
            from vf.oracles.gccrun import BITS, is_unsigned
            if t not in BITS:
                return t
            return ("u" if is_unsigned(t) else "s") + ("<int" if BITS[t] < 32 else ("int" if BITS[t] == 32 else ">int"))
        return "/".join(parts[:2]) + "/" + cls(parts[2]) + "/" + cls(parts[3])
    return feat


def _render(text, rt):
    n = [0]

    def sub(m):
        n[0] += 1
        if not rt:
            return m.group(1)
        return "(%s+%s)" % ("ab"[n[0] & 1], m.group(1))
    return _re.sub(r"#(-?\d+)#", sub, text)


def _acc(expr):
    return " r = r * 31u + (%s)(long long)(%s);" % (ULL, expr)


def _readout(leaves):
    return "".join(_acc(e) for e in leaves)


STORAGES = ["global", "static-local", "local", "local-rt"]
_FAM_OF = {"global": "GI", "static-local": "GI", "local": "LI", "local-rt": "LI"}


def init_case(storage, types, decl, init, leaves, feat, extra_globals="", byte_global=None):
    """One initialised object `decl = init;` with the given storage; f@ returns a hash over the listed scalar lvalues."""
    rt = storage == "local-rt"
    ini = _render(init, rt)
    obj = "%s = %s;" % (decl, ini)
    body = " %s r = 0;%s return r; }" % (ULL, _readout(leaves))
    head = types + extra_globals
    if storage == "global":
        src = head + " " + obj + " %s f@(void){" % ULL + body
        params, vecs = [], None
    elif storage == "static-local":
        src = head + " %s f@(void){ static %s" % (ULL, obj) + body
        params, vecs = [], None
    elif storage == "local":
        src = head + " %s f@(void){ %s" % (ULL, obj) + body
        params, vecs = [], None
    else:
        src = head + " %s f@(int a, int b){ %s" % (ULL, obj) + body
        params, vecs = ["int", "int"], RT_VECTORS
    gl = [byte_global] if (byte_global and storage == "global") else []
    return xcase(src, ULL, params, _FAM_OF[storage], storage + "/" + feat, globals_=gl, vecs=vecs)


def seqs(menu, maxlen, minlen=1):
    for n in range(minlen, maxlen + 1):
        for s in itertools.product(range(len(menu)), repeat=n):
            yield s


# --- the designator / brace grammar over four object shapes --------------------------------------------------------
SHAPES = {
    # name: (type definitions, declaration, scalar leaves, item menu [(label, text)], byte-comparable)
    "struct": ("struct I@ { char c; short d; }; struct D@ { int a; int b[3]; struct I@ in; long e; };", "struct D@ o@",
               ["o@.a", "o@.b[0]", "o@.b[1]", "o@.b[2]", "o@.in.c", "o@.in.d", "o@.e"],
               [("pos", "#11#"), (".a", ".a=#12#"), (".b[1]", ".b[1]=#13#"), (".b={}", ".b={#14#,#15#}"), (".in.d", ".in.d=#16#"),
                (".in={}", ".in={#17#,#18#}"), (".e", ".e=#19#"), (".b[2]", ".b[2]=#20#"), ("{}", "{#21#,#22#}"), (".in.c", ".in.c=#23#")], False),
    "array": ("", "int o@[4]", ["o@[0]", "o@[1]", "o@[2]", "o@[3]"],
              [("pos", "#1#"), ("[2]", "[2]=#2#"), ("[0]", "[0]=#3#"), ("[3]", "[3]=#4#"), ("[1]", "[1]=#5#")], True),
    "array-unsized": ("", "int o@[]", ["(long long)sizeof(o@)", "o@[0]", "o@[sizeof(o@)/sizeof(o@[0])-1]", "o@[(sizeof(o@)/sizeof(o@[0]))/2]"],
                      [("pos", "#1#"), ("[2]", "[2]=#2#"), ("[0]", "[0]=#3#"), ("[3]", "[3]=#4#"), ("[1]", "[1]=#5#")], True),
    "array-2d": ("", "int o@[2][3]", ["o@[%d][%d]" % (i, j) for i in range(2) for j in range(3)],
                 [("pos", "#1#"), ("{,}", "{#2#,#3#}"), ("[1]={}", "[1]={#4#}"), ("[1][2]", "[1][2]=#5#"), ("[0][1]", "[0][1]=#6#"), ("{}", "{#7#}")], True),
    "array-of-struct": ("struct Q@ { char c; int i; };", "struct Q@ o@[3]", ["o@[%d].%s" % (i, m) for i in range(3) for m in "ci"],
                        [("pos", "#1#"), ("{,}", "{#2#,#3#}"), ("[1]={}", "[1]={#4#}"), ("[2].i", "[2].i=#5#"), ("[0]={.i}", "[0]={.i=#6#}"), ("{.c}", "{.c=#7#}")], False),
}


def init_grammar(shape, storage, maxlen):
    """Every initialiser-item sequence of length 1..maxlen over the shape's menu (gcc discards the invalid ones)."""
    types, decl, leaves, menu, bytewise = SHAPES[shape]
    for s in seqs(menu, maxlen):
        init = "{ " + ", ".join(menu[i][1] for i in s) + " }"
        feat = shape + "/" + ",".join(menu[i][0] for i in s)
        yield init_case(storage, types, decl, init, leaves, feat, byte_global="o@" if bytewise else None)


# --- one member of every type -------------------------------------------------------------------------------------------
def init_member_types(storage):
    rt = storage == "local-rt"
    for t in INT_TYPES + ["float", "double"]:
        if rt:
            vals = ["(%s)a" % t, "(%s)b" % t]
        elif is_float(t):
            vals = ["1.5", "-0.25", "3"]
        else:
            vals = [str(v) if v >= 0 else "(-%d-1)" % (-v - 1) for v in V(t, 5)[2:5]]
            if t.startswith("unsigned l"):
                vals = [v + "u" for v in vals]
        for vi, v in enumerate(vals):
            leaf = "o@.v" if not is_float(t) else "o@.v*4"
            c = init_case(storage, "struct M@ { char c; %s v; short s; };" % t, "struct M@ o@", "{ #1#, %s, #3# }" % v, ["o@.c", leaf, "o@.s"],
                          "member/%s/%d" % (t, vi))
            yield c
        # partial initialiser: the member of type t is implicitly zero; array of t with a partial list
        yield init_case(storage, "struct M@ { char c; %s v; short s; };" % t, "struct M@ o@", "{ #1# }", ["o@.c", "o@.v", "o@.s"], "member-implicit-zero/" + t)
        yield init_case(storage, "", "%s o@[3]" % t, "{ #1# }", ["o@[0]", "o@[1]", "o@[2]"], "array-implicit-zero/" + t)
    H = [
        ("char-pointer/string", "struct M@ { char c; char *p; short s; };", "", "{ #1#, \"xy\", #3# }", ["o@.c", "o@.p[0]", "o@.p[1]", "o@.p[2]", "o@.s"]),
        ("char-pointer/null", "struct M@ { char c; char *p; short s; };", "", "{ #1#, 0, #3# }", ["o@.c", "o@.p == 0", "o@.s"]),
        ("int-pointer/address", "struct M@ { char c; int *p; short s; };", " int gv@ = 77;", "{ #1#, &gv@, #3# }", ["o@.c", "*o@.p", "o@.s"]),
        ("int-pointer/element-address", "struct M@ { char c; int *p; short s; };", " int ga@[4] = {5, 6, 7, 8};", "{ #1#, &ga@[2], #3# }", ["o@.c", "*o@.p", "o@.p[-1]", "o@.s"]),
        ("int-pointer/array-plus", "struct M@ { char c; int *p; short s; };", " int ga@[4] = {5, 6, 7, 8};", "{ #1#, ga@ + 1, #3# }", ["o@.c", "*o@.p", "o@.s"]),
        ("int-pointer/member-address", "struct M@ { char c; int *p; short s; };", " struct G@ { int x; int y; } gs@ = {3, 4};", "{ #1#, &gs@.y, #3# }", ["o@.c", "*o@.p", "o@.s"]),
        ("enum", "enum E@ { A@, B@ = 5, C@ }; struct M@ { char c; enum E@ e; short s; };", "", "{ #1#, C@, #3# }", ["o@.c", "o@.e", "o@.s"]),
        ("function-pointer", "struct M@ { char c; int (*fn)(int); short s; };", " static int inc@(int x){ return x + 1; }", "{ #1#, inc@, #3# }", ["o@.c", "o@.fn(4)", "o@.s"]),
        ("bit-fields", "struct M@ { unsigned a : 3; int b : 5; unsigned c : 9; char d; };", "", "{ #5#, -3, #300#, #7# }", ["o@.a", "o@.b", "o@.c", "o@.d"]),
        ("bit-fields/unnamed", "struct M@ { unsigned a : 3; unsigned : 5; unsigned c : 4; char d; };", "", "{ #5#, #9#, #7# }", ["o@.a", "o@.c", "o@.d"]),
        ("bit-fields/designated", "struct M@ { unsigned a : 3; int b : 5; unsigned c : 9; char d; };", "", "{ .c = #300#, .a = #5# }", ["o@.a", "o@.b", "o@.c", "o@.d"]),
        ("bit-fields/long", "struct M@ { unsigned long a : 33; long b : 20; int c; };", "", "{ #5#, -3, #7# }", ["o@.a", "o@.b", "o@.c"]),
        ("nested-3", "struct A@ { char x; short y[2]; }; struct B@ { struct A@ a[2]; int k; }; struct M@ { long z; struct B@ b; };", "",
         "{ #1#, { { { #2#, { #3#, #4# } }, { #5# } }, #6# } }", ["o@.z", "o@.b.a[0].x", "o@.b.a[0].y[0]", "o@.b.a[0].y[1]", "o@.b.a[1].x", "o@.b.a[1].y[1]", "o@.b.k"]),
        ("nested-3/designated-path", "struct A@ { char x; short y[2]; }; struct B@ { struct A@ a[2]; int k; }; struct M@ { long z; struct B@ b; };", "",
         "{ .b.a[1].y[1] = #3#, .b.k = #4#, .z = #5#, .b.a[0].x = #6# }", ["o@.z", "o@.b.a[0].x", "o@.b.a[0].y[0]", "o@.b.a[1].x", "o@.b.a[1].y[1]", "o@.b.k"]),
        ("nested-3/designated-then-positional", "struct A@ { char x; short y[2]; }; struct B@ { struct A@ a[2]; int k; }; struct M@ { long z; struct B@ b; };", "",
         "{ .b.a[0].y[1] = #3#, #4#, #5# }", ["o@.z", "o@.b.a[0].y[1]", "o@.b.a[1].x", "o@.b.a[1].y[0]", "o@.b.a[1].y[1]", "o@.b.k"]),
        ("brace-elision/struct-array-int", "struct M@ { int a[2]; int b; };", "", "{ #1#, #2#, #3# }", ["o@.a[0]", "o@.a[1]", "o@.b"]),
        ("brace-elision/struct-struct", "struct A@ { char x; int y; }; struct M@ { struct A@ p; struct A@ q; long r; };", "", "{ #1#, #2#, #3#, #4#, #5# }",
         ["o@.p.x", "o@.p.y", "o@.q.x", "o@.q.y", "o@.r"]),
        ("brace-elision/partial-inner", "struct A@ { char x; int y; }; struct M@ { struct A@ p; struct A@ q; long r; };", "", "{ { #1# }, #2#, #3#, #4# }",
         ["o@.p.x", "o@.p.y", "o@.q.x", "o@.q.y", "o@.r"]),
        ("float-member-from-int", "struct M@ { float f; double d; int i; };", "", "{ #1#, #2#, #3# }", ["o@.f*2", "o@.d*2", "o@.i"]),
        ("int-member-from-float-constant", "struct M@ { int i; char c; long l; };", "", "{ 2.75, 65.5, -3.5 }", ["o@.i", "o@.c", "o@.l"]),
        ("constant-expression-values", "enum E@ { K@ = 3 }; struct M@ { int i; long l; unsigned u; };", "",
         "{ K@ * 2 + (int)sizeof(long), (long)1 << 40, -1 }", ["o@.i", "o@.l", "o@.u"]),
        ("trailing-comma", "struct M@ { int i; int j; };", "", "{ #1#, #2#, }", ["o@.i", "o@.j"]),
        ("scalar-in-braces", "struct M@ { int i; int j; };", "", "{ { #1# }, #2# }", ["o@.i", "o@.j"]),
        ("pointer-array/strings", "struct M@ { char *t[3]; int n; };", "", "{ { \"x\", \"yz\" }, #3# }", ["o@.t[0][0]", "o@.t[1][1]", "o@.t[2] == 0", "o@.n"]),
        ("packed-chars", "struct M@ { char a; char b; char c; };", "", "{ #1#, #2#, #3# }", ["o@.a", "o@.b", "o@.c"]),
        ("array-of-array-of-struct", "struct A@ { short h; char c; };", "", None, None),
    ]
    for name, types, extra, init, leaves in H:
        if init is None:
            yield init_case(storage, types, "struct A@ o@[2][2]", "{ { { #1#, #2# }, { #3# } }, { [1] = { .c = #4# } } }",
                            ["o@[%d][%d].%s" % (i, j, m) for i in range(2) for j in range(2) for m in "hc"], name)
            continue
        yield init_case(storage, types, "struct M@ o@", init, leaves, name, extra_globals=extra)


def init_unions(storage):
    U = "struct W@ { short a; short b; }; union U@ { int i; char c[4]; long l; struct W@ s; double d; };"
    forms = [
        ("first-member", "union U@ o@", "{ #5# }", ["o@.i"]),
        ("designated/int", "union U@ o@", "{ .i = #6# }", ["o@.i"]),
        ("designated/char-array", "union U@ o@", "{ .c = { #1#, #2#, #3#, #4# } }", ["o@.c[0]", "o@.c[1]", "o@.c[2]", "o@.c[3]"]),
        ("designated/char-array-string", "union U@ o@", "{ .c = \"abc\" }", ["o@.c[0]", "o@.c[1]", "o@.c[2]", "o@.c[3]"]),
        ("designated/char-array-element", "union U@ o@", "{ .c[2] = #9# }", ["o@.c[2]"]),
        ("designated/long", "union U@ o@", "{ .l = #7# }", ["o@.l"]),
        ("designated/long-wide", "union U@ o@", "{ .l = 0x123456789abcdef }", ["o@.l"]),
        ("designated/struct", "union U@ o@", "{ .s = { #1#, #2# } }", ["o@.s.a", "o@.s.b"]),
        ("designated/struct-path", "union U@ o@", "{ .s.b = #3# }", ["o@.s.b"]),
        ("designated/double", "union U@ o@", "{ .d = 2.5 }", ["o@.d*2"]),
        ("designated/override-last-wins", "union U@ o@", "{ .i = #1#, .l = #2# }", ["o@.l"]),
        ("in-struct/first", "struct H@ { char t; union U@ u; int z; } o@", "{ #1#, { #2# }, #3# }", ["o@.t", "o@.u.i", "o@.z"]),
        ("in-struct/designated", "struct H@ { char t; union U@ u; int z; } o@", "{ #1#, { .l = #2# }, #3# }", ["o@.t", "o@.u.l", "o@.z"]),
        ("in-struct/path", "struct H@ { char t; union U@ u; int z; } o@", "{ .u.s.b = #2#, .z = #3# }", ["o@.t", "o@.u.s.b", "o@.z"]),
        ("array-of-unions", "union U@ o@[3]", "{ { #1# }, { .l = #2# }, { .c = { #3#, #4# } } }", ["o@[0].i", "o@[1].l", "o@[2].c[0]", "o@[2].c[1]"]),
        ("array-of-unions/elided", "union U@ o@[3]", "{ #1#, #2# }", ["o@[0].i", "o@[1].i", "o@[2].i"]),
        ("small-first-member", "union V@ { char c; long l; } o@", "{ #65# }", ["o@.c"]),
        ("small-first-member/array", "union V@ { char c; long l; } o@[2]", "{ { #65# }, { .l = #66# } }", ["o@[0].c", "o@[1].l"]),
        ("anonymous-member", "struct N@ { int tag; union { int i; short h[2]; }; } o@", "{ #1#, { #2# } }", ["o@.tag", "o@.i"]),
        ("anonymous-member/designated", "struct N@ { int tag; union { int i; short h[2]; }; } o@", "{ .h = { #2#, #3# }, .tag = #1# }", ["o@.tag", "o@.h[0]", "o@.h[1]"]),
    ]
    for name, decl, init, leaves in forms:
        yield init_case(storage, U, decl, init, leaves, "union/" + name)


def init_strings(storage):
    if storage == "local-rt":
        return
    forms = [
        ("fits-with-nul", "char o@[4]", "\"abc\""), ("exact-no-nul", "char o@[3]", "\"abc\""), ("shorter", "char o@[8]", "\"abc\""),
        ("unsized", "char o@[]", "\"abc\""), ("unsized-empty", "char o@[]", "\"\""), ("one-empty", "char o@[1]", "\"\""),
        ("braced", "char o@[]", "{ \"abc\" }"), ("braced-sized", "char o@[6]", "{ \"ab\" }"), ("embedded-nul", "char o@[]", "\"a\\0b\""),
        ("escapes", "char o@[]", "\"a\\n\\t\\\\\\\"\\x41\\101\\7\\'\\?\""), ("adjacent", "char o@[]", "\"ab\" \"cd\""),
        ("adjacent-hex-boundary", "char o@[]", "\"\\x4\" \"1\""), ("octal-boundary", "char o@[]", "\"\\1012\\08\""),
        ("unsigned-high", "unsigned char o@[]", "\"\\377\\200\\x80\""), ("signed-high", "signed char o@[]", "\"\\377\\200\\x80\""),
        ("plain-high", "char o@[3]", "\"\\377\\200\""), ("char-list", "char o@[4]", "{ 'a', 'b', 99 }"), ("char-list-unsized", "char o@[]", "{ 'a', 0, 'c' }"),
        ("char-designated", "char o@[6]", "{ [4] = 'x', [1] = 'y' }"),
        ("2d", "char o@[2][4]", "{ \"ab\", \"cde\" }"), ("2d-unsized", "char o@[][3]", "{ \"ab\", \"c\", \"xyz\" }"), ("2d-elided-chars", "char o@[2][2]", "{ 'a', 'b', 'c', 'd' }"),
        ("2d-designated", "char o@[3][4]", "{ [2] = \"zz\", [0] = \"a\" }"),
    ]
    for name, decl, init in forms:
        yield _string_case(storage, name, decl, init)
    S = [
        ("pointer", "const char *o@", "\"hello\"", ["o@[0]", "o@[4]", "o@[5]"]),
        ("pointer-plus", "const char *o@", "\"hello\" + 2", ["o@[0]", "o@[-1]", "o@[3]"]),
        ("pointer-element-address", "const char *o@", "&\"hello\"[1]", ["o@[0]", "o@[4]"]),
        ("pointer-array", "char *o@[]", "{ \"x\", \"yz\", 0 }", ["(long long)sizeof(o@)", "o@[0][0]", "o@[0][1]", "o@[1][1]", "o@[1][2]", "o@[2] == 0"]),
        ("pointer-array-designated", "const char *o@[4]", "{ [2] = \"two\", [0] = \"zero\" }", ["o@[0][3]", "o@[1] == 0", "o@[2][1]", "o@[3] == 0"]),
        ("struct-char-array", "struct N@ { char n[4]; int k; } o@", "{ \"ab\", 5 }", ["o@.n[0]", "o@.n[1]", "o@.n[2]", "o@.n[3]", "o@.k"]),
        ("struct-char-array-exact", "struct N@ { char n[3]; char k; } o@", "{ \"abc\", 5 }", ["o@.n[0]", "o@.n[2]", "o@.k"]),
        ("struct-char-array-elided", "struct N@ { char n[4]; int k; } o@", "{ 'a', 'b', 'c', 'd', 5 }", ["o@.n[0]", "o@.n[3]", "o@.k"]),
        ("struct-char-array-designated", "struct N@ { int k; char n[6]; } o@", "{ .n = \"xyz\", .k = 2 }", ["o@.n[0]", "o@.n[2]", "o@.n[3]", "o@.n[5]", "o@.k"]),
        ("array-of-struct-strings", "struct N@ { char n[3]; short k; } o@[2]", "{ { \"ab\", 1 }, { \"cde\", 2 } }", ["o@[0].n[1]", "o@[0].n[2]", "o@[0].k", "o@[1].n[2]", "o@[1].k"]),
        ("struct-string-pointer", "struct N@ { const char *p; int k; } o@[2]", "{ { \"ab\", 1 }, { \"cde\" } }", ["o@[0].p[1]", "o@[0].k", "o@[1].p[2]", "o@[1].k"]),
        ("same-literal-twice", "const char *o@[2]", "{ \"dup\", \"dup\" }", ["o@[0][2]", "o@[1][0]"]),
    ]
    for name, decl, init, leaves in S:
        yield init_case(storage, "", decl, init, leaves, "string/" + name)


def _string_case(storage, name, decl, init):
    var = decl.split("o@")[0]
    obj = "%s = %s;" % (decl, init)
    body = (" %s r = 0; unsigned long i; const unsigned char *p = (const unsigned char *)o@; for (i = 0; i < sizeof(o@); i++) r = r * 31u + p[i];"
            " r = r * 31u + sizeof(o@); r = r * 31u + (%s)(long long)((char *)o@)[0]; return r; }" % (ULL, ULL))
    if storage == "global":
        src = obj + " %s f@(void){" % ULL + body
    elif storage == "static-local":
        src = "%s f@(void){ static %s" % (ULL, obj) + body
    else:
        src = "%s f@(void){ %s" % (ULL, obj) + body
    return xcase(src, ULL, [], _FAM_OF[storage], storage + "/string/" + name, globals_=["o@"] if storage == "global" else [])


def init_family(storage, maxlen=None, shapes=None):
    """All initialiser cases for one storage class.  maxlen: {shape: item-sequence length bound}."""
    maxlen = maxlen or {"struct": 2, "array": 3, "array-unsized": 2, "array-2d": 2, "array-of-struct": 2}
    for c in init_member_types(storage):
        yield c
    for c in init_unions(storage):
        yield c
    for c in init_strings(storage):
        yield c
    for sh in (shapes or list(SHAPES)):
        for c in init_grammar(sh, storage, maxlen.get(sh, 2)):
            yield c


# --- character constants and string literals in expressions ---------------------------------------------------------------
CHAR_CONSTS = ["a", "z", "0", " ", "~", "\\n", "\\t", "\\\\", "\\'", "\"", "\\\"", "\\0", "\\a", "\\b", "\\f", "\\r", "\\v", "\\?", "\\x41", "\\x7f", "\\x80", "\\xff",
               "\\377", "\\200", "\\101", "\\7", "\\07", "\\007", "\\x0a", "\\x00041"]
STR_LITS = [("plain", "\"abc\""), ("empty", "\"\""), ("adjacent", "\"ab\" \"cd\""), ("adjacent-3", "\"a\" \"\" \"bc\""), ("escapes", "\"\\x41\\n\\0z\""),
            ("embedded-nul", "\"a\\0b\""), ("high", "\"\\377\\x80\""), ("octal-digits", "\"\\1012\""), ("hex-then-adjacent", "\"\\x4\" \"1\""), ("quote", "\"\\\"'\\\\\"")]


def chars_strings():
    for c in CHAR_CONSTS:
        lit = "'%s'" % c
        name = c
        yield xcase("long long f@(int a){ return %s + (long long)a * 1000; }" % lit, "long long", ["int"], "CH", "char-constant/value/" + name, vecs=[[0], [1]])
        yield xcase("int g@ = %s; char h@ = %s; unsigned char u@ = %s; long long f@(void){ return g@ * 65536LL + h@ * 256 + u@; }" % (lit, lit, lit), "long long", [], "CH",
                    "char-constant/static-initialiser/" + name)
        yield xcase("long long f@(int a){ switch (a) { case %s: return 1; case 'Q': return 2; default: return 3; } }" % lit, "long long", ["int"], "CH",
                    "char-constant/case-label/" + name, vecs=[[0], [10], [65], [81], [255], [-1], [97], [128], [-128], [127], [7], [39], [34], [92], [63]])
        yield xcase("int t@[(%s & 15) + 1]; enum E@ { K@ = %s }; long long f@(void){ return (long long)sizeof(t@) * 1000 + K@; }" % (lit, lit), "long long", [], "CH",
                    "char-constant/constant-context/" + name)
        yield xcase("long long f@(int a){ char c = %s; unsigned char u = %s; return (c == %s) + 2 * (u == %s) + 4 * (c < 0) + 8 * (int)sizeof(%s) + 100 * (a + c); }" % (lit, lit, lit, lit, lit),
                    "long long", ["int"], "CH", "char-constant/compare-narrow/" + name, vecs=[[0], [3]])
    for name, s in STR_LITS:
        yield xcase("long long f@(int a){ return %s[a]; }" % s, "long long", ["int"], "CH", "string-literal/index/" + name, vecs=[[0], [1], [2], [3], [4]])
        yield xcase("long long f@(void){ return sizeof %s; }" % s, "long long", [], "CH", "string-literal/sizeof/" + name)
        yield xcase("long long f@(void){ return sizeof(%s) * 10 + sizeof(%s[0]); }" % (s, s), "long long", [], "CH", "string-literal/sizeof-paren/" + name)
        yield xcase("int t@[sizeof %s + 1]; enum E@ { K@ = sizeof(%s) }; long long g@ = sizeof %s; long long f@(void){ return (long long)sizeof(t@) * 10000 + K@ * 100 + g@; }" % (s, s, s),
                    "long long", [], "CH", "string-literal/sizeof-constant-context/" + name)
        yield xcase("long long f@(void){ const char *p = %s; long long r = 0; unsigned long i; for (i = 0; i < sizeof %s; i++) r = r * 31 + (unsigned char)p[i]; return r; }" % (s, s),
                    "long long", [], "CH", "string-literal/all-bytes/" + name)
        yield xcase("static long long len@(const char *s){ long long n = 0; while (*s++) n++; return n; } long long f@(void){ return len@(%s); }" % s, "long long", [], "CH",
                    "string-literal/argument/" + name)
        yield xcase("long long f@(void){ return *%s + 2 * *(%s + 1 - 1); }" % (s, s), "long long", [], "CH", "string-literal/deref/" + name)
    yield xcase("long long f@(int a, int b){ const char *s = a > 0 ? \"yes\" : \"no\"; return s[b & 1] + s[2 - (a <= 0)]; }", "long long", ["int", "int"], "CH", "string-literal/conditional")
    yield xcase("long long f@(int a){ const char *t[] = { \"zero\", \"one\", \"two\" }; return t[a][0] + t[a][2]; }", "long long", ["int"], "CH", "string-literal/local-table", vecs=[[0], [1], [2]])
    yield xcase("long long f@(int a){ return \"0123456789abcdef\"[a & 15] + (\"xyz\" + 1)[a & 1] + (&\"pq\"[1])[0]; }", "long long", ["int"], "CH", "string-literal/pointer-forms", vecs=[[0], [9], [15], [-1]])
    yield xcase("long long f@(int a){ char buf[8]; const char *s = \"copy me\"; int i; for (i = 0; i < 8; i++) buf[i] = s[i]; buf[a & 7] = '#'; return buf[0] + buf[3] * 3 + buf[6] * 5 + buf[7]; }",
                "long long", ["int"], "CH", "string-literal/copy-loop", vecs=[[0], [3], [6], [7]])
    yield xcase("long long f@(void){ return sizeof(\"abc\") + sizeof(char[sizeof \"ab\"]) + (long long)sizeof(&\"abc\") * 100 + sizeof(*\"abc\") * 10000; }", "long long", [], "CH", "string-literal/sizeof-forms")


# --- compound literals --------------------------------------------------------------------------------------------------------
def compound_literals():
    P = "struct P@ { int x; int y; }; "
    L = [
        ("struct/initialise", P + "long long f@(int a, int b){ struct P@ p = (struct P@){ a, b }; return p.x * 3LL + p.y; }"),
        ("struct/assign", P + "long long f@(int a, int b){ struct P@ p; p = (struct P@){ a, b }; p = (struct P@){ p.y, p.x }; return p.x * 3LL + p.y; }"),
        ("struct/member", P + "long long f@(int a, int b){ return (struct P@){ a, b }.y * 2LL + (struct P@){ .y = a }.x; }"),
        ("struct/designated", P + "long long f@(int a, int b){ struct P@ p = (struct P@){ .y = a, .x = b }; return p.x * 3LL + p.y; }"),
        ("struct/partial", P + "long long f@(int a, int b){ struct P@ p = (struct P@){ a }; return p.x * 3LL + p.y + b; }"),
        ("struct/argument", P + "static long long s@(struct P@ p){ return p.x * 3LL + p.y; } long long f@(int a, int b){ return s@((struct P@){ a, b }); }"),
        ("struct/pointer-argument", P + "static long long s@(const struct P@ *p){ return p->x * 3LL + p->y; } long long f@(int a, int b){ return s@(&(struct P@){ a, b }); }"),
        ("struct/return", P + "static struct P@ mk@(int a, int b){ return (struct P@){ b, a }; } long long f@(int a, int b){ struct P@ p = mk@(a, b); return p.x * 3LL + p.y; }"),
        ("struct/address-modify", P + "long long f@(int a, int b){ struct P@ *p = &(struct P@){ a, b }; p->x += 1; p->y = p->x; return p->x * 3LL + p->y; }"),
        ("struct/nested", "struct I@ { char c; short d[2]; }; struct O@ { struct I@ in; long e; }; long long f@(int a, int b){ struct O@ o = (struct O@){ { (char)a, { 1, (short)b } }, 7 }; "
         "return o.in.c + o.in.d[0] * 3 + o.in.d[1] * 5 + o.e * 7; }"),
        ("struct/file-scope-pointer", P + "struct P@ *gp@ = &(struct P@){ 5, 6 }; long long f@(int a, int b){ gp@->x += a & 1; return gp@->x * 3LL + gp@->y + b; }"),
        ("struct/file-scope-value", P + "struct P@ gq@ = (struct P@){ 5, 6 }; long long f@(int a, int b){ return gq@.x * 3LL + gq@.y + a + b; }"),
        ("array/index", "long long f@(int a, int b){ return (int[]){ 1, 2, 3 }[a & 1] + b; }"),
        ("array/run-time-values", "long long f@(int a, int b){ return (int[]){ a, b, a + 1 }[b & 1] + (long long)(int[3]){ a }[2]; }"),
        ("array/pointer", "long long f@(int a, int b){ int *p = (int[]){ a, b, 7 }; p[1] += 1; return p[0] + p[1] * 3LL + p[2] * 5; }"),
        ("array/sizeof", "long long f@(int a, int b){ return sizeof((int[]){ 1, 2, 3 }) + sizeof((char[]){ \"abc\" }) * 100 + a + b; }"),
        ("array/designated", "long long f@(int a, int b){ int *p = (int[5]){ [3] = a, [1] = b }; return p[0] + p[1] * 3LL + p[3] * 5 + p[4]; }"),
        ("array/chars", "long long f@(int a, int b){ const char *s = (char[]){ \"hey\" }; return s[a & 3] + b; }"),
        ("array/file-scope", "int *gp@ = (int[]){ 5, 6, 7 }; long long f@(int a, int b){ return gp@[a & 1] + gp@[2] + b; }"),
        ("array/file-scope-in-struct", "struct T@ { int n; int *v; } gt@ = { 3, (int[]){ 4, 5, 6 } }; long long f@(int a, int b){ return gt@.v[a & 1] + gt@.v[gt@.n - 1] + b; }"),
        ("array/as-argument", "static long long sum@(const int *v, int n){ long long s = 0; while (n-- > 0) s += v[n]; return s; } long long f@(int a, int b){ return sum@((int[]){ a, b, 3, 4 }, 4); }"),
        ("scalar/value", "long long f@(int a, int b){ return (int){ a } + (long){ b } * 2; }"),
        ("scalar/address", "long long f@(int a, int b){ int *p = &(int){ a }; *p += b & 7; return *p; }"),
        ("scalar/loop-fresh-each-iteration", "long long f@(int a, int b){ long long s = 0; int i; for (i = 0; i < 3; i++){ int *p = &(int){ a & 7 }; *p += i; s = s * 10 + *p; } return s + b; }"),
        ("union/designated", "union U@ { int i; char c[4]; }; long long f@(int a, int b){ return (union U@){ .i = a }.i + (union U@){ .c = { 1, 2 } }.c[1] + b; }"),
    ]
    for name, src in L:
        c = xcase(src, "long long", ["int", "int"], "CL", name, k=5, cap=9)
        if name == "struct/file-scope-pointer":
            c["vectors"] = [[1, 2]]  # the unnamed static object is modified: one call per process / interpreter instance
        yield c


# --- variadic functions ----------------------------------------------------------------------------------------------------------
# argument kinds: letter -> (type read by va_arg, expression passed by the caller built from a, b and position i, accumulate expression over x)
VA_KINDS = {
    "i": ("int", "(a + %d)", "x"),
    "u": ("unsigned", "((unsigned)b + %du)", "x"),
    "l": ("long", "((long)a * 1000003L + %d)", "x"),
    "d": ("double", "(b * 0.5 + %d)", "(long long)(x * 2)"),
    "p": ("int *", "(&gi@[%d & 3])", "*x"),
    "s": ("char *", "(\"vwxyz\" + (%d & 3))", "x[0] + x[1] * 3"),
    # default argument promotions: passed as a narrower type, read back as the promoted type
    "c": ("int", "((signed char)(a + %d))", "x"),
    "h": ("int", "((unsigned short)(b + %d))", "x"),
    "f": ("double", "((float)(a + %d) * 0.25f)", "(long long)(x * 4)"),
}
VA_VECS = [[0, 0], [1, 2], [-7, 100], [65535, -40000], [127, 128]]


def va_callee(name, seq, named="int n"):
    reads = []
    for i, k in enumerate(seq):
        t, _, accx = VA_KINDS[k]
        reads.append(" { %s x = __builtin_va_arg(ap, %s); r = r * 31 + (long long)(%s); }" % (t, t, accx))
    last = named.split(",")[-1].split()[-1]
    return "long long %s(%s, ...){ __builtin_va_list ap; long long r = n; VA_START(ap, %s);%s VA_END(ap); return r; }" % (name, named, last, "".join(reads))


def va_args(seq):
    return "".join(", " + VA_KINDS[k][1] % (i + 1) for i, k in enumerate(seq))


VA_GLOBALS = "int gi@[4] = { 11, 22, 33, 44 }; "


def variadics(maxlen_base=3, maxlen_promoted=2, runs=8):
    """Fixed-sequence callees: every kind sequence of length 0..maxlen_base over {i,u,l,d,p,s}; every sequence of length 1..maxlen_promoted
    over all nine kinds that contains a promoted kind {c,h,f}; homogeneous runs of length 4..runs of every base kind;
    named-parameter prefixes; format-driven callee; va_copy; va_list handed to another function."""
    base = "iuldps"
    done = set()

    def emit(seq, feat, named="int n", nargs="%d"):
        seq = "".join(seq)
        src = VA_PRE + VA_GLOBALS + va_callee("v@", seq, named) + " long long f@(int a, int b){ return v@(" + nargs % len(seq) + va_args(seq) + "); }"
        return xcase(src, "long long", ["int", "int"], "VA", feat, vecs=VA_VECS)
    for n in range(0, maxlen_base + 1):
        for seq in itertools.product(base, repeat=n):
            done.add(seq)
            yield emit(seq, "fixed/%d/%s" % (n, "".join(seq) or "none"))
    for n in range(1, maxlen_promoted + 1):
        for seq in itertools.product(base + "chf", repeat=n):
            if seq in done or not (set(seq) & set("chf")):
                continue
            yield emit(seq, "promoted/%d/%s" % (n, "".join(seq)))
    for k in base:
        for n in range(4, runs + 1):
            yield emit(k * n, "run/%s/%d" % (k, n))
    for seq in ["idid", "didi", "ilil", "lili", "idldps", "spdlui", "ididididid", "ddddddddd", "iiiiiiiii", "idps" * 3]:
        yield emit(seq, "mixed/" + seq)
    # named parameter prefixes (register/stack position of the first variable argument differs)
    for named, nargs, tag in [("double q, int n", "0.5, %d", "double-first"), ("int n, double q", "%d, 1.5", "double-last-named"),
                              ("long p1, long p2, long p3, long p4, long p5, int n", "1, 2, 3, 4, 5, %d", "six-named"),
                              ("long p1, long p2, long p3, long p4, long p5, long p6, long p7, int n", "1, 2, 3, 4, 5, 6, 7, %d", "eight-named"),
                              ("char *p, int n", "\"q\", %d", "pointer-first")]:
        for seq in ["", "i", "d", "id", "di", "ldps", "iiiiiii", "ddddddddd"]:
            # VA_START must name the last named parameter
            src = VA_PRE + VA_GLOBALS + va_callee("v@", seq, named)
            src += " long long f@(int a, int b){ return v@(" + nargs % len(seq) + va_args(seq) + "); }"
            yield xcase(src, "long long", ["int", "int"], "VA", "named-prefix/%s/%s" % (tag, seq or "none"), vecs=VA_VECS)
    FMT = (VA_PRE + VA_GLOBALS + "long long v@(const char *fmt, ...){ __builtin_va_list ap; long long r = 0; VA_START(ap, fmt); for (; *fmt; fmt++) { switch (*fmt) {"
           " case 'i': r = r * 31 + __builtin_va_arg(ap, int); break; case 'u': r = r * 31 + __builtin_va_arg(ap, unsigned); break;"
           " case 'l': r = r * 31 + __builtin_va_arg(ap, long); break; case 'd': r = r * 31 + (long long)(__builtin_va_arg(ap, double) * 2); break;"
           " case 'p': r = r * 31 + *__builtin_va_arg(ap, int *); break; case 's': { char *x = __builtin_va_arg(ap, char *); r = r * 31 + x[0] + x[1] * 3; break; }"
           " default: r = -1; } } VA_END(ap); return r; } ")
    for seq in ["", "i", "d", "s", "id", "di", "ldps", "iiii", "dddd", "iuldps", "iiiiiiii", "dddddddd", "idididid", "spspspsp"]:
        yield xcase(FMT + "long long f@(int a, int b){ return v@(\"%s\"%s); }" % (seq, va_args(seq)), "long long", ["int", "int"], "VA", "format-driven/%s" % (seq or "none"), vecs=VA_VECS)
    yield xcase(FMT + "long long f@(int a, int b){ return v@(\"i\", a) * 3 + v@(\"dd\", 0.5, b * 1.5) + v@(\"\") + v@(\"s\", \"ab\"); }", "long long", ["int", "int"], "VA",
                "format-driven/several-calls", vecs=VA_VECS)
    COPY = (VA_PRE + "long long v@(int n, ...){ __builtin_va_list ap, aq; long long r = 0; int i; VA_START(ap, n); %s VA_END(ap); return r; } "
            "long long f@(int a, int b){ return v@(3, %s); }")
    yield xcase(COPY % ("__builtin_va_copy(aq, ap); for (i = 0; i < n; i++) r = r * 31 + __builtin_va_arg(ap, int); for (i = 0; i < n; i++) r = r * 37 + __builtin_va_arg(aq, int); VA_END(aq);",
                        "a, b, a + b"), "long long", ["int", "int"], "VA", "va_copy/at-start", vecs=VA_VECS)
    yield xcase(COPY % ("r = __builtin_va_arg(ap, int); __builtin_va_copy(aq, ap); r = r * 31 + __builtin_va_arg(ap, int); r = r * 31 + __builtin_va_arg(ap, int); "
                        "r = r * 37 + __builtin_va_arg(aq, int); VA_END(aq);", "a, b, a + b"), "long long", ["int", "int"], "VA", "va_copy/mid-way", vecs=VA_VECS)
    yield xcase(COPY % ("__builtin_va_copy(aq, ap); r = (long long)(__builtin_va_arg(ap, double) * 2); r = r * 31 + __builtin_va_arg(ap, long); "
                        "r = r * 37 + (long long)(__builtin_va_arg(aq, double) * 4); VA_END(aq);", "a * 0.5, (long)b, 0"), "long long", ["int", "int"], "VA", "va_copy/double-long", vecs=VA_VECS)
    yield xcase(VA_PRE + "static long long w@(int n, __builtin_va_list ap){ long long r = 0; while (n-- > 0) r = r * 31 + __builtin_va_arg(ap, int); return r; } "
                "long long v@(int n, ...){ __builtin_va_list ap; long long r; VA_START(ap, n); r = w@(n, ap); VA_END(ap); return r; } "
                "long long f@(int a, int b){ return v@(4, a, b, a - b, 9) + v@(0) + v@(1, b); }", "long long", ["int", "int"], "VA", "va_list-as-argument", vecs=VA_VECS)
    yield xcase(VA_PRE + "long long v@(int n, ...){ __builtin_va_list ap; long long r = 0; VA_START(ap, n); while (n-- > 0) r += __builtin_va_arg(ap, int); VA_END(ap); "
                "VA_START(ap, n); r = r * 100 + __builtin_va_arg(ap, int); VA_END(ap); return r; } long long f@(int a, int b){ return v@(2, a & 15, b & 15); }",
                "long long", ["int", "int"], "VA", "va_start-twice", vecs=VA_VECS)
    yield xcase(VA_PRE + "long long v@(int n, ...){ __builtin_va_list ap; long long r = 0; VA_START(ap, n); if (n > 0) { r = __builtin_va_arg(ap, int); r += v@(n - 1, (int)r + 1, 7); } VA_END(ap); return r; } "
                "long long f@(int a, int b){ return v@(a & 3, b, 5); }", "long long", ["int", "int"], "VA", "recursive", vecs=VA_VECS)
    yield xcase(VA_PRE + "struct P@ { int x; int y; }; long long v@(int n, ...){ __builtin_va_list ap; struct P@ p; long long r; VA_START(ap, n); p = __builtin_va_arg(ap, struct P@); "
                "r = __builtin_va_arg(ap, int); VA_END(ap); return p.x * 3LL + p.y * 5 + r; } long long f@(int a, int b){ struct P@ p = { a, b }; return v@(1, p, 9); }",
                "long long", ["int", "int"], "VA", "struct-argument", vecs=VA_VECS)
    yield xcase(VA_PRE + "long long v@(int n, ...){ __builtin_va_list ap; long long r; VA_START(ap, n); r = __builtin_va_arg(ap, long long); r ^= (long long)__builtin_va_arg(ap, unsigned long); "
                "r += __builtin_va_arg(ap, int); VA_END(ap); return r; } long long f@(int a, int b){ return v@(0, (long long)a << 33, (unsigned long)b * 3ul, 'c'); }",
                "long long", ["int", "int"], "VA", "wide-and-char-constant", vecs=[[0, 0], [1, 2], [100, 7], [65535, 40000]])
    yield xcase(VA_PRE + "typedef long long (*vf@)(int, ...); long long v@(int n, ...){ __builtin_va_list ap; long long r; VA_START(ap, n); r = __builtin_va_arg(ap, int) * 10LL + n; VA_END(ap); return r; } "
                "long long f@(int a, int b){ vf@ p = v@; return p(a & 7, b) + (*p)(1, 2); }", "long long", ["int", "int"], "VA", "through-function-pointer", vecs=VA_VECS)


# --- calls across the ABI boundary (path b of C04 compiles 'host' with gcc and the rest with ppci; everywhere else one unit) ---------------
def xsplit(pre, ppci, host, ret, params, feat, vecs):
    c = xcase(pre + "\n" + ppci + "\n" + host, ret, params, "XA", feat, vecs=vecs, split={"pre": pre, "ppci": ppci, "host": host})
    return c


SV_LAYOUTS = [
    # name, members [(type, name)], size
    ("c1", [("char", "c0")]), ("c2", [("char", "c0"), ("char", "c1")]), ("c3", [("char", "c[3]")]), ("s1c1", [("short", "h"), ("char", "c0")]),
    ("i1", [("int", "i0")]), ("c4", [("char", "c[4]")]), ("i2", [("int", "i0"), ("int", "i1")]), ("l1", [("long", "l0")]), ("c8", [("char", "c[8]")]),
    ("d1", [("double", "d0")]), ("f2", [("float", "f0"), ("float", "f1")]), ("i1f1", [("int", "i0"), ("float", "f0")]),
    ("c9", [("char", "c[9]")]), ("i3", [("int", "i0"), ("int", "i1"), ("int", "i2")]), ("l1c1", [("long", "l0"), ("char", "c0")]),
    ("l2", [("long", "l0"), ("long", "l1")]), ("d2", [("double", "d0"), ("double", "d1")]), ("d1l1", [("double", "d0"), ("long", "l0")]),
    ("l1d1", [("long", "l0"), ("double", "d0")]), ("f4", [("float", "f0"), ("float", "f1"), ("float", "f2"), ("float", "f3")]), ("i1d1", [("int", "i0"), ("double", "d0")]),
    ("c16", [("char", "c[16]")]), ("c17", [("char", "c[17]")]), ("l2c1", [("long", "l0"), ("long", "l1"), ("char", "c0")]),
    ("l3", [("long", "l0"), ("long", "l1"), ("long", "l2")]), ("d3", [("double", "d0"), ("double", "d1"), ("double", "d2")]), ("c24", [("char", "c[24]")]),
    ("l4", [("long", "l0"), ("long", "l1"), ("long", "l2"), ("long", "l3")]), ("d4", [("double", "d0"), ("double", "d1"), ("double", "d2"), ("double", "d3")]),
    ("c32", [("char", "c[32]")]), ("i8", [("int", "v[8]")]),
]


def _sv_leaves(members):
    out = []
    for t, n in members:
        if "[" in n:
            base, cnt = n.split("[")
            cnt = int(cnt[:-1])
            for i in sorted({0, cnt // 2, cnt - 1}):
                out.append((t, "%s[%d]" % (base, i)))
        else:
            out.append((t, n))
    return out


def _sv_defs(name, members):
    """struct definition, fill statements for variable s from ints a, b, and hash expression statements."""
    sdef = "struct S@ { %s };" % " ".join("%s %s;" % (t, n) for t, n in members)
    lv = _sv_leaves(members)
    zero = []
    for t, n in members:
        if "[" in n:
            base, cnt = n.split("[")
            zero.append(" { int i; for (i = 0; i < %d; i++) %%s.%s[i] = (%s)(i + 1); }" % (int(cnt[:-1]), base, t))
    fill = "".join(zero) + "".join(" %%s.%s = (%s)(%s);" % (n, t, ["a", "b", "a + b", "a - b"][i % 4] if t not in ("float", "double") else ["a * 0.5", "b * 0.25", "a + 0.5", "b - 0.5"][i % 4])
                                   for i, (t, n) in enumerate(lv))
    hsh = "".join(" r = r * 31 + (long long)(%%s.%s%s);" % (n, " * 4" if t in ("float", "double") else "") for t, n in lv)
    first = lv[0]
    bump = " %%s.%s = (%s)(%%s.%s + 1);" % (first[1], first[0], first[1])
    last = lv[-1]
    bump2 = " %%s.%s = (%s)(%%s.%s + 2);" % (last[1], last[0], last[1])
    return sdef, fill, hsh, bump, bump2


SV_VECS = [[0, 0], [1, 2], [-7, 100], [100, -3], [127, 126]]


def struct_values(layouts=None):
    """Every layout x {assign, parameter, return, parameter+return chain, pointer copy, array element, member copy, recursion}."""
    for name, members in (layouts or SV_LAYOUTS):
        sdef, fill, hsh, bump, bump2 = _sv_defs(name, members)
        F = lambda v: fill.replace("%s", v)
        H = lambda v: hsh.replace("%s", v)
        B = lambda v: bump.replace("%s", v)
        B2 = lambda v: bump2.replace("%s", v)
        ops = [
            ("assign", sdef + " long long f@(int a, int b){ struct S@ s, t; long long r = 0;" + F("s") + " t = s;" + B("s") + H("s") + H("t") + " return r; }"),
            ("initialise-from-object", sdef + " long long f@(int a, int b){ struct S@ s; long long r = 0;" + F("s") + " { struct S@ t = s;" + B2("t") + H("s") + H("t") + " } return r; }"),
            ("parameter", sdef + " static long long cal@(struct S@ p, int k){ long long r = k;" + B("p") + H("p") + " return r; } long long f@(int a, int b){ struct S@ s; long long r;" + F("s")
             + " r = cal@(s, 5);" + H("s") + " return r; }"),
            ("parameter-after-six-ints", sdef + " static long long cal@(long p1, long p2, long p3, long p4, long p5, long p6, struct S@ p, int k){ long long r = k + p1 + p6;" + H("p")
             + " return r; } long long f@(int a, int b){ struct S@ s;" + F("s") + " return cal@(1, 2, 3, 4, 5, 6, s, 7); }"),
            ("two-parameters", sdef + " static long long cal@(struct S@ p, struct S@ q){ long long r = 0;" + H("q") + H("p") + " return r; } long long f@(int a, int b){ struct S@ s, t;" + F("s")
             + " t = s;" + B2("t") + " return cal@(s, t); }"),
            ("return", sdef + " static struct S@ mk@(int a, int b){ struct S@ s;" + F("s") + " return s; } long long f@(int a, int b){ long long r = 0; struct S@ s = mk@(a, b);" + H("s") + " return r; }"),
            ("return-assign", sdef + " static struct S@ mk@(int a, int b){ struct S@ s;" + F("s") + " return s; } long long f@(int a, int b){ long long r = 0; struct S@ s; s = mk@(b, a); s = mk@(a, b);"
             + H("s") + " return r; }"),
            ("parameter-return-chain", sdef + " static struct S@ id@(struct S@ p){" + B("p") + " return p; } long long f@(int a, int b){ long long r = 0; struct S@ s, t;" + F("s") + " t = id@(id@(s));"
             + H("s") + H("t") + " return r; }"),
            ("return-member-direct", sdef + " static struct S@ mk@(int a, int b){ struct S@ s;" + F("s") + " return s; } long long f@(int a, int b){ return (long long)(mk@(a, b).%s%s); }"
             % (_sv_leaves(members)[-1][1], " * 4" if _sv_leaves(members)[-1][0] in ("float", "double") else "")),
            ("pointer-copy", sdef + " long long f@(int a, int b){ struct S@ s, t; struct S@ *p = &s, *q = &t; long long r = 0;" + F("s") + " *q = *p;" + B("s") + H("t") + H("s") + " return r; }"),
            ("array-element", sdef + " struct S@ ga@[3]; long long f@(int a, int b){ struct S@ s; long long r = 0;" + F("s") + " ga@[1] = s;" + B("s") + " ga@[2] = ga@[1]; ga@[0] = s;" + H("ga@[0]")
             + H("ga@[2]") + " return r; }"),
            ("member-copy", sdef + " struct W@ { char k; struct S@ in; short z; }; long long f@(int a, int b){ struct W@ w, x; long long r = 0; w.k = 1; w.z = 2;" + F("w.in") + " x = w; x.in = w.in;"
             + B("w.in") + H("x.in") + H("w.in") + " return r + x.k + x.z; }"),
            ("recursion", sdef + " static struct S@ rec@(struct S@ p, int n){ if (n <= 0) return p;" + B("p") + " return rec@(p, n - 1); } long long f@(int a, int b){ long long r = 0; struct S@ s;"
             + F("s") + " s = rec@(s, b & 3);" + H("s") + " return r; }"),
            ("through-function-pointer", sdef + " static struct S@ id@(struct S@ p){" + B2("p") + " return p; } long long f@(int a, int b){ struct S@ (*fp)(struct S@) = id@; long long r = 0; struct S@ s;"
             + F("s") + " s = fp(s);" + H("s") + " return r; }"),
            ("conditional", sdef + " long long f@(int a, int b){ struct S@ s, t, u; long long r = 0;" + F("s") + " t = s;" + B2("t") + " u = a > b ? s : t;" + H("u") + " return r; }"),
            ("comma-and-assignment-value", sdef + " long long f@(int a, int b){ struct S@ s, t, u; long long r = 0;" + F("s") + " u = (t = s);" + B("s") + " t = (a++, u);" + H("t") + H("u")
             + " return r + a; }"),
        ]
        for op, src in ops:
            yield xcase(src, "long long", ["int", "int"], "SV", "%s/%s" % (op, name), vecs=SV_VECS)


def cross_abi():
    """gcc caller -> ppci callee and ppci caller -> gcc callee for structures by value (every layout) and variadic functions."""
    for name, members in SV_LAYOUTS:
        sdef, fill, hsh, bump, bump2 = _sv_defs(name, members)
        F = lambda v: fill.replace("%s", v)
        H = lambda v: hsh.replace("%s", v)
        B = lambda v: bump.replace("%s", v)
        pre = sdef + " struct S@ cal@(struct S@ p, int k); long long drv@(int a, int b); long long f@(int a, int b);"
        callee = "struct S@ cal@(struct S@ p, int k){" + B("p") + " if (k > 1) return cal@(p, k - 1); return p; }"
        caller = "long long drv@(int a, int b){ long long r = 0; struct S@ s, t;" + F("s") + " t = cal@(s, 2);" + H("s") + H("t") + " return r; }"
        yield xsplit(pre, callee + " long long f@(int a, int b){ return drv@(a, b); }", caller, "long long", ["int", "int"], "struct/gcc-calls-ppci/" + name, SV_VECS)
        yield xsplit(pre, caller + " long long f@(int a, int b){ return drv@(a, b); }", callee, "long long", ["int", "int"], "struct/ppci-calls-gcc/" + name, SV_VECS)
    for seq in ["", "i", "l", "d", "s", "id", "iii", "ldps", "iiiiiii", "ddddddddd"]:
        pre = VA_PRE + "extern int gi@[4]; long long v@(int n, ...); long long drv@(int a, int b); long long f@(int a, int b);"
        callee = va_callee("v@", seq)
        caller = "long long drv@(int a, int b){ return v@(%d%s); }" % (len(seq), va_args(seq))
        g = "int gi@[4] = { 11, 22, 33, 44 };"
        yield xsplit(pre, g + " " + callee + " long long f@(int a, int b){ return drv@(a, b); }", caller, "long long", ["int", "int"], "variadic/gcc-calls-ppci/" + (seq or "none"), VA_VECS)
        yield xsplit(pre, g + " " + caller + " long long f@(int a, int b){ return drv@(a, b); }", callee, "long long", ["int", "int"], "variadic/ppci-calls-gcc/" + (seq or "none"), VA_VECS)


# --- sizeof / offsetof / _Alignof -------------------------------------------------------------------------------------------------
SZ_STRUCTS = [
    ("char-int-short", "struct S@ { char a; int b; short c; }", ["a", "b", "c"]),
    ("char-long-char", "struct S@ { char a; long b; char c; }", ["a", "b", "c"]),
    ("short-char-char-int", "struct S@ { short a; char b; char c; int d; }", ["a", "b", "c", "d"]),
    ("char-double-float", "struct S@ { char a; double b; float c; }", ["a", "b", "c"]),
    ("arrays", "struct S@ { char a[3]; short b[3]; char c; long d[2]; }", ["a", "b", "c", "d"]),
    ("nested", "struct I@ { char x; long y; }; struct S@ { char a; struct I@ in; char b; struct I@ t[2]; short c; }", ["a", "in", "b", "t", "c"]),
    ("pointers", "struct S@ { char a; void *p; char b; int (*fn)(int); }", ["a", "p", "b", "fn"]),
    ("bit-fields-then-member", "struct S@ { unsigned x : 3; unsigned y : 7; char a; int z : 20; short b; }", ["a", "b"]),
    ("union", "union S@ { char a; short b[3]; long c; char d[9]; }", ["a", "b", "c", "d"]),
    ("union-in-struct", "union V@ { char c[5]; int i; }; struct S@ { char a; union V@ u; char b; }", ["a", "u", "b"]),
]


def sizes_offsets():
    for name, sdef, members in SZ_STRUCTS:
        ty = "union S@" if sdef.lstrip().startswith("union S@") else "struct S@"
        yield xcase(sdef + "; long long f@(void){ %s o[2]; return (long long)sizeof(%s) * 10000 + (long long)sizeof(o) * 10 + (long long)sizeof o[1]; }" % (ty, ty), "long long", [], "SZ", "sizeof-type/" + name)
        for m in members:
            yield xcase(sdef + "; long long f@(void){ return __builtin_offsetof(%s, %s); }" % (ty, m), "long long", [], "SZ", "offsetof/expression/%s/%s" % (name, m))
            yield xcase(sdef + "; long long f@(void){ %s o; return (long long)((char *)&o.%s - (char *)&o) * 100 + (long long)sizeof(o.%s); }" % (ty, m, m), "long long", [], "SZ",
                        "member-address-and-size/%s/%s" % (name, m))
        m = members[-1]
        yield xcase(sdef + "; char t@[__builtin_offsetof(%s, %s) + 1]; long long f@(void){ return sizeof(t@); }" % (ty, m), "long long", [], "SZ", "offsetof/array-size/" + name)
        yield xcase(sdef + "; long long g@ = __builtin_offsetof(%s, %s) * 3 + 1; long long f@(void){ return g@; }" % (ty, m), "long long", [], "SZ", "offsetof/static-initialiser/" + name)
        yield xcase(sdef + "; enum E@ { K@ = __builtin_offsetof(%s, %s) }; long long f@(int a){ switch (a) { case __builtin_offsetof(%s, %s): return 100 + K@; default: return K@; } }" % (ty, m, ty, m),
                    "long long", ["int"], "SZ", "offsetof/enum-and-case/" + name, vecs=[[0], [1], [2], [4], [8], [9], [10], [12], [16], [24], [32], [40], [48], [56]])
        yield xcase(sdef + "; long long f@(void){ return _Alignof(%s); }" % ty, "long long", [], "SZ", "alignof/" + name)
    yield xcase("struct I@ { char x; short y[3]; }; struct S@ { char a; struct I@ in; }; long long f@(void){ return __builtin_offsetof(struct S@, in.y) * 100 + __builtin_offsetof(struct S@, in.y[2]); }",
                "long long", [], "SZ", "offsetof/member-path")
    for t in INT_TYPES + ["float", "double", "void *", "char *", "int (*)(int)", "int[3]", "char[2][5]", "long *[4]"]:
        yield xcase("long long f@(void){ return sizeof(%s); }" % t, "long long", [], "SZ", "sizeof-type/" + t)
        yield xcase("long long f@(void){ return _Alignof(%s); }" % t, "long long", [], "SZ", "alignof/" + t)
        yield xcase(_member_decl_case(t), "long long", [], "SZ", "implied-alignment/" + t)
    # the type of an expression decides its size: usual arithmetic conversions, integer promotions, shifts, conditional, comparison, comma, assignment
    for t1 in INT_TYPES + ["float", "double"]:
        for t2 in INT_TYPES + ["float", "double"]:
            fl = is_float(t1) or is_float(t2)
            forms = [("+", "a + b"), ("?:", "1 ? a : b"), ("comma", "(a, b)"), ("=", "a = b"), ("<", "a < b")] + ([] if fl else [("<<", "a << b"), ("&", "a & b")])
            body = " + ".join("%d * (long long)sizeof(%s)" % (100 ** i, e) for i, (_, e) in enumerate(forms))
            yield xcase("long long f@(void){ %s a = 1; %s b = 1; (void)a; (void)b; return %s; }" % (t1, t2, body), "long long", [], "SZ", "sizeof-expression/binary/%s/%s" % (t1, t2))
    for t in INT_TYPES + ["float", "double"]:
        fl = is_float(t)
        forms = ["-a", "+a", "!a", "a++", "(char)a", "*&a"] + ([] if fl else ["~a"])
        body = " + ".join("%d * (long long)sizeof(%s)" % (10 ** i, e) for i, e in enumerate(forms))
        yield xcase("long long f@(int k){ %s a = (%s)k; long long r = %s; return r * 10 + (long long)a; }" % (t, t, body), "long long", ["int"], "SZ", "sizeof-expression/unary-not-evaluated/" + t, vecs=[[1], [5]])
    M = [
        ("array-and-decay", "long long f@(void){ int t[7]; char m[3][5]; return sizeof t + 100 * sizeof(t + 0) + 10000 * sizeof m[0] + 1000000 * sizeof(*m) + 100000000LL * sizeof(&t); }"),
        ("array-parameter-is-pointer", "static long long s@(int t[10]){ return sizeof t; } long long f@(void){ int t[10]; t[0] = 0; return s@(t) + 100 * sizeof t; }"),
        ("element-count-idiom", "int t@[] = { 1, 2, 3, 4, 5 }; long long f@(void){ return sizeof t@ / sizeof t@[0] + 100 * (sizeof(t@) / sizeof(*t@)); }"),
        ("function-call-not-evaluated", "int g@; static long h@(void){ g@++; return 1; } long long f@(void){ long long r = sizeof(h@()) + sizeof h@(); return r * 10 + g@; }"),
        ("literals", "long long f@(void){ return sizeof 1 + 10 * sizeof 1L + 100 * sizeof 1u + 1000 * sizeof 1.0 + 10000 * sizeof 1.0f + 100000 * sizeof 'a' + 1000000 * sizeof 1LL + 10000000 * sizeof(char); }"),
        ("literals-wide", "long long f@(void){ return sizeof 2147483647 + 10 * sizeof 2147483648 + 100 * sizeof 0x7fffffff + 1000 * sizeof 0x80000000 + 10000 * sizeof 0xffffffff + 100000 * sizeof 0x100000000 + 1000000 * sizeof 4294967295u; }"),
        ("sizeof-sizeof", "long long f@(void){ return sizeof(sizeof(char)) + 10 * sizeof(sizeof 1 + 1) + 100 * (sizeof(int) - 5 > 0); }"),
        ("struct-expression", "struct S@ { char a; long b; }; static struct S@ mk@(void){ struct S@ s; s.a = 1; s.b = 2; return s; } long long f@(void){ struct S@ s, *p = &s; s.a = 0; return sizeof s + 100 * sizeof *p + 10000 * sizeof p->b + 1000000 * sizeof mk@(); }"),
        ("cast-binds-tighter", "long long f@(void){ int a = 3; return sizeof(char) + a + 10 * (sizeof (a) + 1) + 100 * sizeof((long)a) + 1000 * sizeof(int) * 2 + 10000 * sizeof a * 2; }"),
        ("enum-and-enumerator", "enum E@ { A@, B@ = 100000 }; long long f@(void){ enum E@ e = A@; return sizeof e + 10 * sizeof(enum E@) + 100 * sizeof A@ + 1000 * sizeof B@; }"),
        ("bit-field-promoted", "struct B@ { unsigned a : 3; long b : 40; } gb@; long long f@(void){ return sizeof(gb@.a + 0) + 10 * sizeof(+gb@.a) + 100 * sizeof(gb@.b + 0) + 1000 * (gb@.a - 1 < 0); }"),
        ("pointer-difference-and-size-types", "long long f@(void){ int t[4]; return sizeof(&t[3] - &t[0]) + 10 * sizeof(sizeof t) + 100 * (int)(&t[3] - &t[0]) + 1000 * ((&t[0] - &t[3]) < 0); }"),
        ("as-array-size-and-case", "char t@[sizeof(long) * 2 + sizeof(struct { char c; int i; })]; long long f@(int a){ switch (a) { case sizeof(int): return 1; case sizeof(long): return 2; } return sizeof t@; }"),
    ]
    for name, src in M:
        yield xcase(src, "long long", ["int"] if "(int a)" in src else [], "SZ", "sizeof-misc/" + name, vecs=[[0], [4], [8]] if "(int a)" in src else None)


def _member_decl_case(t):
    if "(*)" in t:
        d = t.replace("(*)", "(*v)")
    elif "[" in t:
        d = t.replace("[", " v[", 1) if "*[" not in t else t.replace("*[", "*v[")
    else:
        d = t + " v"
    return "struct A@ { char c; %s; char e; }; long long f@(void){ return sizeof(struct A@) * 100 + __builtin_offsetof(struct A@, v); }" % d


# --- statements ------------------------------------------------------------------------------------------------------------------------
ST_CASES = [
    ("empty-statements", "int f@(int a,int b){ ; ; if (a > 0) ; else ; for (;;) { ; break; } while (a++ < 3) ; { } ;; return a + b; }", 3),
    ("empty-loop-bodies", "int f@(int a,int b){ int i, n = 0; for (i = 0; i < (a & 7); i++) ; n = i; while (n < (b & 7)) n++; do ; while (++n < 5); return n * 10 + i; }", 7),
    ("for-all-parts-empty", "int f@(int a,int b){ int i = 0; for (;;) { if (i >= (a & 7)) break; i++; } for (; i < 20;) i += (b & 3) + 1; return i; }", 7),
    ("for-comma", "int f@(int a,int b){ int i, j, s = 0; for (i = 0, j = (a & 7) + 3; i < j; i++, j--) s += i * j; return s * 100 + i * 10 + j + (b, a, 1); }", 7),
    ("comma-values", "int g@; int f@(int a,int b){ int x = (g@ = a, g@ + 1); int y = (x++, b++, x + b); return x * 3 + y + (a, b) + ((void)0, 5); }", 7),
    ("comma-in-conditions", "int f@(int a,int b){ int n = 0, i = 0; while (n++, i < (a & 3)) i++; if (n += 2, b & 1) n *= 3; return n * 10 + i; }", 7),
    ("switch-case-range", "int f@(int a,int b){ switch (a) { case 1 ... 3: return 1; case 5 ... 5: return 2; case -4 ... -2: return 3; case 100 ... 2000: return 4; } return 0; }", 1),
    ("switch-case-range-wide", "int f@(int a,int b){ switch (a) { case 1 ... 3: return 1; case 1000000 ... 2147483647: return 4; } return 0; }", 1),
    ("switch-nested", "int f@(int a,int b){ int r = 0; switch (a & 3) { case 0: switch (b & 3) { case 0: r = 1; break; case 1: r = 2; default: r += 10; } r += 100; break; case 1: switch (b & 1) { case 1: r = 5; } "
     "case 2: r += 1000; break; default: switch (b & 3) { default: r = 7; break; case 2: r = 8; } } return r; }", 7),
    ("switch-default-in-the-middle", "int f@(int a,int b){ int r = 0; switch (a & 7) { case 0: r = 1; break; default: r = 2; case 3: r += 10; break; case 5: r = 3; } return r + b; }", 7),
    ("switch-default-first", "int f@(int a,int b){ int r = 0; switch (a & 3) { default: r = 9; case 1: r += 1; break; case 2: r = 20; } return r + b; }", 7),
    ("switch-fall-through-into-default", "int f@(int a,int b){ int r = 0; switch (a & 3) { case 0: r += 1; case 1: r += 10; default: r += 100; } return r + b; }", 7),
    ("switch-only-default", "int f@(int a,int b){ int r = 0; switch (a) { default: r = b; } switch (b) { } switch (a) case 1: r += 5; return r; }", 7),
    ("switch-negative-and-extreme-labels", "int f@(int a,int b){ switch (a) { case -1: return 1; case -2147483647 - 1: return 2; case 2147483647: return 3; case 0: return 4; case -7: return 5; } return b; }", 7),
    ("switch-dense-table", "int f@(int a,int b){ switch (a & 15) { case 0: return 3; case 1: return 1; case 2: return 4; case 3: return 1; case 4: return 5; case 5: return 9; case 6: return 2; case 7: return 6; "
     "case 8: return 5; case 9: return 3; case 10: return 5; case 11: return 8; case 12: return 9; case 13: return 7; } return b; }", 16),
    ("switch-sparse", "int f@(int a,int b){ switch (a) { case 1: return 1; case 1000: return 2; case 100000: return 3; case -100000: return 4; case 2: return 5; case 127: return 6; case 128: return 7; } return b; }", 7),
    ("switch-on-char", "int f@(int a,int b){ char c = (char)a; switch (c) { case 'a': return 1; case -1: return 2; case 127: return 3; case -128: return 4; case 0: return 5; } return b; }", 7),
    ("switch-on-unsigned-char", "int f@(int a,int b){ unsigned char c = (unsigned char)a; switch (c) { case 255: return 1; case 1: return 2; case 128: return 3; case 0: return 4; } return b; }", 7),
    ("switch-on-long", "int f@(int a,int b){ long v = (long)a * 4294967296L; switch (v) { case 0: return 1; case 1L << 32: return 2; case -(1L << 32): return 3; case 0x7fffffff00000000: return 4; } return b; }", 7),
    ("switch-on-unsigned", "int f@(int a,int b){ unsigned v = (unsigned)a; switch (v) { case 0: return 1; case 4294967295u: return 2; case 2147483648u: return 3; case 1: return 4; } return b; }", 7),
    ("switch-on-long-truncating-labels", "int f@(int a,int b){ switch ((long)a + 4294967296L) { case 4294967296L: return 1; case 4294967297L: return 2; case 0: return 3; case 1: return 4; } return b; }", 7),
    ("switch-controlling-side-effect", "int g@; int f@(int a,int b){ int r; g@ = a & 3; switch (g@++) { case 0: r = 10; break; case 1: r = 20; break; default: r = 30; } return r + g@ + b; }", 7),
    ("switch-declaration-inside", "int f@(int a,int b){ int r = 0; switch (a & 3) { int t; case 0: t = 5; r = t; break; case 1: { int u = b; r = u + 1; } break; default: t = 7; r = t * 2; } return r; }", 7),
    ("switch-break-continue-in-loop", "int f@(int a,int b){ int i, r = 0; for (i = 0; i < 6; i++) { switch ((a + i) & 3) { case 0: continue; case 1: r += 1; break; case 2: r += 10; if (b & 1) break; r += 100; break; "
     "default: goto out; } r += 1000; } out: return r + i; }", 7),
    ("duffs-device", "int f@(int a,int b){ int n = (a & 15) + 1, r = 0, k = (n + 3) / 4; switch (n % 4) { case 0: do { r += 1; case 3: r += 10; case 2: r += 100; case 1: r += 1000; } while (--k > 0); } return r + b; }", 16),
    ("case-inside-if", "int f@(int a,int b){ int r = 0; switch (a & 3) { case 0: if (b & 1) { case 1: r += 1; } else { case 2: r += 10; } break; default: r = 100; } return r; }", 7),
    ("goto-into-block", "int f@(int a,int b){ int x = 0; if (a > 0) goto in; { x = 100; in: x += 2; } return x + b; }", 7),
    ("goto-into-loop", "int f@(int a,int b){ int x = 0, n = 0; if (a & 1) goto mid; while (x < 6) { x += 1; mid: x += 2; n++; } return x * 10 + n + b; }", 7),
    ("goto-out-of-nested-loops", "int f@(int a,int b){ int i, j, n = 0; for (i = 0; i < 4; i++) for (j = 0; j < 4; j++) { if (i * 4 + j == (a & 15)) goto done; n++; } done: return n * 100 + i * 10 + j + b; }", 16),
    ("goto-into-else", "int f@(int a,int b){ int r = 0; if (a & 1) goto e; if (b & 1) { r = 1; } else { e: r += 10; } return r; }", 7),
    ("goto-backward-and-forward", "int f@(int a,int b){ int n = a & 3, r = 0; top: if (n == 0) goto end; r += n; n--; goto top; end: return r + b; }", 7),
    ("goto-skips-initialiser", "int f@(int a,int b){ int r = 1; if (a & 1) goto skip; { int t = 5; r += t; } skip: { int u = 7; r += u; } return r + b; }", 7),
    ("goto-into-switch-body", "int f@(int a,int b){ int r = 0; if (b & 1) goto inside; switch (a & 3) { case 0: r = 1; break; case 1: inside: r += 10; break; default: r = 100; } return r; }", 7),
    ("label-then-declaration", "int f@(int a,int b){ if (a > 0) goto l; b++; l: ; int x = a + b; return x; }", 7),
    ("label-at-end-of-block", "int f@(int a,int b){ int r = 0; { if (a & 1) goto e; r = 5; e: ; } return r + b; }", 7),
    ("labels-in-two-functions", "static int h@(int a){ if (a) goto l; return 1; l: return 2; } int f@(int a,int b){ if (b & 1) goto l; return h@(a & 1); l: return 10 + h@(a & 2); }", 7),
    ("label-same-name-as-variable", "int f@(int a,int b){ int x = a; if (b & 1) goto x; x += 1; x: return x; }", 7),
    ("do-while-zero-break-continue", "int f@(int a,int b){ int r = 0; do { if (a & 1) break; r += 1; if (b & 1) continue; r += 10; } while (0); return r; }", 7),
    ("while-with-assignment-condition", "int f@(int a,int b){ int n = a & 7, r = 0, t; while ((t = n--) > 0) r += t; return r + b; }", 7),
    ("nested-break-continue", "int f@(int a,int b){ int i, j, r = 0; for (i = 0; i < 4; i++) { if (i == (a & 3)) continue; for (j = 0; j < 4; j++) { if (j == (b & 3)) break; if ((i + j) & 1) continue; r += i * 4 + j; } r += 100; } return r; }", 7),
    ("dangling-else", "int f@(int a,int b){ int r = 0; if (a > 0) if (b > 0) r = 1; else r = 2; if (a < 0) { if (b < 0) r += 10; } else r += 20; return r; }", 7),
    ("else-if-chain", "int f@(int a,int b){ if (a < -1) return 1; else if (a == -1) return 2; else if (a == 0) return 3; else if (a < 3) return 4; else if (b) return 5; else return 6; }", 7),
    ("return-in-void-function", "int g@; static void s@(int a){ if (a & 1) { g@ = 1; return; } g@ = 2; } int f@(int a,int b){ s@(a); return g@ + b; }", 7),
    ("return-from-loop-in-switch", "int f@(int a,int b){ switch (a & 1) { case 0: for (;;) { if (b++ > 3) return b; } case 1: while (1) return 7; } return -1; }", 7),
    ("conditional-void-operands", "int g@; static void s1@(void){ g@ += 1; } static void s2@(void){ g@ += 10; } int f@(int a,int b){ g@ = 0; a > 0 ? s1@() : s2@(); (void)(b > 0 ? s1@() : (void)0); return g@; }", 7),
    ("conditional-pointer-operands", "int f@(int a,int b){ int x = 1, y = 2; int *p = a > 0 ? &x : &y; int *q = b > 0 ? p : 0; void *v = a > b ? (void *)&x : &y; *p += 10; return x * 100 + y * 10 + (q == 0) + (v == &x) * 1000; }", 7),
    ("conditional-struct-operands", "struct P@ { int x; int y; }; int f@(int a,int b){ struct P@ p = { 1, 2 }, q = { 3, 4 }; struct P@ r = a > b ? p : q; return r.x * 10 + r.y + (a > 0 ? p : q).x * 100; }", 7),
    ("conditional-nested-right-assoc", "int f@(int a,int b){ return a < 0 ? 1 : a == 0 ? 2 : b < 0 ? 3 : b == 0 ? 4 : 5; }", 7),
    ("conditional-mixed-types", "long long f@(int a,int b){ long long r = sizeof(a ? 1 : 2L) * 1000 + sizeof(a ? (char)1 : (short)2) * 100; return r + (a ? -1 : 1u) / 2 + (b ? (signed char)-1 : (unsigned char)255); }", 7),
    ("conditional-side-effects-once", "int g@; static int t@(int v){ g@ = g@ * 10 + v; return v; } int f@(int a,int b){ g@ = 0; int r = t@(a & 1) ? t@(2) : t@(3); r += (b & 1 ? t@(4) : t@(5)) ? t@(6) : t@(7); return r * 100000 + g@; }", 7),
    ("conditional-as-lvalue-through-pointer", "int f@(int a,int b){ int x = 1, y = 2; *(a > 0 ? &x : &y) = b; return x * 1000 + y; }", 7),
    ("logical-chains", "int g@; static int t@(int v){ g@ = g@ * 2 + 1; return v; } int f@(int a,int b){ g@ = 0; int r = (t@(a) && t@(b) || t@(a - 1) && !t@(b - 1)) + 2 * (t@(a > 0) || t@(b > 0) && t@(0)); return r * 1000 + g@; }", 7),
    ("block-scope-shadowing", "int x@ = 5; int f@(int a,int b){ int r = x@; { int x@ = a; r += x@; { int x@ = b; r += x@ * 2; } r += x@; } for (int a = 0; a < 2; a++) r += a; return r + a; }", 7),
    ("declaration-after-statement", "int f@(int a,int b){ a += 1; int x = a * 2; b -= 1; int y = x + b, z = y + 1; return x + y * 3 + z * 5; }", 7),
    ("loop-variable-scope", "int f@(int a,int b){ int i = 100, s = 0; for (int i = 0; i < (a & 3); i++) s += i; for (int i = 5; i > (b & 3); i--) s += i * 10; return s + i; }", 7),
    ("expression-statements", "int g@; int f@(int a,int b){ a; a + b; (void)a; g@ = a, g@ += b; -g@; !g@; g@++; return g@; }", 7),
    ("deep-nesting", "int f@(int a,int b){ int r = 0, i; for (i = 0; i < 3; i++) { if (a & (1 << i)) { switch (b & 3) { case 0: while (r < 5) { r += 2; if (r == 4) break; } break; case 1: do { r++; } while (r < i); break; "
     "default: r += i; } } else { r -= 1; } } return r; }", 7),
]


def statements():
    for name, src, k in ST_CASES:
        ret = src.split(" f@(")[0].split()[-1] if not src.split(" f@(")[0].endswith("long long") else "long long"
        if k == 16:
            vecs = [[i, j] for i in range(16) for j in (0, 1, 5)]
        elif k == 1:
            vecs = [[v, 0] for v in [-2147483647 - 1, -5, -4, -3, -2, -1, 0, 1, 2, 3, 4, 5, 6, 99, 100, 101, 2000, 2001, 999999, 1000000, 2147483647]]
        elif k == 3:
            vecs = [[0, 0], [1, 2], [-1, 7], [101, 3]]
        else:
            vecs = [[x, y] for x in [0, 1, -1, 2, 3, -2147483647 - 1, 2147483647, 5, -7, 4] for y in [0, 1, -1, 2, 3, 5]]
        c = xcase(src, ret, ["int", "int"], "ST", name, globals_=["g@"] if "int g@;" in src else [], vecs=vecs)
        if name.startswith("switch-case-range"):
            c["strict"] = False  # a GNU extension: -pedantic-errors rejects it, the plain -std=gnu11 oracle accepts it
        yield c


# --- pointers and function pointers ---------------------------------------------------------------------------------------------------
def pointers():
    for t in ["char", "short", "int", "long", "double", "struct T@", "int *", "char[3]"]:
        decl = "struct T@ { int x; char y; long z; }; " if t.startswith("struct") else ""
        decl += "typedef %s E@; " % t if "[" not in t else "typedef char E@[3]; "
        arr = "E@ t[8]"
        ptr = "E@ *p, *q"
        yield xcase(decl + "long long f@(int a,int b){ %s; %s; p = t + (a & 7); q = &t[b & 7]; return (p - q) * 1000 + (p < q) + 2 * (p <= q) + 4 * (p == q) + 8 * (p != q) + 16 * (p > q) + 32 * (p >= q) "
                    "+ 100 * ((char *)p - (char *)t); }" % (arr, ptr), "long long", ["int", "int"], "PT", "compare-subtract/" + t, k=7, cap=49)
        yield xcase(decl + "long long f@(int a,int b){ %s; %s; p = t; q = t + 7; p += a & 3; q -= b & 3; p++; --q; ++p; q--; return (q - p) * 100 + (p - t) * 10 + (t + 8 - q) + ((p + 1) - 1 == p) * 1000 + (&p[2] - &q[-1]) * 10000; }"
                    % (arr, ptr), "long long", ["int", "int"], "PT", "increment-step/" + t, k=7, cap=49)
    M = [
        ("pointer-to-pointer", "long long f@(int a,int b){ int x = a, y = b; int *p = &x, *q = &y; int **pp = &p; **pp += 1; pp = &q; **pp += 2; *pp = &x; **pp += 4; int ***ppp = &pp; ***ppp += 8; return x * 1000LL + y; }"),
        ("pointer-array", "long long f@(int a,int b){ int v[3] = { 1, 2, 3 }; int *t[3] = { &v[2], &v[0], &v[1] }; int **p = t; *t[a & 1] += 10; **(p + 2) += 100; p[b & 1][0] += 1000; return v[0] + v[1] * 3LL + v[2] * 7; }"),
        ("pointer-to-array", "long long f@(int a,int b){ int m[3][4]; int i, j; for (i = 0; i < 3; i++) for (j = 0; j < 4; j++) m[i][j] = i * 4 + j; int (*r)[4] = m + (a & 1); int *e = &m[1][2]; "
         "return (*r)[b & 3] + r[1][1] * 100 + *(*(m + 2) + (b & 3)) * 10000 + (e - &m[0][0]) * 1000000LL + (&m[2] - &m[0]) * 100000000LL; }"),
        ("array-of-arrays-3d", "int g@[2][3][4]; long long f@(int a,int b){ int i = a & 1, j = (b & 3) % 3, k = (a >> 1) & 3; g@[i][j][k] = 7; g@[1][2][3] += 1; return (&g@[i][j][k] - &g@[0][0][0]) * 100 + (long long)sizeof g@[0] + (long long)sizeof g@[0][0] * 10000 + g@[1][2][3] * 1000000LL; }"),
        ("negative-index-and-commuted-index", "long long f@(int a,int b){ int t[5] = { 1, 2, 3, 4, 5 }; int *p = t + 4; return p[-(a & 3)] + (b & 3)[t] * 10 + (-1)[p] * 100 + *(t + (a & 3)) * 1000; }"),
        ("void-pointer-round-trip", "long long f@(int a,int b){ long x = a; void *v = &x; long *p = v; char *c = (char *)v; *p += b; return x + (c == (char *)p) * 1000000007LL + ((void *)p == v); }"),
        ("null-pointer-tests", "long long f@(int a,int b){ int x = 1; int *p = a > 0 ? &x : 0; int *q = 0; return (p == 0) + 2 * (!p) + 4 * (p != 0) + 8 * (p && *p) + 16 * (q == (void *)0) + 32 * (p ? 1 : 0) + 64 * (0 == q); }"),
        ("pointer-integer-conversion", "long long f@(int a,int b){ int t[4]; unsigned long u = (unsigned long)&t[a & 3]; unsigned long v = (unsigned long)&t[0]; int *p = (int *)(v + 4 * (b & 3)); return (u - v) * 10 + (p - t); }"),
        ("pointer-into-struct", "struct T@ { char c; int v[3]; short h; }; long long f@(int a,int b){ struct T@ s = { 1, { 2, 3, 4 }, 5 }; int *p = s.v + (a & 1); short *h = &s.h; struct T@ *q = &s; *p += 10; *h += (short)b; "
         "q->v[2] = p[1] + 100; return s.v[0] + s.v[1] * 10LL + s.v[2] * 100 + s.h * 100000LL + (&q->v[1] - q->v) + ((char *)&q->h - (char *)q) * 10000000LL; }"),
        ("struct-pointer-arithmetic", "struct T@ { char c; long v; }; struct T@ gt@[4]; long long f@(int a,int b){ struct T@ *p = gt@, *e = gt@ + 4; long long n = 0; for (; p != e; p++) { p->c = (char)(a + n); p->v = b * n; n++; } "
         "p = &gt@[a & 3]; return (p - gt@) * 1000 + p->v + (p + 1 - 1)->c + (e - p) * 100000; }"),
        ("char-pointer-walk", "long long f@(int a,int b){ char s[8] = \"abcdefg\"; char *p = s; long long r = 0; while (*p) { if (p - s == (a & 7)) *p = 'X'; r = r * 3 + *p++; } return r + (p - s) + b; }"),
        ("const-pointer-forms", "long long f@(int a,int b){ int x = a, y = b; const int *p = &x; int *const q = &y; const int *const r = &x; p = &y; *q += 1; return *p * 3LL + *q + *r; }"),
        ("swap-through-pointers", "static void sw@(int *p, int *q){ int t = *p; *p = *q; *q = t; } long long f@(int a,int b){ int x = a, y = b; sw@(&x, &y); sw@(&x, &x); return x * 100003LL + y; }"),
        ("out-parameters", "static int dm@(int n, int d, int *q, int *r){ if (d == 0) return 0; *q = n / d; *r = n % d; return 1; } long long f@(int a,int b){ int q = -1, r = -1; int ok = dm@(a & 1023, b & 15, &q, &r); return ok * 1000000LL + q * 1000 + r; }"),
        ("function-pointer/array", "static int inc@(int x){ return x + 1; } static int dbl@(int x){ return x * 2; } static int neg@(int x){ return -x; } long long f@(int a,int b){ int (*t[3])(int) = { inc@, dbl@, neg@ }; "
         "return t[(a & 3) % 3](b & 255) + t[0](t[1](t[2](3))) * 1000LL; }"),
        ("function-pointer/static-array", "static int inc@(int x){ return x + 1; } static int dbl@(int x){ return x * 2; } static int (*const tab@[])(int) = { inc@, dbl@, inc@ }; long long f@(int a,int b){ "
         "return tab@[(a & 3) % 3](b & 255) + (long long)(sizeof tab@ / sizeof tab@[0]) * 1000; }"),
        ("function-pointer/parameter", "static int inc@(int x){ return x + 1; } static int dbl@(int x){ return x * 2; } static int ap@(int (*g)(int), int v){ return g(v) + (*g)(v) + (**g)(1); } static int ap2@(int g(int), int v){ return g(v); } "
         "long long f@(int a,int b){ return ap@(a & 1 ? inc@ : dbl@, b & 255) * 1000LL + ap2@(&inc@, 5) + ap2@(*dbl@, 7) * 10; }"),
        ("function-pointer/returned", "static int inc@(int x){ return x + 1; } static int dbl@(int x){ return x * 2; } static int (*pick@(int k))(int){ return k ? inc@ : dbl@; } long long f@(int a,int b){ return pick@(a & 1)(b & 255) + pick@(0)(pick@(1)(1)) * 1000; }"),
        ("function-pointer/typedef", "typedef int fn@(int); typedef fn@ *pfn@; static int inc@(int x){ return x + 1; } static fn@ dbl@; static int dbl@(int x){ return x * 2; } long long f@(int a,int b){ pfn@ p = a & 1 ? inc@ : dbl@; pfn@ *pp = &p; return (*pp)(b & 255); }"),
        ("function-pointer/in-struct", "struct O@ { int k; int (*op)(int, int); }; static int add@(int x, int y){ return x + y; } static int sub@(int x, int y){ return x - y; } static struct O@ ops@[2] = { { 1, add@ }, { 2, sub@ } }; "
         "long long f@(int a,int b){ struct O@ *o = &ops@[a & 1]; return o->op(b & 255, o->k) * 10 + ops@[1].op(9, 4); }"),
        ("function-pointer/compare", "static int inc@(int x){ return x + 1; } static int dbl@(int x){ return x * 2; } long long f@(int a,int b){ int (*p)(int) = a & 1 ? inc@ : dbl@; int (*q)(int) = b & 1 ? inc@ : 0; return (p == inc@) + 2 * (p != dbl@) + 4 * (q == 0) + 8 * (!q) + 16 * (p == q) + 32 * (q ? q(1) : 7); }"),
        ("function-pointer/callback-with-state", "static void each@(int *v, int n, void (*cb)(int *, void *), void *st){ int i; for (i = 0; i < n; i++) cb(&v[i], st); } static void acc@(int *e, void *st){ *(long long *)st += *e; *e = 0; } "
         "long long f@(int a,int b){ int v[3] = { a & 255, b & 255, 7 }; long long s = 0; each@(v, 3, acc@, &s); return s * 10 + v[0] + v[1] + v[2]; }"),
        ("function-pointer/void-and-two-arg", "int g@; static void set@(void){ g@ = 5; } static long mul@(long x, char y){ return x * y; } long long f@(int a,int b){ void (*s)(void) = set@; long (*m)(long, char) = mul@; g@ = 0; s(); (*s)(); return m(a & 1023, (char)(b & 63)) + g@; }"),
        ("recursion/mutual", "static int od@(int n); static int ev@(int n){ return n == 0 ? 1 : od@(n - 1); } static int od@(int n){ return n == 0 ? 0 : ev@(n - 1); } long long f@(int a,int b){ return ev@(a & 15) * 10 + od@(b & 15); }"),
        ("recursion/pointer-accumulator", "static void walk@(int n, int *acc){ if (n <= 0) return; *acc += n; walk@(n - 1, acc); *acc *= 2; } long long f@(int a,int b){ int s = b & 3; walk@(a & 7, &s); return s; }"),
        ("recursion/array-on-stack", "static int dep@(int n){ int t[4]; int i; for (i = 0; i < 4; i++) t[i] = n + i; if (n > 0) t[1] += dep@(n - 1); return t[0] + t[1] + t[3]; } long long f@(int a,int b){ return dep@(a & 7) + b; }"),
    ]
    for name, src in M:
        yield xcase(src, "long long", ["int", "int"], "PT", name, globals_=["g@"] if "int g@[" in src or "int g@;" in src else [], k=7, cap=49)


# --- declarations, qualifiers, storage classes, prototypes -------------------------------------------------------------------------------
def declarations():
    M = [
        ("typedef/chain", "typedef int T1@; typedef T1@ T2@; typedef T2@ *P2@; typedef P2@ A2@[2]; long long f@(int a,int b){ T2@ x = a, y = b; A2@ t = { &x, &y }; P2@ p = t[1]; *p += 1; return *t[0] * 1000LL + *t[1] + (long long)sizeof(A2@) * 1000000000LL; }"),
        ("typedef/struct-and-self-pointer", "typedef struct N@ N@; struct N@ { int v; N@ *next; }; long long f@(int a,int b){ N@ n2 = { b, 0 }, n1 = { a, &n2 }; N@ *p; long long s = 0; for (p = &n1; p; p = p->next) s = s * 1000 + p->v; return s; }"),
        ("typedef/array-and-function", "typedef int V3@[3]; typedef long F@(int, int); static F@ add@; static long add@(int x, int y){ return (long)x + y; } long long f@(int a,int b){ V3@ v = { a, b }; V3@ m[2] = { { 1 }, { 2, 3 } }; F@ *p = add@; return p(v[0], v[1]) + v[2] + m[1][1] * 7 + (long long)sizeof m; }"),
        ("typedef/unsigned-and-qualified", "typedef unsigned char U8@; typedef const U8@ CU8@; typedef volatile long VL@; long long f@(int a,int b){ U8@ x = (U8@)a; CU8@ y = (U8@)b; VL@ z = x + y; return z * 1000 + (x >> 1) + (U8@)(x + y); }"),
        ("typedef/shadowed-by-variable", "typedef int T@; long long f@(int a,int b){ T@ x = a; { long T@ = b; x += (int)(T@ & 15); } return x; }"),
        ("enum/values-and-arithmetic", "enum E@ { A@ = -1, B@, C@ = B@ + 5, D@, Z@ = 1 << 20, Y@ = 'a' }; long long f@(int a,int b){ enum E@ e = a & 1 ? C@ : D@; e = e + 1; int t[D@ + 1]; t[D@] = b; "
         "return e * 1000000LL + A@ + B@ * 10 + C@ * 100 + D@ * 1000 + t[6] + (Z@ >> 18) + Y@ * 7 + (long long)sizeof(enum E@) * 100000; }"),
        ("enum/switch-and-compare", "enum K@ { R@, G@, BL@ }; static enum K@ nx@(enum K@ k){ return k == BL@ ? R@ : (enum K@)(k + 1); } long long f@(int a,int b){ enum K@ k = (enum K@)((a & 3) % 3); int n = b & 3; while (n-- > 0) k = nx@(k); "
         "switch (k) { case R@: return 1; case G@: return 2; case BL@: return 3; } return 0; }"),
        ("enum/anonymous-and-typedef", "enum { N0@ = 4, N1@ }; typedef enum { T0@, T1@ = N1@ * 2 } TE@; long long f@(int a,int b){ TE@ e = a & 1 ? T1@ : T0@; int t[N1@]; t[N0@] = b; return (int)e * 100 + t[4] + N0@ + N1@; }"),
        ("enum/unsigned-range", "enum W@ { W0@, WM@ = 4294967295u }; long long f@(int a,int b){ enum W@ w = WM@; return (w > 0) + 2 * (long long)sizeof(enum W@) + 100 * (WM@ > 0) + (a & b & 0); }"),
        ("enum/negative-comparison", "enum S@ { SN@ = -5, SP@ = 5 }; long long f@(int a,int b){ enum S@ s = a & 1 ? SN@ : SP@; return (s < 0) + 2 * (s < b) + 4 * (SN@ < 0u) + 8 * ((int)s / 2); }"),
        ("const/objects-and-parameters", "const int k@ = 5; static const long tab@[3] = { 10, 20, 30 }; static int h@(const int x, const int *p){ return x + *p; } long long f@(int a,int b){ const int c = a; const int d = h@(c, &k@); "
         "return c + k@ + d * 100LL + tab@[b & 1] + tab@[2]; }"),
        ("const/struct-and-members", "struct C@ { const int id; int v; }; static const struct C@ kc@ = { 7, 8 }; long long f@(int a,int b){ struct C@ s = { a, b }; const struct C@ *p = &s; s.v += kc@.id; return p->id * 1000LL + p->v + kc@.v; }"),
        ("volatile/every-access-performed", "volatile int v@; long long f@(int a,int b){ volatile int w = b; int n = 0; v@ = a; v@ = v@ + 1; v@; w; n = v@ + w; v@++; w += 2; return n * 1000LL + v@ + w; }"),
        ("volatile/loop-counter-and-pointer", "volatile int flag@; long long f@(int a,int b){ volatile int *p = &flag@; int n = 0; *p = a & 7; while (*p) { (*p)--; n++; } volatile long long acc = b; acc += n; return acc; }"),
        ("static/function-and-forward-declaration", "static int h@(int); static int k@(int x); long long f@(int a,int b){ return h@(a) + k@(b) * 3LL; } static int h@(int x){ return x / 2; } static int k@(int x){ return h@(x) + 1; }"),
        ("static/local-persists", "static int cnt@(void){ static int n; static int m = 10; n++; m += n; return m; } long long f@(int a,int b){ int r = cnt@(); r = r * 100 + cnt@(); return r + (a & b & 0); }"),
        ("static/local-initialised-aggregates", "long long f@(int a,int b){ static int t[4] = { 1, 2, [3] = 4 }; static struct { char c; long v; } s = { 'x', 99 }; static const char *names[] = { \"p\", \"qr\" }; static char buf[] = \"hey\"; "
         "return t[a & 3] + s.c + s.v + names[b & 1][0] + buf[a & 3] + (long long)sizeof buf; }"),
        ("static/two-locals-same-name", "static int one@(void){ static int n = 5; return n++; } static int two@(void){ static int n = 50; return n++; } long long f@(int a,int b){ int r = one@() + two@(); r += one@() * 1000; return r + (a & b & 0); }"),
        ("static/file-scope-and-tentative", "static int s@; int t@; int t@; static int s@ = 4; int t@ = 6; extern int t@; long long f@(int a,int b){ extern int t@; return s@ * 10 + t@ + a + b; }"),
        ("extern/declared-in-block", "int gx@ = 42; static int h@(void){ return gx@ + 1; } long long f@(int a,int b){ extern int gx@; int h2(void); return gx@ + h@() + a + b; }".replace("int h2(void); ", "")),
        ("prototype/void-parameter-list", "int g@; void bump@(void); int get@(void); long long f@(int a,int b){ g@ = a; bump@(); bump@(); return get@() + b; } void bump@(void){ g@ += 3; } int get@(void){ return g@; }"),
        ("prototype/unnamed-parameters", "static long mix@(int, long, char); long long f@(int a,int b){ return mix@(a, b, (char)a); } static long mix@(int x, long y, char z){ return x * 3L + y * 5 + z; }"),
        ("prototype/repeated-compatible", "int h@(int x); int h@(int); extern int h@(int y); long long f@(int a,int b){ return h@(a) + b; } int h@(int q){ return q ^ 5; }"),
        ("prototype/array-and-function-parameters-adjusted", "static int s@(int t[], int n, int g(int)){ return g(t[n]); } static int inc@(int x){ return x + 1; } long long f@(int a,int b){ int t[4] = { a, b, 3, 4 }; return s@(t, a & 3, inc@); }"),
        ("prototype/argument-conversion", "static long long w@(long long x, unsigned char c, short h, double d){ return x + c * 1000LL + h * 1000000LL + (long long)(d * 2) * 1000000000LL; } long long f@(int a,int b){ return w@(a, b, a, b); }"),
        ("prototype/return-conversion", "static unsigned char uc@(int x){ return x; } static short sh@(long x){ return x; } static double db@(int x){ return x; } static int in@(double x){ return x; } long long f@(int a,int b){ return uc@(a) + sh@(b) * 1000LL + (long long)db@(a & 255) + in@(2.75) * 7; }"),
        ("prototype/many-parameters", "static long long m@(int p1, long p2, char p3, short p4, int p5, long p6, int p7, long p8, char p9, int p10){ return p1 + 2 * p2 + 3 * p3 + 4 * p4 + 5 * p5 + 6 * p6 + 7 * p7 + 8 * p8 + 9 * p9 + 10LL * p10; } "
         "long long f@(int a,int b){ return m@(a, b, (char)a, (short)b, a + 1, b + 1, a + 2, b + 2, (char)(a + 3), b + 3); }"),
        ("prototype/many-doubles", "static double m@(double p1, double p2, double p3, double p4, double p5, double p6, double p7, double p8, double p9, double p10, int k){ return p1 + 2 * p2 + 3 * p3 + 4 * p4 + 5 * p5 + 6 * p6 + 7 * p7 + 8 * p8 + 9 * p9 + 10 * p10 + k; } "
         "long long f@(int a,int b){ double x = a & 1023, y = b & 1023; return (long long)(m@(x, y, x + 1, y + 1, x + 2, y + 2, x + 3, y + 3, x + 4, y + 4, 5) * 2); }"),
        ("prototype/mixed-int-double-interleaved", "static double m@(int i1, double d1, long i2, float d2, char i3, double d3, int i4, double d4, int i5, int i6, int i7, double d5){ return i1 + 2 * d1 + 3 * i2 + 4 * d2 + 5 * i3 + 6 * d3 + 7 * i4 + 8 * d4 + 9 * i5 + 10 * i6 + 11 * i7 + 12 * d5; } "
         "long long f@(int a,int b){ int x = a & 63, y = b & 63; return (long long)(m@(x, y * 0.5, x + 1, y * 0.25f, (char)x, y + 0.5, x + 2, y, x + 3, y + 1, x + 4, 1.5) * 4); }"),
        ("specifier-orders", "long long f@(int a,int b){ unsigned u = a; long int li = b; short int si = (short)a; signed s = b; long unsigned int lu = u; int long unsigned ilu = lu + 1; unsigned long long ull = ilu; signed char sc = (signed char)a; "
         "short unsigned su = (unsigned short)b; long long int lli = li; const volatile int cvi = 3; return u + li * 3 + si * 5 + s * 7 + (long long)(lu & 0xffff) + (long long)(ull & 0xff) + sc + su + lli + cvi; }"),
        ("plain-char-signedness", "long long f@(int a,int b){ char c = (char)a; signed char s = (signed char)a; unsigned char u = (unsigned char)a; return (c < 0) + 2 * (c == s) + 4 * (c == u) + 8 * (c >> 1) + 100000 * (long long)(c + s + u) + (b & 0); }"),
        ("multiple-declarators", "long long f@(int a,int b){ int x = a, *p = &x, t[2] = { b, 2 }, **pp = &p, (*fn)(int) = 0, n = sizeof t / sizeof *t; **pp += t[0]; return x * 10LL + n + (fn == 0); }"),
        ("register-auto-inline", "static inline int sq@(int x){ return x * x; } long long f@(int a,int b){ register int r = a & 255; auto int s = b & 255; return sq@(r) + sq@(s) * 100000LL; }"),
        ("static-assert-and-constant-expressions", "_Static_assert(sizeof(int) == 4, \"int\"); enum { N@ = (3 + 4) * 2 - 1, M@ = N@ > 10 ? 1 << 3 : 2, Q@ = sizeof(long) / 2, R@ = !0 + ~0 + -(-2) }; int t@[N@ % 5 + M@]; "
         "long long f@(int a,int b){ _Static_assert(N@ == 13, \"n\"); return N@ + M@ * 100 + Q@ * 10000 + R@ * 100000 + (long long)sizeof t@ * 1000000 + (a & b & 0); }"),
        ("initialiser-constant-expressions", "static int i1@ = 7 / 2 - 7 % 4; static int i2@ = (1 << 4 | 3) & ~1 ^ 0x55; static long i3@ = -1 < 0u ? 10 : 20; static unsigned i4@ = -1; static long long i5@ = 1LL << 40; static int i6@ = (char)300 + (unsigned char)-1; "
         "static int i7@ = 3 > 2 && 0 || 5; static double i8@ = 1 / 2 + 1.0 / 2; static int i9@ = (int)2.9 + (int)-2.9; long long f@(int a,int b){ return i1@ + i2@ * 10 + i3@ * 1000 + (long long)i4@ * 3 + i5@ + i6@ * 7 + i7@ * 11 + (long long)(i8@ * 4) * 13 + i9@ + (a & b & 0); }"),
        ("integer-constant-forms", "long long f@(int a,int b){ return 0x1F + 017 + 0 + 10u + 10l + 10ul + 10lu + 10LL + 10uLL + 0xFFFFFFFFu / 65536 + 0777 + 1e2 + .5e1 + 0x10L + (a & b & 0); }"),
        ("float-constant-forms", "long long f@(int a,int b){ double d = 1.5 + 2. + .25 + 1e1 + 1.5e-1 + 0x1p3 + 0x.8p1; float g = 1.5f + 2.F; long double l = 1.0L; return (long long)(d * 1000) + (long long)(g * 10) + (long long)l + (a & b & 0); }"),
        ("old-style-tentative-arrays", "int t@[]; int t@[3]; extern int u@[]; int u@[2] = { 8, 9 }; long long f@(int a,int b){ t@[2] = a; return t@[2] + u@[b & 1] + (long long)sizeof t@; }"),
    ]
    for name, src in M:
        c = xcase(src, "long long", ["int", "int"], "DQ", name, k=7, cap=25)
        if name in ("static/local-persists", "static/two-locals-same-name"):
            c["vectors"] = [[0, 1]]  # objects that keep their value between calls: one call per process / interpreter instance
        yield c


X_FAMILIES = ["GI", "LI", "CH", "CL", "VA", "SZ", "ST", "SV", "PT", "DQ", "XA"]


def extended(storages=None, maxlen=None, shapes=None):
    """All extended families (except the cross-ABI family, see cross_abi) at the default bounds."""
    for st in (storages or STORAGES):
        for c in init_family(st, maxlen, shapes):
            yield c
    for g in (chars_strings, compound_literals, variadics, sizes_offsets, statements, struct_values, pointers, declarations):
        for c in g():
            yield c
